#!/usr/bin/env python3
"""tools/kf.py add <status> <property> <rule> <function> <key> <what> [commit]  -- maintain known_findings.json by hand (never at check time)"""
import json, sys, os
P = os.path.join(os.path.dirname(os.path.dirname(os.path.abspath(__file__))), "known_findings.json")
d = json.load(open(P))
_, cmd, status, prop, rule, function, key, what, *rest = sys.argv
e = {"property": prop, "rule": rule, "function": function, "key": key, "what": what, "status": status}
if rest: e["commit"] = rest[0]
d["findings"] = [x for x in d["findings"] if not (x["property"] == prop and x["rule"] == rule and x["function"] == function and x["key"] == key)]
d["findings"].append(e)
json.dump(d, open(P, "w"), indent=1)
print("recorded", status, prop, rule, function)
