#!/usr/bin/env python3
"""tools/rebase_seed.py SEED ...: re-anchor a seeded patch that no longer applies because /repo moved on (fix: commits):
apply it with fuzz in a scratch worktree of /repo HEAD, re-run the demo (clean 0 / patched non-zero) and the baseline
suite, and on success store the re-anchored diff as patch.diff (the old one is kept as patch.pre-fix.diff)."""
import json, os, subprocess, sys, tempfile, shutil
V = os.path.dirname(os.path.dirname(os.path.abspath(__file__)))
def sh(c, **kw): return subprocess.run(c, shell=True, stdout=subprocess.PIPE, stderr=subprocess.STDOUT, text=True, **kw)
for sid in sys.argv[1:]:
    d = os.path.join(V, "seeded", sid)
    wt = tempfile.mkdtemp(prefix="rb_", dir="/tmp"); os.rmdir(wt)
    try:
        assert sh("git -C /repo worktree add -q --detach %s HEAD" % wt).returncode == 0
        demo = "cd %s && PYTHONPATH=%s/src timeout 180 /venv/bin/python %s/demo.py" % (wt, wt, d)
        r0 = sh(demo)
        pa = sh("patch -p1 --fuzz=3 --no-backup-if-mismatch < %s/patch.diff" % d, cwd=wt)
        if pa.returncode != 0:
            print(sid, "CANNOT RE-ANCHOR:", pa.stdout.strip().splitlines()[-1][:120]); continue
        sh("find . -name '*.orig' -delete; find . -name '*.rej' -delete", cwd=wt)
        new = sh("git diff", cwd=wt).stdout
        r1 = sh(demo)
        rs = sh("cd %s && python3 tools/run_baseline.py %s" % (V, wt))
        ok = r0.returncode == 0 and r1.returncode != 0 and rs.returncode == 0
        print(sid, "demo clean/patched:", r0.returncode, r1.returncode, "| suite:", rs.stdout.strip().splitlines()[-1] if rs.stdout.strip() else "", "|", "OK" if ok else "NOT EQUIVALENT ANY MORE")
        if ok:
            if not os.path.exists(os.path.join(d, "patch.pre-fix.diff")):
                shutil.copy(os.path.join(d, "patch.diff"), os.path.join(d, "patch.pre-fix.diff"))
            open(os.path.join(d, "patch.diff"), "w").write(new)
            m = json.load(open(os.path.join(d, "meta.json")))
            m["rebased"] = "the original patch (patch.pre-fix.diff) no longer applied after later fix: commits in /repo; patch.diff is the same edit re-anchored with patch --fuzz on /repo HEAD, re-confirmed: demo exits 0 without it and non-zero with it, baseline suite unchanged"
            json.dump(m, open(os.path.join(d, "meta.json"), "w"), indent=1)
        else:
            m = json.load(open(os.path.join(d, "meta.json")))
            m["obsolete"] = "after later fix: commits the patch re-anchors but the demo no longer distinguishes (clean %s / patched %s) or the suite changed: the seeded change is not a violation of the repaired code any more" % (r0.returncode, r1.returncode)
            json.dump(m, open(os.path.join(d, "meta.json"), "w"), indent=1)
    finally:
        sh("git -C /repo worktree remove --force %s" % wt)
