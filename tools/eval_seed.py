#!/usr/bin/env python3
"""tools/eval_seed.py <PROP> <seed_dir> <seed_id>: confirm a seeded change (demo passes clean, fails patched, suite unchanged),
run the checks against it in /repo (apply, check, undo) and file it under /verif/seeded/<seed_id>/."""
import json, os, shutil, subprocess, sys, tempfile
V = os.path.dirname(os.path.dirname(os.path.abspath(__file__)))
prop, sdir, sid = sys.argv[1], sys.argv[2], sys.argv[3]
patch = os.path.join(sdir, "patch.diff"); demo = os.path.join(sdir, "demo.py")
def sh(cmd, **kw):
    return subprocess.run(cmd, shell=True, stdout=subprocess.PIPE, stderr=subprocess.STDOUT, text=True, **kw)
meta = {"seed_id": sid, "property": prop, "source": "independent sub-agent given only the property text and a scratch worktree"}
wt = tempfile.mkdtemp(prefix="ev_", dir="/tmp"); os.rmdir(wt)
try:
    assert sh("git -C /repo worktree add -q %s HEAD" % wt).returncode == 0
    env = "cd %s && PYTHONPATH=%s/src timeout 120 /venv/bin/python %s" % (wt, wt, demo)
    r0 = sh(env); meta["demo_exit_clean"] = r0.returncode
    ra = sh("git -C %s apply %s" % (wt, patch))
    if ra.returncode != 0:
        # /repo moved on since the sub-agent's worktree was made: re-anchor with fuzz and keep the re-anchored diff
        ra = sh("cd %s && patch -p1 --fuzz=3 --no-backup-if-mismatch < %s && find . -name '*.orig' -delete -o -name '*.rej' -delete" % (wt, patch))
        if ra.returncode == 0:
            newp = os.path.join(sdir, "patch.reanchored.diff")
            open(newp, "w").write(sh("git -C %s diff" % wt).stdout)
            patch = newp
            meta["reanchored"] = True
        else:
            sh("git -C %s checkout -- ." % wt)
    meta["patch_applies"] = ra.returncode == 0
    if ra.returncode != 0:
        meta["apply_error"] = ra.stdout[-400:]
    else:
        r1 = sh(env); meta["demo_exit_patched"] = r1.returncode; meta["demo_tail_patched"] = r1.stdout[-300:]
        rs = sh("cd %s && python3 tools/run_baseline.py %s" % (V, wt)); meta["suite"] = rs.stdout.strip().splitlines()[-1] if rs.stdout.strip() else ""; meta["suite_ok"] = rs.returncode == 0
        if not meta["suite_ok"]:
            meta["suite_tail"] = rs.stdout[-600:]
        # run the checks against the patched worktree (never against /repo itself)
        det = {}
        props = [c["property_id"] for c in json.load(open(os.path.join(V, "MANIFEST.json")))["checks"]]
        from concurrent.futures import ThreadPoolExecutor
        def one(p):
            return p, sh("cd %s && ./check %s --no-evidence --root %s" % (V, p, wt))
        with ThreadPoolExecutor(10) as ex:
            for p, r in ex.map(one, props):
                lines = [l for l in r.stdout.splitlines() if l.startswith("FINDING") or l.startswith("ANALYSIS-ERROR")]
                if r.returncode != 0:
                    det[p] = {"exit": r.returncode, "reports": [l[:260] for l in lines][:4]}
finally:
    sh("git -C /repo worktree remove --force %s" % wt)
confirmed = meta.get("demo_exit_clean") == 0 and meta.get("patch_applies") and meta.get("demo_exit_patched", 0) != 0 and meta.get("suite_ok")
meta["confirmed"] = bool(confirmed)
if "det" not in dir():
    det = {}
meta["checks_fired"] = det
meta["detected_by_target_check"] = prop in det and det[prop]["exit"] == 1
meta["detected_by_any_check"] = any(d["exit"] == 1 for d in det.values())
notes = os.path.join(sdir, "notes.md")
meta["needs_to_manifest"] = open(notes).read()[:1500] if os.path.exists(notes) else ""
meta["ran"] = "clean worktree: demo; git apply; demo; tools/run_baseline.py (1047 stable tests); then ./check <all> --root <patched worktree>"
out = os.path.join(V, "seeded", sid); os.makedirs(out, exist_ok=True)
shutil.copy(patch, os.path.join(out, "patch.diff")); shutil.copy(demo, os.path.join(out, "demo.py"))
json.dump(meta, open(os.path.join(out, "meta.json"), "w"), indent=1)
print(sid, "confirmed" if confirmed else "NOT-CONFIRMED", "| demo clean/patched:", meta.get("demo_exit_clean"), meta.get("demo_exit_patched"), "| suite_ok:", meta.get("suite_ok"), "| detected by target:", meta["detected_by_target_check"], "| any:", sorted(det))
for p, d in det.items():
    for l in d["reports"][:2]: print("    ", p, l[:200])
