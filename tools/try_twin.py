#!/usr/bin/env python3
"""tools/try_twin.py <kind> [PROP ...]: run one automatic twin (rename-locals | reformat | invert-if) against the given properties (default: all claimed)."""
import json, os, sys
from concurrent.futures import ProcessPoolExecutor
V = os.path.dirname(os.path.dirname(os.path.abspath(__file__)))
sys.path.insert(0, V)


def one(args):
    kind, p = args
    from sa.mutants import autotwins
    from sa.core import run_property
    rep, _ = run_property(p, "/repo")
    rels = sorted(rep.index.modules[m].relpath for m in rep.index.consulted)
    r = autotwins._one((p, kind, "/repo", rels))
    return p, r


if __name__ == "__main__":
    kind = sys.argv[1]
    props = sys.argv[2:] or [c["property_id"] for c in json.load(open(os.path.join(V, "MANIFEST.json")))["checks"]]
    with ProcessPoolExecutor(16) as ex:
        for p, r in ex.map(one, [(kind, p) for p in props]):
            print(p, r["status"], r.get("edits"), r.get("why", ""), [(a["rule"], a["function"].rsplit(".", 1)[-1], a["key"][:90]) for a in r.get("alarms", [])])
