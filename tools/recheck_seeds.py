#!/usr/bin/env python3
"""tools/recheck_seeds.py [SEED ...]: apply each seeded change to a scratch copy of /repo's working tree (outside /repo and
/verif, removed afterwards), run its target property's check on the copy (and, if that is silent, all others) and write
seeded/detection.json.  /repo itself is never touched."""
import json, os, shutil, subprocess, sys, tempfile
from concurrent.futures import ThreadPoolExecutor
V = os.path.dirname(os.path.dirname(os.path.abspath(__file__)))


def sh(c, **kw):
    return subprocess.run(c, shell=True, stdout=subprocess.PIPE, stderr=subprocess.STDOUT, text=True, **kw)


props = [c["property_id"] for c in json.load(open(os.path.join(V, "MANIFEST.json")))["checks"]]
only = sys.argv[1:]
path = os.path.join(V, "seeded", "detection.json")
out = json.load(open(path)) if os.path.exists(path) else {}


def one(sid):
    d = os.path.join(V, "seeded", sid)
    prop = sid.split("-")[0]
    base = tempfile.mkdtemp(prefix="rs_", dir=os.environ.get("TMPDIR") or "/tmp")
    try:
        shutil.copytree("/repo/src", os.path.join(base, "src"), ignore=shutil.ignore_patterns("__pycache__", "*.pyc"))
        sh("git init -q .", cwd=base)
        if sh("git apply %s/patch.diff" % d, cwd=base).returncode != 0:
            return sid, {"applies": False}
        r = sh("cd %s && ./check %s --no-evidence --root %s" % (V, prop, base))
        f = [l for l in r.stdout.splitlines() if l.startswith("FINDING")]
        rec = {"applies": True, "target_exit": r.returncode, "target_rule": f[0].split()[1] if f else None, "target_report": f[0][:300] if f else None}
        if r.returncode != 1:
            others = {}
            for p in props:
                if p == prop:
                    continue
                r2 = sh("cd %s && ./check %s --no-evidence --root %s" % (V, p, base))
                if r2.returncode != 0:
                    others[p] = r2.returncode
            rec["other_checks_nonzero"] = others
        return sid, rec
    finally:
        shutil.rmtree(base, ignore_errors=True)


sids = [s for s in sorted(os.listdir(os.path.join(V, "seeded"))) if os.path.isdir(os.path.join(V, "seeded", s)) and os.path.exists(os.path.join(V, "seeded", s, "patch.diff")) and (not only or s in only)]
with ThreadPoolExecutor(12) as ex:
    for sid, rec in ex.map(one, sids):
        out[sid] = rec
        print(sid, "exit=%s" % rec.get("target_exit"), rec.get("target_rule"), rec.get("other_checks_nonzero", "") if rec.get("applies") else "patch does not apply")
json.dump(out, open(path, "w"), indent=1, sort_keys=True)
