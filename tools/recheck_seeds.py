#!/usr/bin/env python3
"""Apply each seeded change to /repo, run its target property's check (and, if silent, all others), undo; write seeded/detection.json."""
import json, os, subprocess, sys
V = os.path.dirname(os.path.dirname(os.path.abspath(__file__)))
def sh(c): return subprocess.run(c, shell=True, stdout=subprocess.PIPE, stderr=subprocess.STDOUT, text=True)
assert sh("git -C /repo status --porcelain").stdout.strip() == "", "repo not clean"
props = [c["property_id"] for c in json.load(open(os.path.join(V, "MANIFEST.json")))["checks"]]
only = sys.argv[1:]
path = os.path.join(V, "seeded", "detection.json")
out = json.load(open(path)) if os.path.exists(path) else {}
for sid in sorted(os.listdir(os.path.join(V, "seeded"))):
    d = os.path.join(V, "seeded", sid)
    if not os.path.isdir(d) or (only and sid not in only): continue
    prop = sid.split("-")[0]
    if sh("git -C /repo apply %s/patch.diff" % d).returncode != 0:
        out[sid] = {"applies": False}; print(sid, "patch does not apply"); continue
    try:
        r = sh("cd %s && ./check %s --no-evidence" % (V, prop))
        f = [l for l in r.stdout.splitlines() if l.startswith("FINDING")]
        rec = {"applies": True, "target_exit": r.returncode, "target_rule": f[0].split()[1] if f else None, "target_report": f[0][:300] if f else None}
        if r.returncode != 1:
            others = {}
            for p in props:
                if p == prop: continue
                r2 = sh("cd %s && ./check %s --no-evidence" % (V, p))
                if r2.returncode != 0: others[p] = r2.returncode
            rec["other_checks_nonzero"] = others
    finally:
        sh("git -C /repo checkout -- .")
    out[sid] = rec
    print(sid, "exit=%s" % rec["target_exit"], rec.get("target_rule"), rec.get("other_checks_nonzero", ""))
json.dump(out, open(path, "w"), indent=1, sort_keys=True)
