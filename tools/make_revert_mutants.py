#!/usr/bin/env python3
"""Builds sa/mutants/reverts.json: for every 'fixed' entry of known_findings.json, the reverse of its fix commit as text edits."""
import json, subprocess, os, re
V = os.path.dirname(os.path.dirname(os.path.abspath(__file__)))
kf = json.load(open(os.path.join(V, "known_findings.json")))["findings"]
by_commit = {}
for e in kf:
    if e.get("status") == "fixed" and e.get("commit"):
        by_commit.setdefault(e["commit"], set()).add((e["property"], e["rule"]))
out = []
for commit, prs in sorted(by_commit.items()):
    diff = subprocess.check_output(["git", "-C", "/repo", "show", commit, "--format=", "-U2"], text=True)
    edits = []
    cur_file = None
    hunk_old, hunk_new = None, None
    def flush():
        if cur_file and hunk_old is not None:
            edits.append({"file": cur_file, "find": "".join(hunk_new), "replace": "".join(hunk_old)})
    for line in diff.splitlines(keepends=True):
        if line.startswith("diff --git"):
            flush(); hunk_old = hunk_new = None
        elif line.startswith("+++ b/"):
            cur_file = line[6:].strip()
        elif line.startswith("--- "):
            pass
        elif line.startswith("@@"):
            flush(); hunk_old, hunk_new = [], []
        elif hunk_old is not None:
            if line.startswith("+"): hunk_new.append(line[1:])
            elif line.startswith("-"): hunk_old.append(line[1:])
            elif line.startswith(" "): hunk_old.append(line[1:]); hunk_new.append(line[1:])
    flush()
    # identical hunks (the same change applied at several places) become one edit with a count
    uniq = []
    for e in edits:
        for u in uniq:
            if u["file"] == e["file"] and u["find"] == e["find"] and u["replace"] == e["replace"]:
                u["count"] += 1
                break
        else:
            e["count"] = 1
            uniq.append(e)
    edits = uniq
    # verify anchors on the current tree
    ok = True
    for e in edits:
        src = open(os.path.join("/repo", e["file"])).read()
        if src.count(e["find"]) != e["count"]:
            ok = False
            print("WARNING: anchor not unique for", commit, e["file"], src.count(e["find"]))
    for n, (p, r) in enumerate(sorted(prs)):
        out.append({"commit": commit, "n": n, "property": p, "rule": r, "edits": edits, "anchors_ok": ok})
json.dump(out, open(os.path.join(V, "sa", "mutants", "reverts.json"), "w"), indent=1)
print("wrote", len(out), "revert mutants from", len(by_commit), "fix commits")
