#!/usr/bin/env python3
"""Runs the repository's pinned suite (optionally in a given checkout) and compares with BASELINE.json stable_pass."""
import json, subprocess, sys, os, tempfile, xml.etree.ElementTree as ET
repo = sys.argv[1] if len(sys.argv) > 1 else "/repo"
base = json.load(open("/root/.vp/BASELINE.json"))
out = tempfile.mktemp(suffix=".xml", dir=os.environ.get("TMPDIR", "/tmp"))
env = dict(os.environ)
if repo != "/repo":
    env["PYTHONPATH"] = os.path.join(repo, "src")
cmd = ["/venv/bin/python", "-m", "pytest", "-q", "-p", "no:cacheprovider", "--timeout=900", "--continue-on-collection-errors",
       "-n", os.environ.get("NPROC", "12"), "--junitxml=" + out]
r = subprocess.run(cmd, cwd=repo, env=env, stdout=subprocess.PIPE, stderr=subprocess.STDOUT, text=True)
passed = set()
for tc in ET.parse(out).getroot().iter("testcase"):
    if not any(c.tag in ("failure", "error", "skipped") for c in tc):
        passed.add(tc.get("classname") + "::" + tc.get("name"))
os.unlink(out)
want = set(base["stable_pass"])
missing = sorted(want - passed)
print("stable_pass: %d, passed now: %d, missing: %d" % (len(want), len(passed & want), len(missing)))
for m in missing[:40]:
    print("  MISSING", m)
sys.exit(1 if missing else 0)
