#!/usr/bin/env python3
"""tools/show.py <module-path-or-dotted> <func|Class.func>...  prints code without docstrings"""
import ast, sys, os
def main():
    mod = sys.argv[1]
    path = mod if os.path.exists(mod) else "/repo/src/" + mod.replace(".", "/") + ".py"
    src = open(path).read(); lines = src.split("\n"); tree = ast.parse(src)
    want = sys.argv[2:]
    def emit(f):
        ds = None
        b = f.body
        if b and isinstance(b[0], ast.Expr) and isinstance(b[0].value, ast.Constant) and isinstance(b[0].value.value, str):
            ds = b[0]
        for i in range(f.lineno, f.end_lineno + 1):
            if ds and ds.lineno <= i <= ds.end_lineno: continue
            if lines[i-1].strip().startswith("#") : continue
            print("%d: %s" % (i, lines[i-1]))
        print()
    def visit(node, prefix):
        for n in node.body:
            if isinstance(n, ast.ClassDef):
                if (prefix + n.name) in want:
                    for m in n.body:
                        if isinstance(m, ast.FunctionDef): emit(m)
                visit(n, prefix + n.name + ".")
            elif isinstance(n, (ast.FunctionDef, ast.AsyncFunctionDef)):
                q = prefix + n.name
                if q in want or n.name in want: emit(n)
    visit(tree, "")
main()
