#!/bin/sh
# setup: nothing to build; verify the analyser can parse the tree it will analyse.
cd "$(dirname "$0")/.." || exit 1
PY=/venv/bin/python; [ -x "$PY" ] || PY=python3
exec env PYTHONDONTWRITEBYTECODE=1 PYTHONPATH="$(pwd)" "$PY" -c "
from sa.index import Index
import os
ix = Index(os.environ.get('SA_ROOT', '/repo'))
assert len(ix.modules) > 50, len(ix.modules)
print('selfcheck ok: %d modules, %d functions, %d classes' % (len(ix.modules), len(ix.functions), len(ix.classes)))
"
