# Table consumed by tools/gen_manifest.py.  claim(id, technique, level text, level note, design ref)
NOTE = ("Trusted base: CPython's ast parser, the hand-built CFG (sa/cfg.py) and the callee resolution of sa/index.py. "
        "Decides structural necessary conditions only; behaviour is never executed.")

claim("C19",
      "AST loop-progress analysis + CFG guard dominance + effect analysis of row operations",
      "Static: every while-loop in charmatrixmodel has a condition its body can change (termination clause); each row operation is "
      "dominated by a namespace-identity guard; argument matrices are never written and rows taken from them are freshly wrapped; "
      "the three parallel cell lists change length together; export deletes by membership from the high end; concatenate's subset "
      "ranges tile the columns. Value-level exactness of selected contents is not decided.",
      NOTE, "DESIGN.md section 2, C19")

_PENDING = "rule module not yet built in this session (claimed in DESIGN.md; will move to checks when the rule lands)"
for _p in ["C01","C02","C03","C04","C05","C06","C07","C08","C09","C10","C11","C12","C13","C15","C16","C18","C20"]:
    if _p not in CLAIMED:
        na(_p, _PENDING)
na("C14", "every clause is a numeric identity over all trees (path sums, NJ/UPGMA arithmetic, exact recovery); no structural necessary condition worth arming with static analysis")
na("C17", "formula correctness and floating-point threshold behaviour are value-level; the only shape fact would be a frozen source fragment, which is a false alarm in waiting")
