# Table consumed by tools/gen_manifest.py.  claim(id, technique, level text, level note, design ref)
NOTE = ("Trusted base: CPython's ast parser, the hand-built CFG (sa/cfg.py) and the callee resolution of sa/index.py. "
        "Decides structural necessary conditions only; behaviour is never executed.")

claim("C19",
      "AST loop-progress analysis + CFG guard dominance + effect analysis of row operations",
      "Static: every while-loop in charmatrixmodel has a condition its body can change (termination clause); each row operation is "
      "dominated by a namespace-identity guard; argument matrices are never written and rows taken from them are freshly wrapped; "
      "the three parallel cell lists change length together; export deletes by membership from the high end; concatenate's subset "
      "ranges tile the columns. Value-level exactness of selected contents is not decided.",
      NOTE, "DESIGN.md section 2, C19")

claim("C05",
      "AST/CFG cache-freshness (stamp) analysis, def-use of weights, threshold/sort-order extraction, clone agreement",
      "Static: source fields of SplitDistribution are written only by the counting/merging functions which advance the stamp source; "
      "derived tables are served only through getters that test None/stamp; the same local feeds weight sum and counts; consensus keeps "
      "freq >= min_freq, sorts descending with the split as tie-break, propagates rooting; maximum-credibility functions restore and "
      "annotate the tree at the index their own scorer reports. Frequencies, maximality and summary numbers are not decided.",
      NOTE, "DESIGN.md section 2, C05")
claim("C06",
      "parallel-list pairing on the CFG, accumulate-vs-merge field-set agreement, emptiness-guard reachability, worker-protocol must-pass-through",
      "Static: the four per-tree lists of TreeArray change length together on every path; every field accumulated per tree is merged by "
      "update/extend; a rooting rejection is unreachable unless both operands are known non-empty; the consensus order is a total order "
      "independent of arrival; every non-killed exit of the sumtrees worker puts a result and the collation loop merges exactly "
      "num_processes results through update() with agreeing settings. Equality of the resulting summaries is not decided.",
      NOTE, "DESIGN.md section 2, C06")
claim("C08",
      "unused-parameter/forwarding analysis, taint-based no-write-to-source effect analysis, def-use of the removed-node list, flag-gated CFG paths",
      "Static: every documented parameter of the pruning/extraction family is read; extraction has no store/mutator rooted at the source; "
      "the returned removed-node list is fed by exactly the per-round removal lists; unifurcation suppression runs iff the flag is truthy; "
      "the thin clone copies only label, taxon, edge length/label and the back-reference. Equality with the induced subtree is not decided.",
      NOTE, "DESIGN.md section 2, C08")

claim("C01",
      "def-use of shift amounts, reaching definitions of the leafset accumulator, argument-wiring extraction, CFG dominance of cache resets",
      "Static: a taxon->bit conversion exists only in the namespace (from the accession index); the stored leafset mask is 0, the leaf bit or the OR "
      "over all children in post-order; normalisation uses the LSB of the tree's own leafset mask and compile passes the seed edge's leafset; "
      "identity reads the split mask only; encode resets the cached maps before every exit; the predicates are wired to the right masks. "
      "The topology iff, reconstruction and bit-trick correctness are not decided.",
      NOTE, "DESIGN.md section 2, C01")
claim("C04",
      "must-pass-through on the CFG (re-encode before read unless flagged), guard dominance, forwarding analysis, sibling None-handling comparison, name resolution",
      "Static: with default arguments every read of a tree's encoding in treecompare is dominated by that tree's encode_bipartitions(); wrappers forward the flag "
      "and never pass a literal True; the namespace identity test dominates all uses; the length kernel's None handling is compared per argument; every "
      "treecompare.<name> reference resolves; the split-set kernel returns the two one-sided differences. Metric axioms and numeric equality are not decided.",
      NOTE, "DESIGN.md section 2, C04")
claim("C10",
      "who-may-write ownership analysis of the index state, CFG pairing in add/remove, bit-position lookup extraction, result-shape consumption analysis",
      "Static: the accession-index state is written only by five TaxonNamespace methods; the counter is only zeroed by the constructor and incremented in add_taxon; "
      "add/remove keep both maps and the memo paired; sort/reverse write only the member list; bit->taxon renderings go through the accession index; every caller of "
      "_lookup_label consumes the shape it asked for; Taxon identity reads no state. Lookup contents and round trips as values are not decided.",
      NOTE, "DESIGN.md section 2, C10")

claim("C03",
      "who-may-write ownership table over the link fields, CFG pairing rules with branch correlation, guard dominance before Edge.collapse, flag-honouring must-pass-through",
      "Static: the five link fields are written only by the 19 book-keeping functions of a frozen table; inside each, parent stores are paired with child-list "
      "placement/removal on every path; every Edge.collapse call is dominated by a has-children test; with update_bipartitions truthy every structural change is "
      "followed by a re-encode or a forwarding call; a node handed to remove_child after a node-deleting call is re-checked; raw child lists are not iterated while "
      "restructured. That arbitrary operation histories preserve the invariant is not decided beyond these per-function necessary conditions.",
      NOTE, "DESIGN.md section 2, C03")
claim("C07",
      "CFG must-pass-through for the rooting flag, transitive effect analysis of soft operations, splice-out length-merge pattern check, argument wiring",
      "Static: hard re-rootings set is_rooted on every path; soft operations reach no store of True to the flag and no hard operation; the outgroup is re-inserted "
      "at index 0 of the reseed target; every single-child splice-out merges edge lengths; reroot_at_edge wires length1/length2; Edge.invert swaps lengths. "
      "Midpoint position, split-set and path-length equality are value-level and not decided.",
      NOTE, "DESIGN.md section 2, C07")

claim("C02",
      "table agreement: tokenizer delimiter/quote/comment sets vs regex protect classes at every escape call site; rooting-token and NeXML tag/attribute vocabulary agreement",
      "Static: every printable-ASCII/TAB character that ends or splits an unquoted token is in the protect class of all 18 escape call sites; the space/underscore "
      "clauses and the quote-doubling convention match the tokenizer; rooting/weight tokens emitted are recognised and interpreted with the right polarity; "
      "every NeXML tree-side tag and data-carrying attribute written is read back. Equality of the re-read tree (topology, order, lengths) is not decided.",
      NOTE, "DESIGN.md section 2, C02")
claim("C09",
      "writer/reader keyword-table agreement, suppress-flag polarity analysis through predicates, per-cell id minting check in the NeXML writer loop, vocabulary and data-type table agreement",
      "Static: every NEXUS keyword/FORMAT term/DATATYPE value the writer emits has a reader branch; matrix labels are escaped with a covering protect class; each suppress_* "
      "flag gates its emission negatively (also through predicates returning it); the NeXML <char> id of a cell is column-keyed, never minted per cell; characters-side "
      "NeXML vocabulary and data-type tables agree. Equality of sequences, PHYLIP/FASTA label admissibility and interleaving are not decided.",
      NOTE, "DESIGN.md section 2, C09")

claim("C20",
      "token-loop progress on the CFG, abstract interpretation under an end-of-stream assumption, flow-sensitive nullness with inter-procedural guards, raise-class resolution, call-graph SCCs",
      "Static: no reader loop has a cycle that avoids every condition-variable assignment, token advance and exit; under the end-of-stream assumption (optional sources "
      "return None, is_eof() holds) no token loop has a feasible cycle; values from end-of-stream-signalling sources and undeclared dimensions are not dereferenced without a "
      "non-None test; every raise reachable from a reader entry point is of the DataParseError family; the reader call graph has no input-driven recursion beyond the recorded one; "
      "PHYLIP's declared dimensions are compared after parsing. Well-formedness of returned objects and loops with numeric progress are not decided.",
      NOTE, "DESIGN.md section 2, C20")

claim("C13",
      "dispatch/forwarding extraction, who-builds-nodes ownership check, sibling (clone) comparison of the two NEXUS front ends as token-branch maps, selection-expression extraction",
      "Static: all four source kinds reach the one stream parser with schema/kwargs forwarded and an untransformed stream; tree nodes are built from tokens in exactly one "
      "function reached by every Newick/NEXUS route; the NEXUS reader and the NEXUS tree yielder have the same token branches, callees and loop guards modulo declared "
      "differences and the Newick reader/yielder configure tokenizer and mapper alike; offsets select from one full read and the selected tree is not altered; every reader "
      "service delegates to the same _read. Equality of delivered trees and the NeXML routes beyond dispatch are not decided.",
      NOTE, "DESIGN.md section 2, C13")

claim("C15",
      "traversal-schema extraction and sibling comparison of the node/edge stack machines, MRO scan for truthiness hooks, wrapper forwarding check",
      "Static: the hand-written pre/post-order generators have the textbook schema (LIFO, children reversed, yield before expansion / two-state visited marker) and "
      "the independent edge generators have the same schema as their node siblings; internal variants compose the same filters; level-order is FIFO; the remaining edge "
      "iterators are wrappers; Node/Edge define no __bool__/__len__; Tree wrappers forward every parameter; the callback walk is bounded by its start node. "
      "Exactly-once/visit order for all shapes would need the stack machines executed or modelled and is not decided.",
      NOTE, "DESIGN.md section 2, C15")

claim("C16",
      "cache-first getter detection with a refresh-before-read check in the leaf branch, guard dominance, taint-based no-write-to-arguments, paired-increment check",
      "Static: leaf state sets are refreshed from this call's map before the attribute-first getter serves them; the namespace test dominates all computation; the matrix, "
      "weights and state-set map are never written; every increment of the total is paired with the same per-character increment. Minimality and root/child-order "
      "independence are value-level and not decided.",
      NOTE, "DESIGN.md section 2, C16")
claim("C18",
      "RNG-threading analysis: idiom check for GLOBAL_RNG, module-level random calls, parameter forwarding at every resolved call site of an rng-taking callee, set-iteration scan",
      "Static: GLOBAL_RNG is referenced only as the default of a function's own rng; no simulator calls the module-level generator; at each of the call sites whose callee "
      "takes an rng the caller passes its own rng; no simulator iterates over or samples from an id-ordered set. Tip counts, bifurcation, ultrametricity and the coalescent "
      "containment constraint are not decided.",
      NOTE, "DESIGN.md section 2, C18")

claim("C11",
      "bound-before-insert dominance on the CFG, memo-sharing/forwarding extraction, guarded-store analysis of the row map, re-keying identity guard",
      "Static: every tree stored into TreeList._trees is dominated by its import into the list's namespace or is constructed over it; the import helper migrates or adds "
      "whenever namespaces differ; migration assigns then reconstructs and forwards the shared memo, which TreeList/DataSet hand unchanged to all members; matrix rows are "
      "stored only under checked members and re-keying excludes identity; DataSet.new_* bind to the attached namespace. That no taxon is dropped/merged as a statement "
      "about label multisets is not decided.",
      NOTE, "DESIGN.md section 2, C11")
claim("C12",
      "memo-discipline checks over all copy-protocol functions (memo passed, registration dominates recursion, annotations handled apart), pre-seeding dominance, clone whitelist, mutable-default scan",
      "Static: each copy.deepcopy inside a __deepcopy__/_clone_from/annotation copier passes the memo and the new object is registered first; namespace-scoped copies pre-seed "
      "the memo with the namespace and its taxa before deep-copying; _clone_from maps namespace and taxa first; the thin clone copies a fixed whitelist; no mutable default or "
      "instance-mutated class-level container in the data model. Equality of copy and source and independence as behaviour are not decided; TreeList/CharacterMatrix copy.copy "
      "are documented shallow and not claimed.",
      NOTE, "DESIGN.md section 2, C12")

_PENDING = "rule module not yet built in this session (claimed in DESIGN.md; will move to checks when the rule lands)"
for _p in ["C01","C02","C03","C04","C05","C06","C07","C08","C09","C10","C11","C12","C13","C15","C16","C18","C20"]:
    if _p not in CLAIMED:
        na(_p, _PENDING)
claim("C14",
      "unit (dimension) inference over the distance-matrix classes, parallel-formula agreement between the length and step computations, table-mirroring agreement, CFG must-pass-through, flag polarity",
      "Static, for the path-table clauses only: no sum mixes path lengths with step counts or bare integers and every table holds one unit; the length and step "
      "accessors read and normalise by quantities of their own unit and the weighted switch selects them that way round; wherever a length and a step count are "
      "stored for the same pair, replacing each edge-length term by 1 in the length formula gives the step formula; every pair table is mirrored (taxon matrix: "
      "_mirror_lookups on every path; node matrix: mirrored stores in the same block); the recorded common ancestor of a pair across two children is the node being "
      "processed; Tree.mrca re-encodes when asked and treemeasure.patristic_distance forwards the flag. NOT decided: that the sums are the true path sums for every "
      "tree, the summaries, and everything about NJ and UPGMA (numeric; out of reach of this family).",
      NOTE, "DESIGN.md section 2, C14 (as built: section 8)")
claim("C17",
      "decision-table evaluation of option gates and dispatch chains, CFG reachability of the error, recurrence-orientation and inverse-formula agreement, symmetry of positional child uses",
      "Static, structure only: the ultrametricity error is unreachable under a forcing option or precision None/False and reachable otherwise, compares every remaining child's "
      "(age + length) with the node's age and rejects only a strictly greater difference; the forcing options take max / min over (age + length) of all children and both together are "
      "refused; ages, depths and root distances follow recurrences that point the right way, and lengths-from-ages is the algebraic inverse of ages-from-lengths; the normalisation options "
      "of the Colless and Sackin statistics dispatch as documented (unknown -> TypeError, None/False -> raw); positional child picks enter symmetric expressions only; treeness is "
      "internal/(internal+external). NOT decided: the numeric value of any age, count or statistic, floating-point behaviour at the threshold, B1 / N-bar / gamma formulas.",
      NOTE, "DESIGN.md section 2, C17 (as built: section 8)")
