#!/bin/sh
# tools/run_all.sh [quick|thorough]: run every claimed check in parallel, print one line per property and any non-routine output
cd "$(dirname "$0")/.." || exit 1
TIER=${1:-quick}
OUT=$(mktemp -d)
for p in $(python3 -c "import json;print(' '.join(c['property_id'] for c in json.load(open('MANIFEST.json'))['checks']))"); do
  ( ./check $p --tier $TIER > $OUT/$p.out 2>&1; echo "$p exit=$?" > $OUT/$p.rc ) &
done
wait
cat $OUT/*.rc | tr '\n' ' '; echo
grep -h "SELF-VALIDATION\|ANALYSIS-ERROR\|^FINDING\|^VIOLATION" $OUT/*.out | cut -c1-300
rm -rf $OUT
