#!/bin/sh
# tools/recheck_seeds.sh : apply each seeded change to /repo, run its target check, undo.
cd /verif
[ -z "$(git -C /repo status --porcelain)" ] || { echo "repo not clean"; exit 2; }
for sd in seeded/*; do
  id=$(basename $sd); p=${id%-*}
  git -C /repo apply /verif/$sd/patch.diff 2>/dev/null || { echo "$id patch does not apply"; continue; }
  out=$(./check $p --no-evidence 2>&1); e=$?
  git -C /repo checkout -- .
  echo "$id exit=$e $(echo "$out" | grep '^FINDING' | head -1 | cut -c9-140)"
done
