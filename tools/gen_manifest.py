#!/usr/bin/env python3
"""Regenerates /verif/MANIFEST.json from the table below (kept valid at all times)."""
import json
import os
import sys

HERE = os.path.dirname(os.path.dirname(os.path.abspath(__file__)))
sys.path.insert(0, HERE)

BASELINE = "cd /repo && /venv/bin/python -m pytest -ra -q -p no:cacheprovider --timeout=900 --continue-on-collection-errors"

# property -> (technique, level text, level note, design ref)
CLAIMED = {}
NOT_APPLICABLE = {}


def claim(pid, technique, text, note, ref):
    CLAIMED[pid] = (technique, text, note, ref)


def na(pid, reason):
    NOT_APPLICABLE[pid] = reason


exec(open(os.path.join(HERE, "tools", "manifest_table.py")).read())


def main():
    checks = []
    for pid in sorted(CLAIMED):
        technique, text, note, ref = CLAIMED[pid]
        checks.append({
            "property_id": pid,
            "quick_cmd": "./check %s --tier quick" % pid,
            "thorough_cmd": "./check %s --tier thorough" % pid,
            "evidence_file": "/verif/evidence/%s.json" % pid,
            "replay_cmd_template": "./check %s --replay {path}" % pid,
            "engine": "sa",
            "level_claimed": {"category": "other", "text": text, "design_ref": ref},
            "level_note": note,
            "technique": technique,
        })
    man = {
        "version": 1,
        "setup_cmd": "./tools/selfcheck.sh",
        "hooks": {
            "guard": "DENDROPY_VERIF",
            "enable": "no source hooks: the checks are static analyses that parse /repo/src/dendropy and execute nothing; the guard name is reserved and unused",
            "baseline_off_cmd": BASELINE,
            "source_commits": [],
            "add_only": True,
        },
        "engines": [{
            "name": "sa",
            "path": "/verif/sa",
            "serves_properties": sorted(CLAIMED),
            "kind_free_text": "repository-specific static analysis: ast program index (classes/MRO/properties/callee resolution), hand-built statement CFG with short-circuit expansion, attribute effect extraction, per-property rule modules; mutant self-validation in the thorough tier",
        }],
        "checks": checks,
        "notes": "Every claimed property is claimed IN PART: the check decides named structural necessary conditions (rules R<prop>.<n>, see DESIGN.md section 2) from source text only; value-level clauses are listed as undecided in each evidence file. Exit codes: 0 ok, 1 + VIOLATION line, 2 = ANALYSIS-ERROR (vanished anchor / instance floor / unrecognised shape). Known findings: /verif/known_findings.json.",
        "not_applicable": [{"property_id": p, "reason": r} for p, r in sorted(NOT_APPLICABLE.items())],
    }
    with open(os.path.join(HERE, "MANIFEST.json"), "w") as f:
        json.dump(man, f, indent=1)
    print("MANIFEST.json: %d checks, %d not applicable" % (len(checks), len(NOT_APPLICABLE)))


if __name__ == "__main__":
    main()
