"""C18 Simulated trees meet their specification for every seed and are reproducible."""
import ast

from .common import *  # noqa

SIM_MODULES = ["dendropy.model.birthdeath", "dendropy.model.coalescent", "dendropy.simulate.treesim", "dendropy.calculate.probability", "dendropy.model.treeshape"]
TREE = "dendropy.datamodel.treemodel._tree.Tree"
RNG_TREE_METHODS = ("randomly_assign_taxa", "resolve_polytomies", "shuffle_taxa", "randomly_rotate", "randomly_reorient")


def has_rng(fi):
    if "rng" in fi.all_params:
        return True
    for c in calls_in(fi.node):
        if isinstance(c.func, ast.Attribute) and norm(c.func.value) == "kwargs" and c.func.attr in ("pop", "get") and c.args and const_value(c.args[0]) == "rng":
            return True
    return False


def rng_var(fi):
    """name under which the function holds its generator: the `rng` parameter or the target of kwargs.pop/get('rng', ...)."""
    if "rng" in fi.all_params:
        return "rng"
    for n in walk_no_nested(fi.node):
        if isinstance(n, ast.Assign) and isinstance(n.value, ast.Call) and isinstance(n.value.func, ast.Attribute) and norm(n.value.func.value) == "kwargs" \
                and n.value.func.attr in ("pop", "get") and n.value.args and const_value(n.value.args[0]) == "rng" and isinstance(n.targets[0], ast.Name):
            return n.targets[0].id
    return "rng"


def run(index, rep, tier):
    rep.rule("R18.1", "RNG threading: GLOBAL_RNG appears only in the default idioms; the `random` module is used only to construct Random(); every call to a function/method that takes an rng passes the caller's own rng")
    rep.rule("R18.2", "no id-ordered iteration feeding the result: simulators do not iterate over / sample from a set of nodes or taxa")
    fns = []
    for m in SIM_MODULES:
        fns.extend(index.functions_in_module(m))
    fns.extend(index.function(TREE + "." + n) for n in RNG_TREE_METHODS)
    rng_takers = {f.qualname: f for f in index.functions.values() if has_rng(f)}
    rep.floor("R18.1", "functions taking an rng", 30, len(rng_takers))
    taker_names = {}
    for f in rng_takers.values():
        taker_names.setdefault(f.name, []).append(f)

    # ---- (a) GLOBAL_RNG idioms
    with rep.section("(a) GLOBAL_RNG idioms"):
        nglob = 0
        for f in fns:
            pm = parent_map(f.node)
            for n in walk_no_nested(f.node):
                if isinstance(n, ast.Name) and n.id == "GLOBAL_RNG":
                    nglob += 1
                    p = pm.get(n)
                    ok = False
                    rv = rng_var(f)
                    if isinstance(p, ast.Assign) and norm(p.targets[0]) == rv:
                        g = pm.get(p)
                        if isinstance(g, ast.If) and norm(g.test) in ("%s is None" % rv, "not %s" % rv, "%s == None" % rv):
                            ok = True
                    if isinstance(p, ast.Call) and isinstance(p.func, ast.Attribute) and norm(p.func.value) == "kwargs" and p.func.attr in ("pop", "get") and const_value(p.args[0]) == "rng":
                        ok = isinstance(pm.get(p), ast.Assign) and norm(pm.get(p).targets[0]) == rv
                    rep.check(ok, "R18.1", f.qualname, "GLOBAL_RNG outside the default idiom: %s" % norm_stmt(enclosing_stmt(n, pm)), fn_where(f, n), "%s uses GLOBAL_RNG only as the default for its own rng" % f.name,
                              "%s reads GLOBAL_RNG outside the `rng = ... default` idiom (`%s`): the draw bypasses the generator the caller supplied and two runs from equal generator states differ" % (f.qualname, norm_stmt(enclosing_stmt(n, pm))))
            # default parameter value
            a = f.node.args
            for d in list(a.defaults) + [x for x in a.kw_defaults if x is not None]:
                if isinstance(d, ast.Name) and d.id == "GLOBAL_RNG":
                    nglob += 1
                    rep.ob("R18.1", fn_where(f), "%s: GLOBAL_RNG as parameter default" % f.name, True)
        rep.floor("R18.1", "GLOBAL_RNG references in the simulators", 18, nglob)

    # ---- (b) random module
    with rep.section("(b) random module"):
        for f in fns:
            for c in calls_in(f.node):
                if isinstance(c.func, ast.Attribute) and isinstance(c.func.value, ast.Name) and c.func.value.id == "random":
                    tgt = index.resolve_expr(f.module, c.func.value)
                    if tgt is not None:
                        continue   # a repo object named random
                    ok = c.func.attr in ("Random", "SystemRandom")
                    rep.check(ok, "R18.1", f.qualname, "module-level random call: " + norm(c)[:60], fn_where(f, c), "%s uses the random module only to construct a generator" % f.name,
                              "%s calls `%s` on the module-level generator: the draw is not taken from the rng argument, so the simulator is not a function of its arguments and the generator state" % (f.qualname, norm(c)[:60]))

    # ---- (c) forwarding
    with rep.section("(c) forwarding"):
        nsites = 0
        for f in fns:
            if not has_rng(f):
                continue
            for c in calls_in(f.node, nested=True):
                grade, cands = index.resolve_call(c, f)
                callee = None
                if grade in ("self", "static"):
                    cs = [x for x in cands if hasattr(x, "all_params")]
                    if cs and cs[0].qualname in rng_takers:
                        callee = cs[0]
                    elif cands and hasattr(cands[0], "methods"):
                        init = index.find_method(cands[0], "__init__")
                        if init is not None and init.qualname in rng_takers:
                            callee = init
                elif grade == "name" and call_name(c) in RNG_TREE_METHODS:
                    callee = index.function(TREE + "." + call_name(c))
                if callee is None:
                    continue
                nsites += 1
                v = get_kwarg(c, "rng")
                if v is None:
                    params = [p for p in callee.params if p not in ("self", "cls")] if callee.cls is not None else list(callee.params)
                    if "rng" in params:
                        i = params.index("rng")
                        if i < len(c.args) and not any(isinstance(a, ast.Starred) for a in c.args):
                            v = c.args[i]
                ok = v is not None and norm(v) in (rng_var(f), "self.rng", "self._rng")
                own_kwargs = any(k.arg is None and isinstance(k.value, ast.Name) and k.value.id == f.kwarg for k in c.keywords) if f.kwarg else False
                if v is None:
                    # rng placed into a dictionary that is then unpacked into the call: D.setdefault("rng", rng) / D["rng"] = rng before the call
                    for k in c.keywords:
                        if k.arg is None and isinstance(k.value, ast.Name):
                            dn = k.value.id
                            cfg_ = cfg_of(f)
                            cn_ = node_of_ast(cfg_, c)
                            def puts(x, dn=dn):
                                for cc in node_calls(x):
                                    if isinstance(cc.func, ast.Attribute) and cc.func.attr == "setdefault" and norm(cc.func.value) == dn and len(cc.args) == 2 and const_value(cc.args[0]) == "rng" and norm(cc.args[1]) == rng_var(f):
                                        return True
                                return x.kind == "stmt" and isinstance(x.ast, ast.Assign) and norm(x.ast.targets[0]) in ("%s['rng']" % dn, '%s["rng"]' % dn) and norm(x.ast.value) == rng_var(f)
                            if cn_ is not None and cfg_.dominated_by(cn_, puts, follow_exc=False):
                                ok = True
                if v is None and own_kwargs:
                    # **kwargs forwards rng only if it is still in kwargs (not popped)
                    popped = any(isinstance(x.func, ast.Attribute) and norm(x.func.value) == "kwargs" and x.func.attr == "pop" and x.args and const_value(x.args[0]) == "rng" for x in calls_in(f.node))
                    ok = not popped
                rep.check(ok, "R18.1", f.qualname, "call %s(...) without the caller's rng" % norm(c.func)[:50], fn_where(f, c), "%s passes its rng to %s" % (f.name, callee.name),
                          "%s calls %s, which draws random numbers, without passing its own `rng` (%s): that draw silently comes from GLOBAL_RNG, so two runs from equal generator states return different trees"
                          % (f.qualname, callee.qualname, "rng=%s" % norm(v) if v is not None else "no rng argument"))
        rep.floor("R18.1", "call sites of rng-taking functions inside rng-taking simulators", 15, nsites)

    # ---- R18.2
    with rep.section("R18.2"):
        nset = 0
        for f in fns:
            setvars = set()
            for n in walk_no_nested(f.node):
                if isinstance(n, ast.Assign) and isinstance(n.targets[0], ast.Name):
                    v = n.value
                    if isinstance(v, (ast.Set, ast.SetComp)) or (isinstance(v, ast.Call) and call_name(v) in ("set", "frozenset") and isinstance(v.func, ast.Name)):
                        setvars.add(n.targets[0].id)
            for sv in sorted(setvars):
                nset += 1
                uses = []
                for n in walk_no_nested(f.node):
                    if isinstance(n, (ast.For, ast.comprehension)) and isinstance(n.iter, ast.Name) and n.iter.id == sv:
                        uses.append(n)
                    elif isinstance(n, ast.Call) and call_name(n) in ("list", "tuple", "sample", "choice", "shuffle", "pop") and n.args and isinstance(n.args[0], ast.Name) and n.args[0].id == sv:
                        uses.append(n)
                    elif isinstance(n, ast.Call) and call_name(n) == "pop" and isinstance(n.func, ast.Attribute) and norm(n.func.value) == sv:
                        uses.append(n)
                # sets of strings / labels are order-safe only if never iterated; membership tests are fine
                rep.check(not uses, "R18.2", f.qualname, "set `%s` iterated: %s" % (sv, norm(uses[0])[:60] if uses else ""), fn_where(f, uses[0] if uses else None),
                          "%s: set `%s` is used for membership tests only" % (f.name, sv),
                          "%s iterates over / samples from the set `%s` (`%s`): node and taxon hashes are address based, so the order differs between processes and the simulated tree is not reproducible from the generator state" % (f.qualname, sv, norm(uses[0])[:60] if uses else ""))
        if nset == 0:
            rep.ob("R18.2", "src/dendropy/model", "no set-typed locals in the simulators", True)

    with rep.section("R18.2 sets of taxa from the data model"):
        # attributes that hold dict-of-set values anywhere in the data model (TaxonNamespaceMapping.reverse): iterating one of
        # their values in a simulator visits taxa in address order
        dos = {}
        for f_ in index.functions.values():
            if not f_.module.name.startswith("dendropy.datamodel"):
                continue
            for a in walk_no_nested(f_.node):
                if isinstance(a, ast.Assign) and isinstance(a.targets[0], ast.Subscript) and isinstance(a.targets[0].value, ast.Attribute) and norm(a.targets[0].value.value) == "self":
                    v = a.value
                    if isinstance(v, (ast.Set, ast.SetComp)) or (isinstance(v, ast.Call) and isinstance(v.func, ast.Name) and v.func.id in ("set", "frozenset")):
                        dos[a.targets[0].value.attr] = f_
        rep.note("dict-of-set attributes in the data model: %s" % sorted(dos))
        nfor = 0
        for f in fns:
            holders = {}
            for a in walk_no_nested(f.node):
                if isinstance(a, ast.Assign) and isinstance(a.targets[0], ast.Name) and isinstance(a.value, ast.Attribute) and a.value.attr in dos:
                    holders[a.targets[0].id] = a.value.attr
            setvals = {}
            for a in walk_no_nested(f.node):
                if isinstance(a, ast.Assign) and isinstance(a.targets[0], ast.Name) and isinstance(a.value, ast.Subscript):
                    b = a.value.value
                    if (isinstance(b, ast.Name) and b.id in holders) or (isinstance(b, ast.Attribute) and b.attr in dos):
                        setvals[a.targets[0].id] = holders.get(b.id) if isinstance(b, ast.Name) else b.attr
            for lp in ast.walk(f.node):
                its = [lp.iter] if isinstance(lp, ast.For) else ([g.iter for g in lp.generators] if isinstance(lp, (ast.ListComp, ast.GeneratorExp, ast.SetComp, ast.DictComp)) else [])
                for it in its:
                    attr = None
                    if isinstance(it, ast.Name) and it.id in setvals:
                        # closest preceding binding of the name (assignment or loop target) decides what is iterated here
                        binds = []
                        for b in ast.walk(f.node):
                            if isinstance(b, ast.Assign) and any(isinstance(t, ast.Name) and t.id == it.id for t in b.targets) and b.lineno <= it.lineno:
                                binds.append((b.lineno, b))
                            elif isinstance(b, ast.For) and any(isinstance(t, ast.Name) and t.id == it.id for t in ast.walk(b.target)) and b.lineno < it.lineno:
                                binds.append((b.lineno, b))
                        last = max(binds, key=lambda x: x[0])[1] if binds else None
                        if isinstance(last, ast.Assign) and isinstance(last.value, ast.Subscript):
                            attr = setvals[it.id]
                    elif isinstance(it, ast.Subscript) and ((isinstance(it.value, ast.Name) and it.value.id in holders) or (isinstance(it.value, ast.Attribute) and it.value.attr in dos)):
                        attr = holders.get(it.value.id) if isinstance(it.value, ast.Name) else it.value.attr
                    if attr is None:
                        continue
                    nfor += 1
                    rep.check(False, "R18.2", f.qualname, "iteration over a set of taxa taken from `.%s`: %s" % (attr, norm(it)[:50]), fn_where(f, it), "",
                              "%s iterates over `%s`, a value of the dict-of-sets `.%s` (filled in %s): Taxon objects hash by address, so the order in which the gene nodes are created - and with it which gene label ends up on which tip for a given generator state - differs from one process to the next: two runs from equal generator states do not return identical trees" % (f.qualname, norm(it)[:60], attr, dos[attr].qualname))
        rep.ob("R18.2", "src/dendropy/model", "dict-of-set attributes of the data model %s: %d unordered iterations over their values in the simulators" % (sorted(dos), nfor), nfor == 0)
    with rep.section("R18.2 module state"):
        module_state_rule(index, rep, "R18.2", SIM_MODULES)
    with rep.section("R18.3"):
        _distinct_labels_rule(index, rep)
    with rep.section("R18.4"):
        _containment_rule(index, rep)
    with rep.section("R18.5"):
        _stretch_rule(index, rep)
    with rep.section("R18.6"):
        _input_purity_rule(index, rep)
    with rep.section("R18.7"):
        rep.rule("R18.7", "zero is a number: periods, lengths, rates and counts in the simulators are tested against None, never by truthiness (a species branch of length 0 is a limit of 0, not 'no limit')")
        rep.floor("R18.7", "numeric names in the simulators", 30, numeric_truthiness_rule(index, rep, "R18.7", SIM_MODULES[:3], exempt={
            "dendropy.model.coalescent.discrete_time_to_coalescence:pop_size": "documented: a population size of 0 or None both mean 'time in population units'"}))

    # ---- R18.8 required labels resolve to their own taxa
    with rep.section("R18.8"):
        rep.rule("R18.8", "the simulators obtain tip taxa through require_taxon on the supplied namespace: label lookup folds consistently and follows relabelling (C10 R10.9), and the accession index that orders gene sets is unique per member (C10 R10.2, R10.3)")
        rep.floor("R18.8", "borrowed obligations", 8, borrow(index, rep, "C10", {"R10.9", "R10.2", "R10.3"}, "R18.8"))

    # ---- R18.9 a restart starts from a copy of the saved initial state
    with rep.section("R18.9"):
        rep.rule("R18.9", "a restart starts from a COPY of the saved initial state: in the simulators a working list that is changed in place (append / remove / pop) is never rebound to a saved snapshot itself, only to list(snapshot) - otherwise the first restart edits the snapshot and the second restart resumes from a corrupted state")
        nre = 0
        for m in SIM_MODULES[:3]:
            for f in index.functions_in_module(m):
                snaps = {}
                for a in walk_no_nested(f.node):
                    if isinstance(a, ast.Assign) and len(a.targets) == 1 and isinstance(a.targets[0], ast.Name) and isinstance(a.value, ast.Call) and isinstance(a.value.func, ast.Name) and a.value.func.id in ("list", "set", "dict") and a.value.args and isinstance(a.value.args[0], ast.Name):
                        snaps.setdefault(a.targets[0].id, []).append(a)
                snaps = {k: v for k, v in snaps.items() if len(v) == 1 and not any(w.kind == "mutcall" and w.base is None and w.attr == k for w in writes_in(f.node))}
                if not snaps:
                    continue
                mutated = {c.func.value.id for c in calls_in(f.node) if isinstance(c.func, ast.Attribute) and c.func.attr in MUTATORS and isinstance(c.func.value, ast.Name)}
                for a in walk_no_nested(f.node):
                    if isinstance(a, ast.Assign) and len(a.targets) == 1 and isinstance(a.targets[0], ast.Name) and a.targets[0].id in mutated:
                        v = a.value
                        if isinstance(v, ast.Call) and isinstance(v.func, ast.Name) and v.func.id in ("list", "set", "dict") and v.args and isinstance(v.args[0], ast.Name) and v.args[0].id in snaps and a is not snaps[v.args[0].id][0]:
                            nre += 1
                            rep.ob("R18.9", fn_where(f, a), "%s: `%s` restarts from a copy" % (f.name, norm_stmt(a)[:60]), True)
                        elif isinstance(v, ast.Name) and v.id in snaps and v.id != a.targets[0].id:
                            nre += 1
                            rep.check(False, "R18.9", f.qualname, "working list rebound to the snapshot itself: %s" % norm_stmt(a)[:50], fn_where(f, a), "",
                                      "%s rebinds `%s`, which it changes in place, to the saved snapshot `%s` itself (`%s`): from then on appending to / removing from the working list edits the snapshot, so a second restart in the same call resumes with tips that belong to the abandoned attempt and the final pruning fails (or the tree carries lineages it should not)" % (f.qualname, a.targets[0].id, v.id, norm_stmt(a)[:60]))
        rep.floor("R18.9", "restarts from a saved snapshot in the simulators", 2, nre)

    # ---- R18.10 a chooser always chooses
    with rep.section("R18.10"):
        rep.rule("R18.10", "a chooser always chooses: every function of the probability module that returns a value returns one on every normal path - none can fall off the end (floating-point rounding in `rnd -= w` can leave the running remainder non-negative after the last weight, for generator outputs just below 1)")
        nch = 0
        for f in index.functions_in_module("dendropy.calculate.probability"):
            rets = [r for r in walk_no_nested(f.node) if isinstance(r, ast.Return) and r.value is not None and not is_none(r.value)]
            if not rets or any(isinstance(y, (ast.Yield, ast.YieldFrom)) for y in walk_no_nested(f.node)):
                continue
            nch += 1
            g = cfg_of(f)
            fall = [nd for nd in g.reach([g.entry], follow_exc=False) if any(t is g.exit and lab != "e" for lab, t in nd.succ) and not (nd.kind == "stmt" and isinstance(nd.ast, (ast.Return, ast.Raise)))]
            rep.check(not fall, "R18.10", f.qualname, "can fall off the end and return None", fn_where(f, fall[0].stmt if fall and fall[0].stmt is not None else None), "%s returns a value on every normal path" % f.qualname,
                      "%s returns a value inside its loop but can also leave the loop and fall off the end, returning None: with the running remainder `rnd` reduced weight by weight, rounding can leave it >= 0 after the last weight for a generator output just below 1.0 (a legitimate Random.random() value), and the simulators then index a list with None - birth_death_tree dies with TypeError for that generator state" % f.qualname)
        rep.floor("R18.10", "value-returning functions of the probability module", 5, nch)

    # ---- R18.11 a fresh label is probed the way it is required
    with rep.section("R18.11"):
        rep.rule("R18.11", "a fresh label is probed the way it is required: where a simulator invents labels in a loop and then calls require_taxon(label=...), the test that lets the loop stop asks the namespace itself (has_taxon_label / get_taxon / findall) - require_taxon matches labels by the namespace's own case rule, so a case-sensitive set of labels can pass `T1` while the namespace already holds `t1` and hands that taxon out a second time")
        nprobe = 0
        for m in SIM_MODULES[:3]:
            for f in index.functions_in_module(m):
                for c in calls_in(f.node):
                    if call_name(c) != "require_taxon" or get_kwarg(c, "label") is None or not isinstance(get_kwarg(c, "label"), ast.Name):
                        continue
                    lab = get_kwarg(c, "label").id
                    loops = [w for w in walk_no_nested(f.node) if isinstance(w, ast.While) and any(isinstance(a, ast.Assign) and norm(a.targets[0]) == lab for a in ast.walk(w)) and any(isinstance(b, ast.Break) for b in ast.walk(w))]
                    if not loops:
                        continue
                    nprobe += 1
                    w = loops[-1]
                    tests = [t for t in ast.walk(w) if isinstance(t, ast.If)]
                    asks_ns = any(isinstance(x, ast.Call) and call_name(x) in ("has_taxon_label", "get_taxon", "findall", "has_taxa_labels") and any(isinstance(z, ast.Name) and z.id == lab for z in ast.walk(x)) for t in tests for x in ast.walk(t.test))
                    rep.check(asks_ns, "R18.11", f.qualname, "fresh label probed against a plain set, required through the namespace", fn_where(f, w), "%s probes `%s` through the namespace" % (f.name, lab),
                              "%s invents `%s` until `%s` and then calls require_taxon(label=%s): the probe compares spellings exactly while require_taxon matches by the namespace's case rule (case-insensitive by default), so with a supplied namespace [t1, t2, t3] the label T1 passes the probe, require_taxon returns the existing t1, and that taxon ends up on two leaves - N leaves no longer carry N distinct taxa" % (f.qualname, lab, norm(tests[0].test)[:50] if tests else "?", lab))
        rep.floor("R18.11", "label-inventing loops feeding require_taxon", 2, nprobe)

    # ---- R18.12 the simulators leave the namespace as they found it; rates are real numbers
    with rep.section("R18.12"):
        rep.rule("R18.12", "(a) assigning taxa to the tips never changes the namespace except by adding taxa through its interface: the tree model takes no mutable alias of the namespace's private containers (Tree.randomly_assign_taxa draws from a copy of the taxon list); (b) rates are real numbers: the simulation and probability code contains no floor division - `n // rate` is n / rate only for the rates the tests use (1.0, integers) and 0 or a coarser rate otherwise")
        na = foreign_private_rule(index, rep, "R18.12", ["dendropy.datamodel.treemodel._tree"])
        # ... and asks the namespace only what a namespace can answer (Tree.randomly_assign_taxa is where the simulators get their tip taxa)
        na += called_method_exists_rule(index, rep, "R18.12", ["dendropy.datamodel.treemodel._tree"])
        rt = index.function("dendropy.datamodel.treemodel._tree.Tree.randomly_assign_taxa")
        for w in writes_in(rt.node):
            na += 1
            if w.base is not None and "taxon_namespace" in norm(w.base) and w.kind in ("mutcall", "substore", "subdel", "store", "augstore"):
                rep.check(False, "R18.12", rt.qualname, "the namespace's `%s` is changed in place" % w.attr, fn_where(rt, w.stmt), "",
                          "Tree.randomly_assign_taxa changes `%s.%s` (`%s`): drawing taxa for the tips must not remove them from the namespace" % (norm(w.base), w.attr, norm_stmt(w.stmt)[:60]))
        rep.floor("R18.12", "writes examined in the tree model", 1, na)
        nd = 0
        for m in PROP_MODULES["C18"]:
            for fi in index.functions_in_module(m):
                for x in walk_no_nested(fi.node):
                    op = x.op if isinstance(x, (ast.BinOp, ast.AugAssign)) else None
                    if isinstance(op, (ast.Div, ast.FloorDiv)):
                        nd += 1
                        rep.check(not isinstance(op, ast.FloorDiv), "R18.12", fi.qualname, "floor division `%s`" % (norm(x) if isinstance(x, ast.BinOp) else norm_stmt(x))[:50], fn_where(fi, x), "",
                                  "%s computes `%s` with floor division: rates, times and probabilities are real numbers, and the quotient is silently rounded down - a waiting time drawn with rate floor(n / birth_rate) instead of n / birth_rate has the wrong distribution for every non-integer ratio and divides by zero when the ratio is below one" % (fi.qualname, (norm(x) if isinstance(x, ast.BinOp) else norm_stmt(x))[:60]))
        rep.floor("R18.12", "divisions in the simulation code", 20, nd)

    # ---- R18.13 what a call parks on the caller's tree does not leak into the next call
    with rep.section("R18.13"):
        rep.rule("R18.13", "what a call parks on the caller's tree does not leak into the next call: where a coalescent simulator accumulates into a node attribute that it creates on demand (`if not hasattr(nd, 'a'): nd.a = []` ... `nd.a.extend(...)`, or try-append / except-assign) it first clears that attribute on every node of the working tree - the attribute survives on a decorated species tree (and is deep-copied into the working copy of an undecorated one), so a second call would otherwise start with the lineages of the first and return a tree of a different size for the same generator state")
        n13 = 0
        for fi in [f for f in index.functions_in_module("dendropy.model.coalescent") if f.cls is None] + [f for f in index.functions_in_module("dendropy.simulate.treesim") if f.cls is None]:
            lazy = {}
            for st in walk_no_nested(fi.node):
                if isinstance(st, ast.If):
                    t = st.test
                    neg = isinstance(t, ast.UnaryOp) and isinstance(t.op, ast.Not)
                    c = t.operand if neg else t
                    if isinstance(c, ast.Call) and call_name(c) == "hasattr" and len(c.args) == 2 and isinstance(c.args[1], ast.Constant):
                        a = c.args[1].value
                        body = st.body if neg else st.orelse
                        if any(isinstance(x, ast.Assign) and any(isinstance(tg, ast.Attribute) and tg.attr == a for tg in x.targets) and isinstance(x.value, (ast.List, ast.Dict, ast.Set)) for b in body for x in ast.walk(b)):
                            lazy.setdefault(a, st)
                if isinstance(st, ast.Try):
                    for b in st.body:
                        for x in ast.walk(b):
                            if isinstance(x, ast.Call) and isinstance(x.func, ast.Attribute) and x.func.attr in ("append", "extend", "add") and isinstance(x.func.value, ast.Attribute):
                                a = x.func.value.attr
                                if any(isinstance(y, ast.Assign) and any(isinstance(tg, ast.Attribute) and tg.attr == a for tg in y.targets) for h in st.handlers for y in ast.walk(h)):
                                    lazy.setdefault(a, st)
            for a, st in lazy.items():
                grows = [x for x in ast.walk(fi.node) if isinstance(x, ast.Call) and isinstance(x.func, ast.Attribute) and x.func.attr in ("append", "extend", "add", "update") and isinstance(x.func.value, ast.Attribute) and x.func.value.attr == a]
                if not grows:
                    continue
                n13 += 1
                first = min([st.lineno] + [x.lineno for x in grows])
                clears = []
                for lp in walk_no_nested(fi.node):
                    if isinstance(lp, ast.For) and lp.lineno < first:
                        for x in ast.walk(lp):
                            if isinstance(x, ast.Delete) and any(isinstance(tg, ast.Attribute) and tg.attr == a for tg in x.targets):
                                clears.append(x)
                            elif isinstance(x, ast.Call) and call_name(x) == "delattr" and len(x.args) == 2 and const_value(x.args[1], None) == a:
                                clears.append(x)
                rep.check(bool(clears), "R18.13", fi.qualname, "`%s` accumulated on the nodes without being cleared first" % a, fn_where(fi, st), "%s clears `%s` on the working tree before accumulating into it" % (fi.name, a),
                          "%s creates `<node>.%s` only when it is missing and then appends to it, and never removes what an earlier call left there: on a species tree that was decorated before (or on the working copy, which deep-copies the decoration) the lists already hold the lineages of the previous run, so the second call returns a gene tree with three times the leaves and corrupts the first - for equal generator states the two calls must return identical trees" % (fi.qualname, a))
        rep.floor("R18.13", "node attributes accumulated on demand by the coalescent simulators", 1, n13)

    # ---- R18.14 the default generator can be seeded; R18.15 one set of genes per species
    with rep.section("R18.14"):
        rep.rule("R18.14", "the default generator is one that can be seeded and restored: dendropy.utility.GLOBAL_RNG is an instance of random.Random itself - random.SystemRandom ignores seed() and refuses getstate() / setstate(), so every simulator called without an explicit rng would stop being a function of the generator state")
        um = index.module("dendropy.utility")
        asg = [st for st in um.tree.body if isinstance(st, ast.Assign) and any(isinstance(t, ast.Name) and t.id == "GLOBAL_RNG" for t in st.targets)]
        if len(asg) != 1:
            raise AnalysisError("R18.14: dendropy.utility.GLOBAL_RNG is not assigned exactly once at module level")
        v = asg[0].value
        ok = isinstance(v, ast.Call) and norm(v.func) in ("random.Random", "Random")
        rep.check(ok, "R18.14", "dendropy.utility.GLOBAL_RNG", "GLOBAL_RNG = %s" % norm(v)[:40], "src/dendropy/utility/__init__.py:%d" % asg[0].lineno, "GLOBAL_RNG = random.Random()",
                  "dendropy.utility.GLOBAL_RNG is built with `%s`: only random.Random honours seed() / getstate() / setstate(); with any other generator two runs after the same GLOBAL_RNG.seed(s) differ, and differ from the run given rng=Random(s)" % norm(v)[:50])
    with rep.section("R18.15"):
        rep.rule("R18.15", "one set of genes per species: the containing-taxon mapping that contained_coalescent_tree reads (TaxonNamespaceMapping, in the taxon model) installs no single mutable object under many keys - dict.fromkeys(range, set()) would put every gene into every species, and lineages of different species would coalesce before their species diverged")
        rep.floor("R18.15", "container constructions in the taxon model examined", 0, one_object_many_slots_rule(index, rep, "R18.15", ["dendropy.datamodel.taxonmodel"]))
        tm_ = index.function("dendropy.datamodel.taxonmodel.TaxonNamespaceMapping.apply_mapping_fn")
        revs = [w for w in writes_in(tm_.node) if w.attr == "reverse"]
        rep.check(bool(revs), "R18.15", tm_.qualname, "the reverse mapping is no longer built here", fn_where(tm_), "apply_mapping_fn builds the reverse mapping (%d writes)" % len(revs),
                  "TaxonNamespaceMapping.apply_mapping_fn no longer writes `self.reverse`")

    # ---- R18.16 a population size is any positive number
    with rep.section("R18.16"):
        rep.rule("R18.16", "a population size is any positive number: the coalescent routines scale waiting times by pop_size and never refuse one - no test that leads to a raise compares `pop_size` (or a per-edge `pop_size` read off the tree) by order with a positive constant; haploid sizes below 1 (times in units of generations on a rescaled tree) are as valid as 10000")
        n16 = 0
        for mod in ("dendropy.model.coalescent", "dendropy.simulate.treesim", "dendropy.model.reconcile"):
            if mod not in index.modules:
                continue
            for f in index.functions_in_module(mod):
                g = cfg_of(f)
                for nd in g.nodes:
                    if nd.kind != "test" or not isinstance(nd.ast, ast.Compare) or len(nd.ast.ops) != 1 or not isinstance(nd.ast.ops[0], (ast.Lt, ast.LtE, ast.Gt, ast.GtE)):
                        continue
                    sides = [nd.ast.left, nd.ast.comparators[0]]
                    ps = [s_ for s_ in sides if (isinstance(s_, ast.Name) and "pop_size" in s_.id) or (isinstance(s_, ast.Attribute) and "pop_size" in s_.attr)]
                    cs = [s_ for s_ in sides if isinstance(s_, ast.Constant) and isinstance(s_.value, (int, float)) and not isinstance(s_.value, bool)]
                    if len(ps) != 1 or len(cs) != 1:
                        continue
                    n16 += 1
                    refuses = (raises_in_branch(g, nd, "t") is not None or raises_in_branch(g, nd, "f") is not None) and cs[0].value > 0
                    rep.check(not refuses, "R18.16", f.qualname, "population size refused: " + norm(nd.ast)[:40], fn_where(f, nd.stmt), "%s: `%s` refuses no positive size" % (f.name, norm(nd.ast)[:40]),
                              "%s raises on `%s`: every positive population size is valid input - with this test pure_kingman_tree / contained_coalescent_tree / constrained_kingman_tree return no tree at all for a size between 0 and 1 as soon as two lineages share a population" % (f.qualname, norm(nd.ast)[:50]))
        ttc = index.function("dendropy.model.coalescent.time_to_coalescence")
        rep.ob("R18.16", ttc.qualname, "%d ordering comparisons of a population size with a constant examined" % n16, fn_where(ttc))


def _distinct_labels_rule(index, rep):
    """R18.3: `require_taxon(label=L)` returns an *existing* taxon when the label is taken, so a
    generated label handed to it must have been tested against the labels in use."""
    rep.rule("R18.3", "distinct taxa: in the birth-death simulators a generated label reaches require_taxon() only through the fresh side of a membership test against a set built from the namespace's labels")
    n = 0
    for f in index.functions_in_module("dendropy.model.birthdeath"):
        g = None
        for c in calls_in(f.node):
            if call_name(c) != "require_taxon":
                continue
            lab = get_kwarg(c, "label") or (c.args[0] if c.args else None)
            if lab is None:
                continue
            n += 1
            g = g or cfg_of(f)
            cn = node_of_ast(g, c)
            if not isinstance(lab, ast.Name) or cn is None:
                raise AnalysisError("R18.3: %s: require_taxon label `%s` is not a local name; shape not recognised" % (f.qualname, norm(lab)))
            fresh_edges = set()
            sets = set()
            for nd in g.nodes:
                e = nd.ast if nd.kind == "test" else None
                if isinstance(e, ast.Compare) and len(e.ops) == 1 and isinstance(e.left, ast.Name) and e.left.id == lab.id and isinstance(e.ops[0], (ast.In, ast.NotIn)):
                    fresh_edges.add((nd.id, "t" if isinstance(e.ops[0], ast.NotIn) else "f"))
                    sets.add(norm(e.comparators[0]))
            ok = bool(fresh_edges)
            why = "no membership test on `%s`" % lab.id
            if ok:
                # with the fresh edges blocked the call must be unreachable
                reach = g.reach([g.entry], edge_ok=lambda a, lab, b: (a.id, lab) not in fresh_edges)
                ok = all(x is not cn for x in reach)
                why = "require_taxon(label=%s) is reachable without taking the `%s not in ...` branch" % (lab.id, lab.id)
            if ok:
                # the tested collection is derived from the namespace
                recv = c.func.value if isinstance(c.func, ast.Attribute) else None
                tainted = _derived(f, {recv.id}) if isinstance(recv, ast.Name) else set()
                ok = any(s in tainted for s in sets)
                why = "the tested collection (%s) is not derived from the namespace require_taxon is called on" % ", ".join(sorted(sets))
            if ok:
                # ... and is a snapshot of ALL labels: the collection it is built from has not been consumed before
                for sname in sorted(s_ for s_ in sets if s_ in tainted):
                    for d in g.nodes:
                        if d.kind == "stmt" and isinstance(d.ast, ast.Assign) and norm(d.ast.targets[0]) == sname and not is_none(d.ast.value):
                            srcs = {x.id for x in ast.walk(d.ast.value) if isinstance(x, ast.Name) and x.id in tainted and x.id != (recv.id if isinstance(recv, ast.Name) else None)}
                            for src in sorted(srcs):
                                shrinks = [m for m in g.nodes if any(isinstance(cc.func, ast.Attribute) and cc.func.attr in ("pop", "remove", "clear") and norm(cc.func.value) == src for cc in node_calls(m))]
                                for m in shrinks:
                                    if g.can_reach(m, lambda x, d=d: x is d, follow_exc=False) is not None:
                                        ok = False
                                        why = "the label set `%s` is built from `%s` after `%s` has been consumed by `%s`" % (sname, src, src, norm_stmt(m.stmt)[:40])
            rep.check(ok, "R18.3", f.qualname, "generated label reaches require_taxon unchecked", fn_where(f, c), "%s: generated labels are checked against the labels in use before require_taxon" % f.name,
                      "%s: %s; require_taxon returns the existing Taxon when the label is already in the namespace, so two tips (or a tip and a taxon assigned earlier from the pool) can carry the same taxon: the N extant leaves do not carry N distinct taxa when the supplied namespace already holds labels of the generated form" % (f.qualname, why))
    rep.floor("R18.3", "require_taxon sites in the birth-death simulators", 2, n)


def _derived(f, seeds):
    """names data-dependent on the seed names (flow-insensitive closure over assignments)."""
    t = set(seeds)
    changed = True
    while changed:
        changed = False
        for n in walk_no_nested(f.node):
            if isinstance(n, ast.Assign) and names_in(n.value) & t:
                for tg in n.targets:
                    for nm in ast.walk(tg):
                        if isinstance(nm, ast.Name) and isinstance(nm.ctx, ast.Store) and nm.id not in t:
                            t.add(nm.id)
                            changed = True
    return t


CONTAINED = ["dendropy.model.coalescent.contained_coalescent_tree", "dendropy.model.coalescent.constrained_kingman_tree", "dendropy.model.reconcile.ContainingTree.simulate_contained_kingman"]


def _containment_rule(index, rep):
    """R18.4: gene lineages handed up to the parent population have been through coalesce_nodes for the branch's length."""
    rep.rule("R18.4", "containment: in the contained-coalescent simulators every lineage list pushed up to the tail (parent) population is, on every definition, the result of coalesce_nodes(..., period=<edge>.length)")
    for q in CONTAINED:
        f = index.function(q)
        pushed = []
        for n in walk_no_nested(f.node):
            if isinstance(n, ast.Call) and isinstance(n.func, ast.Attribute) and n.func.attr == "extend" and ".tail_node" in norm(n.func.value) and n.args:
                pushed.append((n, n.args[0]))
            elif isinstance(n, ast.Assign) and ".tail_node" in norm(n.targets[0]) and not isinstance(n.value, (ast.List, ast.ListComp, ast.Constant)):
                pushed.append((n, n.value))
        if not pushed:
            raise AnalysisError("R18.4: %s: no push-up of lineages to the tail node found" % q)
        # at the root of the containing tree the remaining lineages coalesce without a time limit (period=None)
        for iff in walk_no_nested(f.node):
            if isinstance(iff, ast.If):
                t_, tb_, fb_ = pos_if(iff)
                cp_ = compare_parts(t_)
                if cp_ and cp_[1] in ("Is", "IsNot") and is_none(cp_[2]) and norm(cp_[0]).endswith("head_node.parent_node"):
                    rootb = tb_ if cp_[1] == "Is" else fb_
                    for c in [c for st in rootb for c in ast.walk(st) if isinstance(c, ast.Call) and call_name(c) == "coalesce_nodes"]:
                        pk = get_kwarg(c, "period")
                        rep.check(pk is not None and is_none(pk), "R18.4", q, "root lineages coalesced with period=%s" % (norm(pk) if pk is not None else None), fn_where(f, c), "%s: at the root, coalesce_nodes runs with period=None" % f.name,
                                  "%s coalesces the lineages that reach the ROOT of the containing tree with period=%s: the process is cut off at the root edge's length, the lineages that have not met by then are dropped and the gene tree lacks leaves (one leaf per gene taxon is no longer guaranteed)" % (q, norm(pk) if pk is not None else None))
        for site, x in pushed:
            if not isinstance(x, ast.Name):
                rep.check(False, "R18.4", q, "push-up of non-local value: " + norm(x)[:50], fn_where(f, site), "", "%s hands `%s` up to the parent population without it being the result of coalesce_nodes for this branch" % (q, norm(x)[:50]))
                continue
            defs = [n for n in walk_no_nested(f.node) if isinstance(n, ast.Assign) and any(isinstance(t, ast.Name) and t.id == x.id for t in n.targets)]
            bad = []
            for d in defs:
                v = d.value
                period = get_kwarg(v, "period") if isinstance(v, ast.Call) and call_name(v) == "coalesce_nodes" else None
                if period is None or not norm(period).endswith(".length"):
                    bad.append(d)
            ok = bool(defs) and not bad
            rep.check(ok, "R18.4", q, "pushed-up lineages not from coalesce_nodes over the branch: " + (norm_stmt(bad[0])[:60] if bad else "no definition"), fn_where(f, bad[0] if bad else site),
                      "%s: lineages pushed to the parent population come from coalesce_nodes(period=edge.length)" % f.name,
                      "%s: the lineages handed up to the parent population can come from `%s` instead of coalesce_nodes(..., period=<edge>.length): those lineages' edges are not extended by the branch duration, so the gene tree is no longer ultrametric and lineages of different species can join more recently than the species diverged" % (q, norm_stmt(bad[0])[:80] if bad else "nothing"))


def _stretch_rule(index, rep):
    """R18.5: coalesce_nodes stretches EVERY lineage by the waiting time, also a fresh one whose edge has no length yet."""
    rep.rule("R18.5", "coalesce_nodes adds each waiting time to the edge of every remaining lineage, whether or not that edge already has a length (a fresh gene node has none): the stretch loops are evaluated for both cases")
    from . import c08
    f = index.function("dendropy.model.coalescent.coalesce_nodes")
    n = 0
    for lp in ast.walk(f.node):
        if not (isinstance(lp, ast.For) and isinstance(lp.target, ast.Name)):
            continue
        tgt = lp.target.id + ".edge.length"
        writes = [a for a in ast.walk(lp) if isinstance(a, (ast.Assign, ast.AugAssign)) and norm(a.targets[0] if isinstance(a, ast.Assign) else a.target) == tgt]
        if not writes:
            continue
        addends = set()
        for a in writes:
            for nm in ast.walk(a.value):
                if isinstance(nm, ast.Name) and nm.id != lp.target.id:
                    addends.add(nm.id)
        if len(addends) != 1:
            continue
        n += 1
        add = addends.pop()
        try:
            table = c08.length_update_table(lp.body, tgt, add)
        except c08._Unknown:
            raise AnalysisError("R18.5: the stretch loop `for %s in %s` of coalesce_nodes is not decidable" % (lp.target.id, norm(lp.iter)))
        want = {False: "C+R", True: "R"}
        bad = {k: v for k, v in table.items() if v != want[k]}
        rep.check(not bad, "R18.5", f.qualname, "stretch of `%s` by `%s`: %s" % (tgt, add, table), fn_where(f, lp), "coalesce_nodes: every lineage is stretched by `%s` (edge with a length -> C+R, without -> R)" % add,
                  "coalesce_nodes stretches the lineages by `%s` wrongly when the edge %s: it ends up as %s instead of %s. A fresh gene lineage (no length yet) then loses the first waiting time, so lineages of different species can join more recently than the species diverged and the gene tree is not ultrametric"
                  % (add, "has no length yet" if True in bad else "already has a length", bad, {k: want[k] for k in bad}))
    rep.floor("R18.5", "stretch loops in coalesce_nodes", 1, n)


def _input_purity_rule(index, rep):
    """R18.6: a simulator leaves the trees it is given as it found them (unless decoration of the input was asked for):
    otherwise a second call on the same species tree starts from what the first one left behind."""
    rep.rule("R18.6", "simulators do not write to the trees they are given: no attribute store / mutator call on the containing (population / species) tree argument or on nodes and edges reached from it, except under an explicit decorate_* option")
    n = 0
    for q in ("dendropy.model.coalescent.constrained_kingman_tree", "dendropy.model.coalescent.contained_coalescent_tree"):
        f = index.function(q)
        trees = [p_ for p_ in f.params if p_.endswith("_tree") and p_ not in ("gene_tree",)]
        if not trees:
            raise AnalysisError("R18.6: %s has no tree parameter" % q)
        pm = parent_map(f.node)

        def under_decorate(node):
            cur = node
            while cur is not None and cur is not f.node:
                par = pm.get(cur)
                if isinstance(par, ast.If):
                    t_, tb_, fb_ = pos_if(par)
                    if isinstance(t_, ast.Name) and t_.id.startswith("decorate") and any(cur is x for x in tb_):
                        return True
                cur = par
            return False
        # names that may denote (a part of) the input tree when no decoration was requested
        tainted = set(trees)
        changed = True
        while changed:
            changed = False
            for a in walk_no_nested(f.node):
                tg = val = None
                if isinstance(a, ast.Assign) and not under_decorate(a):
                    tg, val = a.targets, a.value
                elif isinstance(a, ast.For):
                    tg, val = [a.target], a.iter
                if tg is None:
                    continue
                if isinstance(val, ast.Call) and isinstance(val.func, (ast.Name, ast.Attribute)) and (call_name(val) in ("Tree", "Node", "list", "dict", "set") and not (call_name(val) == "list")):
                    continue        # a constructor / copy yields a new object
                if isinstance(val, ast.Call) and norm(val.func) in ("dendropy.Tree", "copy.deepcopy"):
                    continue
                if names_in(val) & tainted:
                    for t in tg:
                        for nm in ast.walk(t):
                            if isinstance(nm, ast.Name) and isinstance(nm.ctx, ast.Store) and nm.id not in tainted:
                                tainted.add(nm.id)
                                changed = True
        bad = []
        for w in writes_in(f.node):
            root = w.base
            while isinstance(root, (ast.Attribute, ast.Subscript)):
                root = root.value
            if isinstance(root, ast.Name) and root.id in tainted and not under_decorate(w.stmt):
                bad.append(w)
        n += 1
        rep.check(not bad, "R18.6", f.qualname, "input tree written: %s" % (norm_stmt(bad[0].stmt)[:60] if bad else ""), fn_where(f, bad[0].stmt if bad else None),
                  "%s does not write to %s (names reaching it without decoration: %s)" % (f.name, "/".join(trees), sorted(tainted)),
                  "%s stores to the tree it was given (`%s`) although decoration of the input was not requested: the attribute stays on the caller's tree, so a second simulation on the same species tree starts from the first one's leftovers (e.g. gene nodes accumulate and the gene tree gets 8, 12, ... leaves for 4 taxa)" % (f.qualname, norm_stmt(bad[0].stmt)[:70] if bad else ""))
    rep.floor("R18.6", "simulators taking a containing tree", 2, n)
    # parameter dictionaries handed to rand_trees stay the caller's: they are copied before the rng is put into them
    rt = index.function("dendropy.simulate.treesim.rand_trees")
    tainted = {p_ for p_ in rt.params if "kwargs" in p_}
    changed = True
    while changed:
        changed = False
        for a in walk_no_nested(rt.node):
            tg = val = None
            if isinstance(a, ast.Assign):
                tg, val = a.targets, a.value
            elif isinstance(a, ast.For):
                tg, val = [a.target], a.iter
            if tg is None or (isinstance(val, ast.Call) and isinstance(val.func, ast.Name) and val.func.id in ("dict", "list", "set") ) or (isinstance(val, ast.Call) and norm(val.func) in ("copy.copy", "copy.deepcopy")) or isinstance(val, ast.Dict):
                continue
            if isinstance(val, ast.Call):
                continue        # the result of calling a user function is the function's to hand out
            if names_in(val) & tainted:
                for t in tg:
                    for nm in ast.walk(t):
                        if isinstance(nm, ast.Name) and isinstance(nm.ctx, ast.Store) and nm.id not in tainted:
                            tainted.add(nm.id)
                            changed = True
    cfg = cfg_of(rt)
    for x in cfg.nodes:
        for c in node_calls(x):
            if isinstance(c.func, ast.Attribute) and c.func.attr in MUTATORS | {"setdefault"} and isinstance(c.func.value, ast.Name) and c.func.value.id in tainted:
                # is the name still the caller's object here?  (a `name = dict(name)` before this point makes it a private copy)
                copies = [d for d in cfg.nodes if d.kind == "stmt" and isinstance(d.ast, ast.Assign) and norm(d.ast.targets[0]) == c.func.value.id and isinstance(d.ast.value, ast.Call)
                          and isinstance(d.ast.value.func, ast.Name) and d.ast.value.func.id in ("dict", "list")]
                ids = {d.id for d in copies}
                private = bool(copies) and cfg.dominated_by(x, lambda y: y.id in ids, follow_exc=False)
                rep.check(private, "R18.6", rt.qualname, "caller's parameter dictionary mutated: %s" % norm(c)[:50], fn_where(rt, c), "rand_trees puts the rng into a private copy of the parameter dictionary",
                          "rand_trees calls `%s` on a dictionary that is still the caller's own: the generator of this call stays in the caller's dictionary, so a second call with the same parameter dictionaries silently reuses the first call's already-advanced generator and equal generator states no longer give equal trees" % norm(c)[:60])
