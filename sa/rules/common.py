"""Helpers shared by the per-property rule modules."""
import ast
import re
import os

from ..index import (AnalysisError, norm, norm_stmt, walk_no_nested, calls_in, parent_map, enclosing_stmt,
                     call_name, attr_chain, names_in, get_kwarg, const_value)
from ..cfg import CFG, node_calls, node_exprs
from ..effects import writes_in, Write, LENGTH_CHANGING, MUTATORS, local_aliases, attr_reads
from ..core import fn_where

_CFG_CACHE = {}


def cfg_of(fi, expand_bool=True):
    k = (id(fi.node), expand_bool)
    c = _CFG_CACHE.get(k)
    if c is None:
        c = CFG(fi.node, expand_bool=expand_bool)
        _CFG_CACHE[k] = c
    return c


def is_self_attr(expr, attr=None, owner="self"):
    return (isinstance(expr, ast.Attribute) and isinstance(expr.value, ast.Name)
            and expr.value.id == owner and (attr is None or expr.attr == attr))


def node_of_ast(cfg, target):
    """CFG node whose evaluated expression contains AST node `target`."""
    for n in cfg.nodes:
        for e in node_exprs(n):
            for sub in ast.walk(e):
                if sub is target:
                    return n
        if n.kind == "forinit" and n.ast is not None:
            for sub in ast.walk(n.ast):
                if sub is target:
                    return n
    return None


def stmt_nodes(cfg, stmt):
    return [n for n in cfg.nodes if n.stmt is stmt]


def node_contains(n, pred):
    """Does any AST node evaluated at CFG node n satisfy pred?"""
    exprs = list(node_exprs(n))
    if n.kind == "forinit" and n.ast is not None:
        exprs = [n.ast]
    for e in exprs:
        for sub in walk_no_nested(e):
            if pred(sub):
                return True
    return False


def is_none(expr):
    return isinstance(expr, ast.Constant) and expr.value is None


def compare_parts(test):
    """For a single-op Compare return (left, op class name, right) else None."""
    if isinstance(test, ast.Compare) and len(test.ops) == 1:
        return test.left, type(test.ops[0]).__name__, test.comparators[0]
    return None


def pos_if(iff):
    """(test, body taken when test is true, body taken when it is false) with a leading `not` folded away:
    `if not A: X else: Y` is reported as (A, Y, X)."""
    t, tb, fb = iff.test, iff.body, iff.orelse
    while isinstance(t, ast.UnaryOp) and isinstance(t.op, ast.Not):
        t, tb, fb = t.operand, fb, tb
    return t, tb, fb


class Undecidable(AnalysisError):
    """a decision fragment contains something the evaluator cannot decide: the rule refuses to answer"""


class Decision(object):
    """Evaluate a small decision fragment (if/elif/else chains that assign or return constants) under given
    facts - independent of how the chain is written (negations, branch order, elif vs nested if).
    facts:  text -> truth value of a boolean atom;   values: text -> concrete value of an expression."""

    def __init__(self, facts=None, values=None):
        self.facts = dict(facts or {})
        self.values = dict(values or {})
        self.env = {}
        self.exprs = {}         # target text -> last non-constant value expression assigned
        self.augs = []          # (target text, value expr) of augmented assignments executed
        self.result = None      # ('return', v) | ('raise', text) | None
        self.trace = []         # (if statement, branch taken) in execution order

    def test(self, t):
        if isinstance(t, ast.UnaryOp) and isinstance(t.op, ast.Not):
            return not self.test(t.operand)
        if isinstance(t, ast.BoolOp):
            if isinstance(t.op, ast.And):
                return all(self.test(v) for v in t.values)
            return any(self.test(v) for v in t.values)
        txt = norm(t)
        if txt in self.facts:
            return self.facts[txt]
        if txt in self.values and not isinstance(t, ast.Compare):
            return bool(self.values[txt])
        if isinstance(t, ast.Name) and t.id in getattr(self, "inline", {}):
            return self.test(self.inline[t.id])
        if isinstance(t, ast.Compare) and len(t.ops) == 1:
            l, op, r = t.left, t.ops[0], t.comparators[0]
            lt = norm(l)
            if lt in self.values:
                lv = self.values[lt]
                if isinstance(r, ast.Constant):
                    rv = r.value
                    if isinstance(op, ast.Eq):
                        return lv == rv
                    if isinstance(op, ast.NotEq):
                        return lv != rv
                    if isinstance(op, ast.Is):
                        return lv is rv
                    if isinstance(op, ast.IsNot):
                        return lv is not rv
                    if isinstance(op, (ast.Lt, ast.LtE, ast.Gt, ast.GtE)) and isinstance(lv, (int, float)) and isinstance(rv, (int, float)):
                        return {ast.Lt: lv < rv, ast.LtE: lv <= rv, ast.Gt: lv > rv, ast.GtE: lv >= rv}[type(op)]
                    if isinstance(op, (ast.Lt, ast.LtE, ast.Gt, ast.GtE)):
                        raise Undecidable(txt)
                if isinstance(r, (ast.Tuple, ast.List, ast.Set)) and all(isinstance(e, ast.Constant) for e in r.elts):
                    vals = [e.value for e in r.elts]
                    if isinstance(op, ast.In):
                        return lv in vals
                    if isinstance(op, ast.NotIn):
                        return lv not in vals
        if isinstance(t, ast.Constant):
            return bool(t.value)
        raise Undecidable(txt)

    def run(self, stmts):
        for st in stmts:
            if self.result is not None:
                return
            if isinstance(st, ast.If):
                try:
                    taken = self.test(st.test)
                except Undecidable:
                    # a test on something the decision does not depend on (no tracked name in it, and nothing tracked
                    # assigned or tested under it) is not part of the decision: stepped over in lenient mode
                    tracked = set(self.values) | set(self.facts)
                    inner = {norm(x) for x in ast.walk(st) if isinstance(x, (ast.Name, ast.Attribute))}
                    if getattr(self, "lenient", False) and not (tracked & inner):
                        continue
                    raise
                self.trace.append((st, taken))
                self.run(st.body if taken else st.orelse)
            elif isinstance(st, ast.Assign) and len(st.targets) == 1 and isinstance(st.value, ast.Constant):
                self.env[norm(st.targets[0])] = st.value.value
            elif isinstance(st, ast.Assign) and len(st.targets) == 1 and (norm(st.value) in self.values or norm(st.value) in self.facts) and norm(st.targets[0]) in self.values:
                # a tracked variable takes the value of another tracked expression
                self.values[norm(st.targets[0])] = self.values[norm(st.value)] if norm(st.value) in self.values else self.facts[norm(st.value)]
            elif isinstance(st, ast.Assign) and len(st.targets) == 1:
                self.exprs[norm(st.targets[0])] = st.value
                self.env.pop(norm(st.targets[0]), None)
            elif isinstance(st, ast.AugAssign):
                self.augs.append((norm(st.target), st.value))
            elif isinstance(st, ast.Return):
                if st.value is None or isinstance(st.value, ast.Constant):
                    self.result = ("return", None if st.value is None else st.value.value)
                else:
                    self.result = ("return-expr", norm(st.value))
            elif isinstance(st, ast.Raise):
                self.result = ("raise", norm(st.exc)[:40] if st.exc is not None else "")
            elif isinstance(st, (ast.Pass, ast.Assert)) or (isinstance(st, ast.Expr) and isinstance(st.value, ast.Constant)):
                continue
            elif getattr(self, "lenient", False):
                # statements that do not take part in the decision (calls, loops, break/continue) are stepped over
                if isinstance(st, (ast.Break, ast.Continue)):
                    self.result = ("jump", type(st).__name__)
                continue
            else:
                raise Undecidable(norm_stmt(st)[:60])


def _numeric_names(fi):
    """names of the function used as numbers: ordered comparison, arithmetic, slice bound, stored as / passed for a length"""
    out = set()
    for n in walk_no_nested(fi.node):
        if isinstance(n, ast.Compare) and any(isinstance(o, (ast.Lt, ast.LtE, ast.Gt, ast.GtE)) for o in n.ops):
            for e in [n.left] + n.comparators:
                if isinstance(e, ast.Name):
                    out.add(e.id)
        elif isinstance(n, ast.BinOp) and isinstance(n.op, (ast.Add, ast.Sub, ast.Mult, ast.Div)):
            if any(isinstance(e, ast.JoinedStr) or (isinstance(e, ast.Constant) and isinstance(e.value, (str, bytes))) or isinstance(e, (ast.List, ast.Tuple)) for e in (n.left, n.right)):
                continue        # string / sequence concatenation, not arithmetic
            for e in (n.left, n.right):
                if isinstance(e, ast.Name):
                    out.add(e.id)
        elif isinstance(n, ast.Slice):
            for e in (n.lower, n.upper):
                if isinstance(e, ast.Name):
                    out.add(e.id)
        elif isinstance(n, ast.Assign) and isinstance(n.targets[0], ast.Attribute) and n.targets[0].attr in ("length", "edge_length") and isinstance(n.value, ast.Name):
            out.add(n.value.id)
        elif isinstance(n, ast.keyword) and n.arg in ("edge_length", "length", "period", "tree_offset", "collection_offset") and isinstance(n.value, ast.Name):
            out.add(n.value.id)
    return out


def numeric_truthiness_rule(index, rep, rid, modules, exempt=None):
    """A value that is used as a number (a length, an offset, a period, a count) and may legitimately be 0 is
    tested against None, never by truthiness: `if x:` / `not x` treats 0 like 'not given'."""
    exempt = exempt or {}
    n = 0
    for m in modules:
        for fi in index.functions_in_module(m):
            nn = _numeric_names(fi)
            if not nn:
                continue
            cfg = None
            for x in nn:
                pass
            cfg = cfg_of(fi)
            for t in cfg.nodes:
                if t.kind == "test" and isinstance(t.ast, ast.Name) and t.ast.id in nn:
                    key = "%s:%s" % (fi.qualname, t.ast.id)
                    n += 1
                    if key in exempt:
                        rep.ob(rid, fn_where(fi, t.stmt), "%s: truthiness of `%s` - exempt: %s" % (fi.name, t.ast.id, exempt[key]), True, nontrivial=False)
                        continue
                    rep.check(False, rid, fi.qualname, "numeric value `%s` tested by truthiness" % t.ast.id, fn_where(fi, t.stmt), "",
                              "%s tests `%s` by truthiness (`%s`) although it uses it as a number: a value of 0 (a zero-length branch or period, offset 0, a zero edge length) is then handled as if nothing had been given" % (fi.qualname, t.ast.id, norm_stmt(t.stmt)[:60]))
            n += len(nn)
    # an expression (a table cell `d[a][b]`, an attribute) that the same function compares with a number by order
    # is a number too: its bare truthiness in a test confuses 0 with 'missing'
    for m in modules:
        for fi in index.functions_in_module(m):
            ordered = set()
            for c in ast.walk(fi.node):
                if isinstance(c, ast.Compare) and len(c.ops) == 1 and isinstance(c.ops[0], (ast.Lt, ast.LtE, ast.Gt, ast.GtE)):
                    for a_, b_ in ((c.left, c.comparators[0]), (c.comparators[0], c.left)):
                        if isinstance(a_, (ast.Subscript, ast.Attribute)) and isinstance(b_, ast.Constant) and isinstance(b_.value, (int, float)) and not isinstance(b_.value, bool):
                            ordered.add(norm(a_))
            if not ordered:
                continue
            cfg = cfg_of(fi)
            for t in cfg.nodes:
                if t.kind == "test" and isinstance(t.ast, (ast.Subscript, ast.Attribute)) and norm(t.ast) in ordered:
                    n += 1
                    rep.check(False, rid, fi.qualname, "numeric value `%s` tested by truthiness" % norm(t.ast)[:40], fn_where(fi, t.stmt), "",
                              "%s tests `%s` by truthiness (`%s`) and compares the same expression with a number: it is a number, and a value of exactly 0 - a zero distance between two distinct tips joined by zero-length branches, a zero count - is handled as if it were missing" % (fi.qualname, norm(t.ast)[:50], norm_stmt(t.stmt)[:70]))
    return n


NUMERIC_ATTRS = {"age": "a node age", "length": "an edge length", "edge_length": "an edge length", "root_distance": "a distance from the root", "weight": "a tree weight"}
_SAME_FALSY = (0, 0.0, "", None, False)


def _in_test_position(fi, node):
    """is `node` (a BoolOp) evaluated only for its truth value?"""
    par = parent_map(fi.node)
    cur = node
    while True:
        p_ = par.get(cur)
        if p_ is None:
            return False
        if isinstance(p_, (ast.If, ast.While, ast.IfExp, ast.Assert)) and p_.test is cur:
            return True
        if isinstance(p_, ast.comprehension) and cur in p_.ifs:
            return True
        if isinstance(p_, ast.UnaryOp) and isinstance(p_.op, ast.Not):
            return True
        if isinstance(p_, ast.BoolOp):
            cur = p_
            continue
        return False


def zero_is_a_value_rule(index, rep, rid, modules, exempt=None):
    """0 / 0.0 / False are values, not 'nothing given': (a) a name used as a number is not tested by truthiness;
    (b) an attribute that holds a number of the data model (age, length, weight ...) is not tested by truthiness;
    (c) `x or <default>` used as a value does not replace a number or a tri-state option that was given as 0 / False."""
    n = numeric_truthiness_rule(index, rep, rid, modules, exempt=exempt)
    for m in modules:
        for fi in index.functions_in_module(m):
            g = cfg_of(fi)
            for t in g.nodes:
                if t.kind == "test" and isinstance(t.ast, ast.Attribute) and t.ast.attr in NUMERIC_ATTRS:
                    n += 1
                    rep.check(False, rid, fi.qualname, "`%s` tested by truthiness" % _canon_names(norm(t.ast), fi), fn_where(fi, t.stmt), "",
                              "%s tests `%s` (%s) by truthiness in `%s`: a value of exactly 0 - a root age of 0.0, a zero-length branch, a weight of 0 - is handled as if it were missing" % (fi.qualname, norm(t.ast), NUMERIC_ATTRS[t.ast.attr], norm_stmt(t.stmt)[:60]))
            nn = None
            defaults = None
            for b in walk_no_nested(fi.node):
                if not (isinstance(b, ast.BoolOp) and isinstance(b.op, ast.Or) and len(b.values) == 2):
                    continue
                x, d = b.values
                # `kwargs.pop("length", None) or None`: the option carries a number of the data model, and `or None`
                # turns a given 0 / 0.0 into 'not given'
                if isinstance(x, ast.Call) and call_name(x) in ("pop", "get") and x.args and isinstance(x.args[0], ast.Constant) and x.args[0].value in NUMERIC_ATTRS and is_none(d) and not _in_test_position(fi, b):
                    n += 1
                    rep.check(False, rid, fi.qualname, "`%s` turns a given 0 into None" % _canon_names(norm(b), fi), fn_where(fi, b), "",
                              "%s computes `%s`: the option is %s, and `or None` replaces an explicit 0 / 0.0 by None - an edge created with length 0 (the new root placed AT one end of an edge, reroot_at_edge(e, length1=0, length2=x)) has no length at all, the total tree length is no longer defined and a following reroot_at_midpoint() fails with TypeError" % (fi.qualname, norm(b)[:60], NUMERIC_ATTRS[x.args[0].value]))
                    continue
                if not isinstance(x, (ast.Name, ast.Attribute, ast.Subscript)):
                    continue
                # `node.edge.length = (a.length or 0) + (b.length or 0)`: an ABSENT length written back as a length of 0
                if isinstance(x, ast.Attribute) and x.attr in NUMERIC_ATTRS and isinstance(d, ast.Constant) and d.value in (0, 0.0) and not isinstance(d.value, bool):
                    pm_n = parent_map(fi.node)
                    cur_n = b
                    while cur_n in pm_n and not isinstance(cur_n, ast.stmt):
                        cur_n = pm_n[cur_n]
                    tg_n = cur_n.targets[0] if isinstance(cur_n, ast.Assign) and len(cur_n.targets) == 1 else (cur_n.target if isinstance(cur_n, ast.AugAssign) else None)
                    if isinstance(tg_n, ast.Attribute) and tg_n.attr in NUMERIC_ATTRS:
                        n += 1
                        rep.check(False, rid, fi.qualname, "`%s` stored as %s" % (_canon_names(norm(b), fi), NUMERIC_ATTRS[tg_n.attr]), fn_where(fi, b), "",
                                  "%s writes `%s` into `%s`: where %s is absent (None) the stored value becomes 0 - a tree read without branch lengths comes out of the operation with lengths of 0 on the merged edges (`:0` in its Newick), so a copy or an extraction no longer has the lengths of its source" % (fi.qualname, norm(b)[:50], norm(tg_n)[:40], NUMERIC_ATTRS[x.attr]))
                        continue
                if isinstance(d, ast.Constant) and any(d.value is v or (type(d.value) is type(v) and d.value == v) for v in _SAME_FALSY):
                    continue        # a falsy value is replaced by the same kind of 'nothing'
                if isinstance(d, (ast.List, ast.Tuple, ast.Dict, ast.Set)) and not (getattr(d, "elts", None) or getattr(d, "keys", None)):
                    continue
                if _in_test_position(fi, b):
                    continue
                n += 1
                if nn is None:
                    nn = _numeric_names(fi)
                    a_ = fi.node.args
                    pos = a_.posonlyargs + a_.args
                    defaults = dict(zip([p_.arg for p_ in pos][len(pos) - len(a_.defaults):], a_.defaults))
                    defaults.update({k.arg: v for k, v in zip(a_.kwonlyargs, a_.kw_defaults) if v is not None})
                numeric = (isinstance(d, ast.Constant) and isinstance(d.value, (int, float)) and not isinstance(d.value, bool)) or (isinstance(x, ast.Name) and x.id in nn) or (isinstance(x, ast.Attribute) and x.attr in NUMERIC_ATTRS)
                tri = isinstance(x, ast.Name) and x.id in defaults and is_none(defaults[x.id]) and isinstance(d, ast.Attribute) and d.attr.lstrip("_") == x.id.lstrip("_")
                if isinstance(x, ast.Subscript) and not numeric and not (isinstance(x.value, ast.Name) and x.value.id in ("kwargs", "kwds", "environ")) \
                        and not (isinstance(d, ast.Constant) and isinstance(d.value, str)):     # `names[i] or "unnamed"`: the elements are text
                    rep.check(False, rid, fi.qualname, "`%s` replaces a stored 0" % _canon_names(norm(b), fi), fn_where(fi, b), "",
                              "%s computes `%s`: the left side is an element read out of a container, and `or` replaces every falsy element - a stored 0 / 0.0 (a zero distance, the zero diagonal of a distance table, a zero count) is written or passed on as the 'missing' value instead" % (fi.qualname, norm(b)[:70]))
                xl = x.id if isinstance(x, ast.Name) else (x.attr.lstrip("_") if isinstance(x, ast.Attribute) else None)
                sized = (not numeric and not tri) and xl in _sized_object_names(index)
                if sized:
                    rep.check(False, rid, fi.qualname, "`%s` replaces a given empty %s" % (_canon_names(norm(b), fi), xl), fn_where(fi, b), "",
                              "%s computes `%s`: a %s defines __len__ and no __bool__, so one that is still EMPTY is falsy - the object the caller handed in (an empty namespace meant to be filled and shared across reads, an empty list to collect into) is silently replaced by the alternative, and what is built is attached to another object than the one the caller keeps" % (fi.qualname, norm(b)[:70], _sized_object_names(index)[xl]))
                if numeric or tri:
                    rep.check(False, rid, fi.qualname, "`%s` replaces a given %s" % (_canon_names(norm(b), fi), "0" if numeric else "False"), fn_where(fi, b), "",
                              "%s computes `%s`: %s" % (fi.qualname, norm(b)[:70],
                                                       "a value of 0 (a weight of 0 that switches a column off, a zero length or offset) is silently replaced by the default" if numeric else
                                                       "the option defaults to None meaning 'use the object's setting', so an explicit False is indistinguishable from None here and the object's setting wins over what the caller asked for"))
            # (d) an empty container is a value too: a caller's container that the function goes on to fill or hand on
            #     (a memo, an out-parameter) is replaced by a fresh one only when it is None
            for st in walk_no_nested(fi.node):
                pn = fresh = None
                if isinstance(st, ast.If) and not st.orelse and len(st.body) == 1 and isinstance(st.body[0], ast.Assign) and len(st.body[0].targets) == 1 \
                        and isinstance(st.body[0].targets[0], ast.Name) and isinstance(st.test, ast.UnaryOp) and isinstance(st.test.op, ast.Not) \
                        and isinstance(st.test.operand, ast.Name) and st.test.operand.id == st.body[0].targets[0].id:
                    pn, fresh = st.test.operand.id, st.body[0].value
                elif isinstance(st, ast.Assign) and len(st.targets) == 1 and isinstance(st.targets[0], ast.Name) and isinstance(st.value, ast.BoolOp) and isinstance(st.value.op, ast.Or) \
                        and len(st.value.values) == 2 and isinstance(st.value.values[0], ast.Name) and st.value.values[0].id == st.targets[0].id:
                    pn, fresh = st.targets[0].id, st.value.values[1]
                if pn is None or pn not in fi.all_params:
                    continue
                if not (isinstance(fresh, (ast.Dict, ast.List, ast.Set)) or (isinstance(fresh, ast.Call) and call_name(fresh) in ("dict", "list", "set", "OrderedDict", "defaultdict"))):
                    continue
                filled = False
                for x in walk_no_nested(fi.node):
                    if isinstance(x, ast.Subscript) and isinstance(x.ctx, (ast.Store, ast.Del)) and isinstance(x.value, ast.Name) and x.value.id == pn:
                        filled = True
                    elif isinstance(x, ast.Call):
                        if isinstance(x.func, ast.Attribute) and isinstance(x.func.value, ast.Name) and x.func.value.id == pn and x.func.attr in MUTATORS:
                            filled = True
                        if any(isinstance(a, ast.Name) and a.id == pn for a in list(x.args) + [k.value for k in x.keywords]):
                            filled = True
                n += 1
                rep.check(not filled, rid, fi.qualname, "`%s` replaced when empty" % pn, fn_where(fi, st), "",
                          "%s replaces its parameter `%s` by a fresh container whenever it is empty (`%s`) and then fills it or hands it on: a caller that passes in an empty dict/list to collect the result (a mapping memo, an out-parameter) gets nothing back, because the function worked on a container of its own" % (fi.qualname, pn, norm_stmt(st)[:60]))
            # (e) a comprehension keeps or drops ELEMENTS by their bare truthiness only when the elements are pieces of
            #     text (what split() produced): over values of the data model, 0 / 0.0 / False are elements too
            for comp in ast.walk(fi.node):
                if not isinstance(comp, (ast.ListComp, ast.GeneratorExp, ast.SetComp, ast.DictComp)):
                    continue
                for gen in comp.generators:
                    if not isinstance(gen.target, ast.Name):
                        continue
                    for cond in gen.ifs:
                        tst = cond.operand if isinstance(cond, ast.UnaryOp) and isinstance(cond.op, ast.Not) else cond
                        if not (isinstance(tst, ast.Name) and tst.id == gen.target.id):
                            continue
                        n += 1
                        rep.check(_yields_text(gen.iter, fi), rid, fi.qualname, "elements of `%s` filtered by truthiness" % norm(gen.iter)[:50], fn_where(fi, comp), "%s filters pieces of text by emptiness" % fi.qualname,
                                  "%s filters the elements of `%s` by their bare truthiness (`%s`): the elements are not known to be pieces of text, and among values of the data model 0, 0.0 and False are values - a continuous character of exactly 0.0, a zero weight, a state of index 0 - which this drops as if they were unassigned" % (fi.qualname, norm(gen.iter)[:50], norm(comp)[:80]))
    return n


_TEXT_SPLITTERS = ("split", "rsplit", "splitlines", "readlines", "findall", "strip")


def _yields_text(e, fi, depth=0):
    """True when the iterable is visibly a sequence of strings: the result of a split, or a local built from one."""
    if isinstance(e, ast.Call):
        cn = call_name(e)
        if cn in _TEXT_SPLITTERS:
            return True
        if cn in ("list", "tuple", "sorted", "reversed", "set") and e.args:
            return _yields_text(e.args[0], fi, depth)
        return False
    if isinstance(e, (ast.ListComp, ast.GeneratorExp, ast.SetComp)):
        if isinstance(e.elt, ast.Call) and call_name(e.elt) in ("strip", "lstrip", "rstrip", "lower", "upper", "str", "format", "join"):
            return True
        return len(e.generators) == 1 and isinstance(e.elt, ast.Name) and isinstance(e.generators[0].target, ast.Name) and e.elt.id == e.generators[0].target.id and _yields_text(e.generators[0].iter, fi, depth)
    if isinstance(e, ast.Name) and depth < 2:
        # definitions above the use (a later re-binding of the name does not feed it, outside a loop)
        in_loop = any(isinstance(l, (ast.For, ast.While)) and any(x is e for x in ast.walk(l)) for l in ast.walk(fi.node))
        defs = [a.value for a in ast.walk(fi.node) if isinstance(a, ast.Assign) and any(isinstance(t, ast.Name) and t.id == e.id for t in a.targets) and (in_loop or a.lineno <= e.lineno)]
        # `x = [e for e in x if e]` only filters what x was
        defs = [d for d in defs if not (isinstance(d, (ast.ListComp, ast.GeneratorExp, ast.SetComp)) and len(d.generators) == 1 and isinstance(d.generators[0].iter, ast.Name) and d.generators[0].iter.id == e.id
                                        and isinstance(d.elt, ast.Name) and isinstance(d.generators[0].target, ast.Name) and d.elt.id == d.generators[0].target.id)]
        return bool(defs) and all(_yields_text(d, fi, depth + 1) for d in defs)
    return False


def _canon_names(text, fi):
    return text


_SIZED_CACHE = {}


def _sized_object_names(index):
    """snake_case names of the library's classes that define __len__ and no __bool__ (an empty instance is falsy),
    mapped to the class: the names parameters and attributes holding such objects go by."""
    key = id(index)
    if key not in _SIZED_CACHE:
        out = {}
        for q, k in index.classes.items():
            ms = set()
            for c in index.mro(k):
                ms |= set(c.methods)
            if "__len__" in ms and "__bool__" not in ms and "__nonzero__" not in ms and not k.name.startswith("_"):
                out[re.sub(r"(?<!^)(?=[A-Z])", "_", k.name).lower()] = k.name
        for alias, of in (("char_matrix", "character_matrix"), ("taxon_set", "taxon_namespace"), ("tns", "taxon_namespace")):
            if of in out:
                out.setdefault(alias, out[of])
        _SIZED_CACHE[key] = out
    return _SIZED_CACHE[key]


def arg_wiring_rule(index, rep, rid, modules):
    """An argument that carries the name of one of the callee's parameters goes into THAT parameter: a name passed
    positionally into a slot with a different name, or `a=b` where b names another parameter of the callee, is
    cross-wired unless the callee's own `b` receives `b` as well."""
    n = 0
    for m in modules:
        for f in index.functions_in_module(m):
            for c in calls_in(f.node, nested=True):
                grade, cands = index.resolve_call(c, f)
                cs = [x for x in cands if hasattr(x, "all_params")]
                if not cs or not (grade in ("self", "static") or (grade == "name" and len(cs) == 1)):
                    continue
                callee = cs[0]
                params = list(callee.params)
                explicit_self = bool(params) and params[0] in ("self", "cls") and c.args and isinstance(c.args[0], ast.Name) and c.args[0].id in ("self", "cls") \
                    and isinstance(c.func, ast.Attribute) and norm(c.func.value).split(".")[-1][:1].isupper()
                if params and params[0] in ("self", "cls") and not explicit_self:
                    params = params[1:]
                allp = set(callee.all_params) - {"self", "cls"}
                if any(isinstance(a, ast.Starred) for a in c.args):
                    continue
                given = {}
                for i, a in enumerate(c.args):
                    if i < len(params):
                        given[params[i]] = a
                for k in c.keywords:
                    if k.arg:
                        given[k.arg] = k.value
                n += 1
                for slot, a in sorted(given.items()):
                    if isinstance(a, ast.Name) and a.id != slot and a.id in allp and slot in allp and a.id not in ("self", "cls"):
                        own = given.get(a.id)
                        if own is not None and isinstance(own, ast.Name) and own.id == a.id:
                            continue        # the callee's own parameter of that name gets it too: deliberate
                        rep.check(False, rid, f.qualname, "argument `%s` passed for parameter `%s` of %s" % (a.id, slot, callee.name), fn_where(f, c), "",
                                  "%s passes `%s` for the parameter `%s` of %s (`%s`), while %s has a parameter called `%s` that %s: the two arguments are cross-wired, so each option takes effect where the other was meant"
                                  % (f.qualname, a.id, slot, callee.qualname, norm(c)[:80], callee.name, a.id, "receives `%s`" % norm(own)[:30] if own is not None else "is left at its default"))
    return n


def option_handed_down_rule(index, rep, rid, modules):
    """An option that both an object and a component it builds take under the same name is handed down: a method that
    receives `opt` and constructs a repository class whose constructor also has a parameter `opt` passes it (otherwise
    the component runs on its own default whatever the caller asked for)."""
    n = 0
    by_name = {}
    for k in index.classes.values():
        by_name.setdefault(k.name, []).append(k)
    for m in modules:
        for f in index.functions_in_module(m):
            if f.cls is None:
                continue
            own = [p_ for p_ in f.params if p_ != "self"]
            if not own:
                continue
            for c in calls_in(f.node):
                ks = by_name.get(call_name(c), [])
                if len(ks) != 1 or (isinstance(c.func, ast.Attribute) and norm(c.func.value) == "self"):
                    continue
                init = None
                for b in index.mro(ks[0]):
                    if "__init__" in b.methods:
                        init = b.methods["__init__"]
                        break
                if init is None or any(kw.arg is None for kw in c.keywords) or any(isinstance(a, ast.Starred) for a in c.args):
                    continue
                kp = [p_ for p_ in init.params if p_ != "self"]
                given = {kw.arg for kw in c.keywords} | set(kp[:len(c.args)])
                shared = [p_ for p_ in own if p_ in kp]
                if not shared:
                    continue
                n += 1
                miss = [p_ for p_ in shared if p_ not in given]
                rep.check(not miss, rid, f.qualname, "option %s not handed down to %s" % (miss, ks[0].name), fn_where(f, c), "%s hands %s down to %s" % (f.qualname, shared, ks[0].name),
                          "%s takes %s and builds a %s, whose constructor has the same parameter(s), without passing %s on: the component keeps its own default (use_tree_weights=True, say), so what the caller asked of the owner is stored on the owner and silently ignored where the work is done" % (f.qualname, miss, ks[0].name, miss))
    return n


# (caller, callee, option) triples where an own method that has the option is called without it ON PURPOSE - each one read and confirmed
OPTION_NOT_FORWARDED_OK = {
    ("Tree.reseed_at", "suppress_unifurcations", "update_bipartitions"): "the caller re-encodes once, after all restructuring",
    ("Tree.to_outgroup_position", "suppress_unifurcations", "update_bipartitions"): "the caller re-encodes once, after all restructuring",
    ("Tree.prune_subtree", "suppress_unifurcations", "update_bipartitions"): "the caller re-encodes once, after all restructuring",
    ("Tree.filter_leaf_nodes", "suppress_unifurcations", "update_bipartitions"): "the caller re-encodes once, after all restructuring",
    ("Tree.prune_leaves_without_taxa", "suppress_unifurcations", "update_bipartitions"): "the caller re-encodes once, after all restructuring",
    ("Tree.prune_nodes", "suppress_unifurcations", "update_bipartitions"): "the caller re-encodes once, after all restructuring",
    ("Tree.filter_leaf_nodes", "leaf_node_iter", "filter_fn"): "the predicate decides what to REMOVE; the walk visits every leaf",
    ("Node.ageorder_iter", "preorder_iter", "filter_fn"): "the filter is applied after sorting by age",
    ("Bipartition.compile_split_bitmask", "compile_leafset_bitmask", "tree_leafset_bitmask"): "the tree leaf set was compiled by the statement before",
    ("TreeProfile.__init__", "compile", "tree_phylogenetic_distance_matrix"): "compile() builds the matrices it is not given",
    ("TreeProfile.__init__", "compile", "tree_node_distance_matrix"): "compile() builds the matrices it is not given",
    ("CharacterDataSequence.set_at", "append", "character_type"): "padding cells carry no type or annotations",
    ("CharacterDataSequence.set_at", "append", "character_annotations"): "padding cells carry no type or annotations",
    ("Tree.resolve_node_ages", "resolve_node_depths", "node_callback_fn"): "the callback is applied to the ages afterwards",
    ("FragmentedPopulations.generate_sequences", "generate_pop_tree", "samples_per_pop"): "the population tree is built with the object's own setting",
    ("FragmentedPopulations.generate_gene_tree", "generate_pop_tree", "samples_per_pop"): "the population tree is built with the object's own setting",
}


def option_handed_on_rule(index, rep, rid, modules):
    """An option is handed on to one's own: a method (or classmethod) that has the parameter `opt` and calls another
    method of its own object - or builds an object of its own class through cls(...) / self.__class__(...) - whose
    signature has `opt` too, passes it. 294 of the 308 such calls in the repository do; the 14 that do not were read one
    by one and are listed, with the reason, in OPTION_NOT_FORWARDED_OK."""
    n = 0
    for m in modules:
        for f in index.functions_in_module(m):
            if f.cls is None:
                continue
            own = [p_ for p_ in f.params if p_ not in ("self", "cls")]
            if not own:
                continue
            for c in calls_in(f.node):
                if any(kw.arg is None for kw in c.keywords) or any(isinstance(a, ast.Starred) for a in c.args):
                    continue
                k = None
                if (isinstance(c.func, ast.Name) and c.func.id == "cls") or norm(c.func) in ("self.__class__", "type(self)"):
                    for b in index.mro(f.cls):
                        if "__init__" in b.methods:
                            k = b.methods["__init__"]
                            break
                elif isinstance(c.func, ast.Attribute) and norm(c.func.value) in ("self", "cls"):
                    grade, cands = index.resolve_call(c, f)
                    cs = [x for x in cands if hasattr(x, "node") and isinstance(x.node, ast.FunctionDef)]
                    if grade == "self" and len(cs) == 1:
                        k = cs[0]
                if k is None or k is f:
                    continue
                kp = [p_ for p_ in k.params if p_ not in ("self", "cls")]
                given = {kw.arg for kw in c.keywords} | set(kp[:len(c.args)])
                shared = [p_ for p_ in own if p_ in kp]
                if not shared:
                    continue
                n += 1
                who = "%s.%s" % (f.cls.name, f.name)
                miss = [p_ for p_ in shared if p_ not in given and (who, k.name if k.name != "__init__" else "__init__", p_) not in OPTION_NOT_FORWARDED_OK]
                rep.check(not miss, rid, f.qualname, "option %s not handed on to %s" % (miss, call_name(c) or norm(c.func)), fn_where(f, c), "",
                          "%s has the parameter(s) %s and calls `%s`, whose signature has the same parameter(s), without passing %s on: the callee runs on its own default whatever the caller was asked for (a per-call case-sensitivity override, a use_tree_weights=False, a descending=True is silently ignored) - every other call of this kind in the repository hands the option on" % (f.qualname, shared, norm(c)[:60], miss))
    return n


# parameters that are not read on today's tree: each one looked at - interface slots, documented-but-unimplemented options, or the
# subject of an open finding elsewhere (Edge.invert / unify_taxon_namespaces). A NEW unread parameter is what the rule reports.
UNREAD_PARAMETERS_TODAY = {
    ("application.sumtrees._read_into_tree_array", "error_message_func"): "reserved slot, never used",
    ("application.sumtrees.print_citation", "args"): "uniform command signature",
    ("calculate.phylogeneticdistance.PhylogeneticDistanceMatrix._calculate_standardized_effect_size", "null_model_type"): "only one null model is implemented",
    ("dataio.nexmlreader.NexmlReader._parse_tree_list", "add_to_tree_list"): "reserved slot",
    ("dataio.nexmlwriter._to_nexml_chartype", "chartype"): "stub returning a constant",
    ("dataio.nexmlwriter.NexmlWriter._write_edge", "is_root"): "the root edge is recognised by its missing tail node",
    ("dataio.nexusreader.NexusReader._parse_charset_statement", "block_title"): "uniform statement-parser signature",
    ("dataio.phylipreader.PhylipReader._parse_sequential", "line_num_start"): "reserved slot",
    ("dataio.phylipreader.PhylipReader._parse_interleaved", "line_num_start"): "reserved slot",
    ("datamodel.basemodel.Annotation.__init__", "label"): "accepted for interface compatibility",
    ("datamodel.charmatrixmodel.DiscreteCharacterMatrix.taxon_state_sets_map", "gap_state"): "documented, not implemented",
    ("datamodel.charmatrixmodel.DiscreteCharacterMatrix.taxon_state_sets_map", "no_data_state"): "documented, not implemented",
    ("datamodel.datasetmodel.DataSet.unify_taxon_namespaces", "case_sensitive_label_mapping"): "open finding R11.4",
    ("datamodel.datasetmodel.DataSet.attached_taxon_set_deprecation_warning", "stacklevel"): "deprecation shim",
    ("datamodel.taxonmodel.TaxonNamespaceMapping.create_contained_taxon_mapping", "contained_taxon_label_prefix"): "documented, not implemented",
    ("datamodel.treecollectionmodel.TreeList.consensus", "is_bipartitions_updated"): "the array route re-encodes every tree it is given",
    ("datamodel.treecollectionmodel.SplitDistribution.split_support_iter", "node_support_attr_name"): "legacy signature",
    ("datamodel.treecollectionmodel.SplitDistribution.split_support_iter", "edge_support_attr_name"): "legacy signature",
    ("datamodel.treemodel._edge.Edge.invert", "update_bipartitions"): "open finding R03.4",
    ("model.birthdeath._p_survival_constant", "massExtinctionTimes"): "constant-rate special case of a general signature",
    ("model.birthdeath._p_survival_constant", "massExtinctionSurvivalProbabilities"): "constant-rate special case of a general signature",
    ("model.coalescent.log_probability_of_coalescent_tree", "ultrametricity_precision"): "documented, not used",
    ("utility.container.NormalizedBitmaskDict.pop", "alt_val"): "dict.pop signature",
}


def parameter_is_read_rule(index, rep, rid, modules):
    """what a function is given, it reads: every parameter of a function with a real body is mentioned in that body -
    a parameter that is no longer read (an option that stopped being handed on, a memo that is dropped) keeps being
    accepted from callers and silently has no effect. Interface slots (`_read` / `_write` / `read_from_*` / `description`,
    the copy protocol's `memo`) and the parameters listed in UNREAD_PARAMETERS_TODAY are exempt."""
    n = 0
    for m in modules:
        for f in index.functions_in_module(m):
            real = [s_ for s_ in f.node.body if not (isinstance(s_, ast.Expr) and isinstance(s_.value, ast.Constant))]
            if not real or all(isinstance(s_, (ast.Pass, ast.Raise)) for s_ in real):
                continue
            if f.name in ("_read", "_write", "description") or f.name.startswith("read_from_"):
                continue
            names = {x.id for x in ast.walk(f.node) if isinstance(x, ast.Name)}
            a = f.node.args
            for p_ in [x.arg for x in a.posonlyargs + a.args + a.kwonlyargs]:
                if p_ in ("self", "cls", "memo"):
                    continue
                n += 1
                if p_ in names or (f.qualname.replace("dendropy.", "", 1), p_) in UNREAD_PARAMETERS_TODAY:
                    continue
                rep.check(False, rid, f.qualname, "parameter `%s` is never read" % p_, fn_where(f), "",
                          "%s takes `%s` and never reads it: callers keep passing the option (a reader setting such as preserve_underscores, a per-call override) and it silently has no effect - whatever the function hands on to its callees runs on their defaults" % (f.qualname, p_))
    return n


def orphaned_local_rule(index, rep, rid, modules):
    """a value prepared for a keyword reaches it: a local that is assigned and never read, while a call in the same
    function passes the keyword of exactly that name from ANOTHER variable (`k=other`), is the value that was meant to
    go there - the callee gets the wrong one of two like-named settings."""
    n = 0
    for m in modules:
        for f in index.functions_in_module(m):
            stores, loads = {}, set()
            for x in ast.walk(f.node):
                if isinstance(x, ast.Name):
                    if isinstance(x.ctx, ast.Store):
                        stores.setdefault(x.id, x)
                    else:
                        loads.add(x.id)
            dead = {k for k in stores if k not in loads and k not in f.all_params and not k.startswith("_")}
            if not dead:
                continue
            for c in calls_in(f.node, nested=True):
                for kw in c.keywords:
                    if kw.arg in dead:
                        n += 1
                        if isinstance(kw.value, ast.Name) and kw.value.id != kw.arg:
                            rep.check(False, rid, f.qualname, "`%s=%s` while the local `%s` is never used" % (kw.arg, kw.value.id, kw.arg), fn_where(f, c), "",
                                      "%s computes the local `%s` and never reads it, while `%s` is called with `%s=%s`: the value prepared for that keyword never reaches it - the callee is driven by the other, like-named setting" % (f.qualname, kw.arg, norm(c.func)[:50], kw.arg, kw.value.id))
    return n


_IO_FRONT_END = ("get_from_", "read_from_", "write_to_", "_parse_and_")
_IO_FRONT_END_EXACT = {"yield_from_files", "get_reader", "get_writer", "get_tree_yielder", "as_string", "_format_and_write_to_stream", "_write_to"}


def base_init_forwarding_rule(index, rep, rid, modules):
    """a constructor option that the base class also has goes to the base class: where a subclass `__init__` calls the
    `__init__` of a base class explicitly, every parameter of its own that the base constructor has under the same name
    is passed in that call (or `*args` / `**kwargs` are). Handling the option afterwards in the subclass instead runs
    after the base constructor has already compiled its state without it (the alphabets build their look-up tables
    there), so what the option was to switch on is never wired in."""
    n = 0
    for m in modules:
        mod = index.module(m)
        for k in [c for c in index.classes.values() if c.module is mod]:
            init = k.methods.get("__init__")
            if init is None:
                continue
            a = init.node.args
            own = [p_.arg for p_ in a.posonlyargs + a.args + a.kwonlyargs if p_.arg != "self"]
            if not own:
                continue
            for c in calls_in(init.node):
                if call_name(c) != "__init__" or not isinstance(c.func, ast.Attribute):
                    continue
                basen = norm(c.func.value)
                binit = None
                for b in index.mro(k):
                    if b.qualname != k.qualname and (b.name == basen.split(".")[-1] or basen.startswith("super")) and "__init__" in b.methods:
                        binit = b.methods["__init__"]
                        break
                if binit is None:
                    continue
                ba = binit.node.args
                bparams = [p_.arg for p_ in ba.posonlyargs + ba.args + ba.kwonlyargs if p_.arg != "self"]
                shared = [p_ for p_ in own if p_ in bparams]
                if not shared:
                    continue
                n += 1
                if any(kw.arg is None for kw in c.keywords) or any(isinstance(x, ast.Starred) for x in c.args):
                    continue
                passed = {kw.arg for kw in c.keywords if kw.arg} | {x.id for x in c.args if isinstance(x, ast.Name)}
                miss = [p_ for p_ in shared if p_ not in passed]
                rep.check(not miss, rid, init.qualname, "option `%s` not handed to the base constructor" % (miss[0] if miss else ""), fn_where(init, c), "%s hands %s to %s" % (init.qualname, shared, binit.qualname),
                          "%s has the parameter(s) %s, which %s also has, and calls it without them (`%s`): the base constructor runs - and compiles what depends on the option - as if it had not been given; wiring the option in afterwards comes too late (a RestrictionSitesStateAlphabet built this way never marks `-` as a gap, and gaps-as-missing scoring counts it as a third state: 10 changes instead of 5)" % (init.qualname, miss, binit.qualname, norm(c)[:70]))
    return n


DOCUMENTED_ORDER_TODAY = {
    "dendropy.datamodel.treemodel._tree.Tree.filter_leaf_nodes": "documentation lists suppress_unifurcations before update_bipartitions, the signature has them the other way round - today's state, every caller in the library passes them by keyword",
}
_DOC_PARAMS_RE = re.compile(r"^\s*Parameters\s*\n\s*-{3,}\s*\n(.*?)(?:\n\s*(?:Returns|Yields|Raises|Notes|Examples?|See Also|Warnings?)\s*\n\s*-{3,}|\Z)", re.S | re.M)


def documented_order_rule(index, rep, rid, modules):
    """positional arguments mean what the documentation says: the parameters a docstring lists in its `Parameters`
    section appear in the signature in the documented order. Re-ordering the signature alone keeps every keyword call
    working (and the test suite green) while a caller who passes the options positionally, as documented, gets them
    swapped - silently so when both are flags or both numbers."""
    n = 0
    for m in modules:
        for f in index.functions_in_module(m):
            if not isinstance(f.node, ast.FunctionDef):
                continue
            doc = ast.get_docstring(f.node)
            if not doc:
                continue
            mm = _DOC_PARAMS_RE.search(doc)
            if not mm:
                continue
            listed = []
            for line in mm.group(1).split("\n"):
                lm = re.match(r"^\s{0,12}(\\?\*{0,2}`{0,2}[A-Za-z_][A-Za-z0-9_]*`{0,2})\s*:", line)
                if lm:
                    nm = lm.group(1).strip("`*\\")
                    if nm not in listed:
                        listed.append(nm)
            a_ = f.node.args
            sig = [p_.arg for p_ in a_.posonlyargs + a_.args if p_.arg not in ("self", "cls")]
            common = [p_ for p_ in listed if p_ in sig]
            if len(common) < 2:
                continue
            n += 1
            sig_order = [p_ for p_ in sig if p_ in common]
            if sig_order == common:
                continue
            why = DOCUMENTED_ORDER_TODAY.get(f.qualname)
            if why:
                rep.ob(rid, fn_where(f), "%s: signature order differs from the documented order - accepted: %s" % (f.name, why), True, nontrivial=False)
                continue
            first = next(i for i, (x, y) in enumerate(zip(sig_order, common)) if x != y)
            rep.check(False, rid, f.qualname, "signature order differs from the documented order", fn_where(f), "",
                      "%s takes its parameters in the order %s while its documentation lists them as %s: keyword calls are unaffected, but a positional call written from the documentation passes `%s` where `%s` is expected - e.g. mean_pairwise_distance(None, False) asks for edge counts and gets the weighted mean" % (f.qualname, sig_order, common, common[first], sig_order[first]))
    return n


def io_kwargs_rule(index, rep, rid, modules):
    """reader / writer options travel with the call: a function that takes `**kwargs` and calls one of the I/O front
    ends (get_from_* / read_from_* / write_to_* / _parse_and_* / yield_from_files / get_reader / get_writer /
    get_tree_yielder / as_string / _format_and_write_to_stream) hands its `**kwargs` on - all 37 such calls in the
    repository do; the schema-specific options (strict, multispace_delimiter, preserve_underscores ...) have no other way
    to reach the reader."""
    n = 0
    for m in modules:
        for f in index.functions_in_module(m):
            k = f.node.args.kwarg
            if k is None:
                continue
            for c in calls_in(f.node):
                nm = call_name(c) or ""
                if not (nm.startswith(_IO_FRONT_END) or nm in _IO_FRONT_END_EXACT):
                    continue
                n += 1
                fw = any(kw.arg is None and any(isinstance(x, ast.Name) for x in ast.walk(kw.value)) for kw in c.keywords)
                rep.check(fw, rid, f.qualname, "`%s` called without the caller's **%s" % (nm, k.arg), fn_where(f, c), "",
                          "%s takes `**%s` and calls `%s` without handing them on: the schema-specific options the caller gave (strict / multispace_delimiter for PHYLIP, preserve_underscores, data_type ...) never reach the reader or writer, so a source in a non-default variant is misread or refused" % (f.qualname, k.arg, norm(c)[:70]))
    return n


def settings_clone_rule(index, rep, rid, modules):
    """A method that builds a new object of its own class from its own settings (two or more constructor arguments taken
    from self) passes ALL the constructor's options: one left out silently falls back to its default in the result."""
    n = 0
    for m in modules:
        for f in index.functions_in_module(m):
            if f.cls is None or f.name == "__init__":
                continue
            init = None
            for b in index.mro(f.cls):
                if "__init__" in b.methods:
                    init = b.methods["__init__"]
                    break
            if init is None:
                continue
            kp = [p_ for p_ in init.params if p_ != "self"]
            for c in calls_in(f.node):
                if norm(c.func) not in (f.cls.name, "self.__class__", "type(self)"):
                    continue
                if any(kw.arg is None for kw in c.keywords) or any(isinstance(a, ast.Starred) for a in c.args):
                    continue
                from_self = [kw for kw in c.keywords if any(isinstance(x, ast.Name) and x.id == "self" for x in ast.walk(kw.value))]
                if len(from_self) < 2:
                    continue
                n += 1
                given = {kw.arg for kw in c.keywords} | set(kp[:len(c.args)])
                miss = [p_ for p_ in kp if p_ not in given]
                rep.check(not miss, rid, f.qualname, "settings %s not carried into the new %s" % (miss, f.cls.name), fn_where(f, c), "%s carries all %d constructor options into the new %s" % (f.qualname, len(kp), f.cls.name),
                          "%s builds a new %s from this object's settings but leaves out %s: the result silently runs on the defaults for those, so `a + b` followed by further additions behaves differently from `a += b` (node ages no longer forced, tip dates forgotten) although the operands were configured alike" % (f.qualname, f.cls.name, miss))
    return n


def same_default_rule(index, rep, rid, modules):
    """An option that four or more methods of one class take under the same name has one default: a single method
    whose default differs from all its siblings' answers the same call differently when the argument is left out."""
    import collections as _c
    n = 0
    for m in modules:
        mod = index.module(m)
        for k in [c for c in index.classes.values() if c.module is mod]:
            table = _c.defaultdict(lambda: _c.defaultdict(list))
            for meth in k.methods.values():
                a = meth.node.args
                pos = a.posonlyargs + a.args
                d = dict(zip([x.arg for x in pos][len(pos) - len(a.defaults):], a.defaults))
                d.update({x.arg: v for x, v in zip(a.kwonlyargs, a.kw_defaults) if v is not None})
                for p_, v in d.items():
                    table[p_][norm(v)].append((meth, v))
            for p_, vals in sorted(table.items()):
                tot = sum(len(v) for v in vals.values())
                if tot < 4:
                    continue
                n += 1
                if len(vals) < 2:
                    continue
                major = max(vals, key=lambda x: len(vals[x]))
                if len(vals[major]) < tot - 1:
                    continue        # no near-unanimous convention to hold the odd one to
                for v, sites in vals.items():
                    if v == major:
                        continue
                    for meth, dv in sites:
                        rep.check(False, rid, meth.qualname, "default %s=%s differs from the %d sibling methods' %s" % (p_, v, len(vals[major]), major), fn_where(meth, dv), "",
                                  "%s defaults `%s` to %s while the %d other methods of %s that take this option default it to %s: the same query gives a different answer through this one method when the argument is left out (a look-up that ignores the namespace's own case setting, a matrix written normalised while every accessor returns raw distances)" % (meth.qualname, p_, v, len(vals[major]), k.name, major))
    return n


def save_restore_rule(rep, rid, fi):
    """`old = X.a; X.a = <new>; ...; X.a = old`: the temporary setting is undone on every normal path from where it was made."""
    cfg = cfg_of(fi)
    n = 0
    saves = {}
    for a in walk_no_nested(fi.node):
        if isinstance(a, ast.Assign) and isinstance(a.targets[0], ast.Name) and isinstance(a.value, ast.Attribute):
            saves.setdefault(a.targets[0].id, (norm(a.value), a))
    for v, (attr, sv) in sorted(saves.items()):
        restores = [x for x in cfg.nodes if x.kind == "stmt" and isinstance(x.ast, ast.Assign) and norm(x.ast.targets[0]) == attr and isinstance(x.ast.value, ast.Name) and x.ast.value.id == v]
        if not restores:
            continue
        sets = [x for x in cfg.nodes if x.kind == "stmt" and isinstance(x.ast, ast.Assign) and norm(x.ast.targets[0]) == attr and x not in restores]
        rid_ = {x.id for x in restores}
        for st in sets:
            n += 1
            ok, w = cfg.must_pass(st, lambda y: y.id in rid_)
            rep.check(ok, rid, fi.qualname, "temporary setting of %s not undone on some path" % attr, fn_where(fi, st.stmt), "%s: `%s` is followed by `%s = %s` on every normal path" % (fi.name, norm_stmt(st.stmt)[:40], attr, v),
                      "%s changes `%s` temporarily (`%s`, old value saved in `%s`) and has a normal exit that does not put the old value back: the object the caller passed in (or the shared tokenizer) keeps the temporary setting, so later operations on it behave differently" % (fi.qualname, attr, norm_stmt(st.stmt)[:50], v))
    return n


def module_state_rule(index, rep, rid, modules):
    """Functions that are to be pure functions of their arguments keep no state between calls: no function of the
    module mutates a module-level mutable container (directly or through a local alias)."""
    n = 0
    for mname in modules:
        mod = index.module(mname)
        globs = {}
        for st in mod.tree.body:
            if isinstance(st, ast.Assign) and len(st.targets) == 1 and isinstance(st.targets[0], ast.Name):
                v = st.value
                if isinstance(v, (ast.List, ast.Dict, ast.Set, ast.ListComp, ast.DictComp)) or (isinstance(v, ast.Call) and isinstance(v.func, ast.Name) and v.func.id in ("list", "dict", "set", "defaultdict", "OrderedDict")) \
                        or (isinstance(v, ast.Call) and isinstance(v.func, ast.Attribute) and v.func.attr in ("defaultdict", "OrderedDict", "deque")):
                    globs[st.targets[0].id] = st
        n += len(globs)
        for g, gst in sorted(globs.items()):
            bad = []
            for f in index.functions_in_module(mname):
                shadowed = g in f.all_params
                if shadowed:
                    continue
                aliases = {g}
                for a in walk_no_nested(f.node):
                    if isinstance(a, ast.Assign) and isinstance(a.targets[0], ast.Name) and isinstance(a.value, ast.Name) and a.value.id in aliases:
                        aliases.add(a.targets[0].id)
                # a local assignment to the global's own name (without `global`) makes it a local
                declared_global = any(isinstance(x, ast.Global) and g in x.names for x in walk_no_nested(f.node))
                local_rebind = any(isinstance(a, ast.Assign) and any(isinstance(t, ast.Name) and t.id == g for t in a.targets) for a in walk_no_nested(f.node)) and not declared_global
                if local_rebind:
                    aliases.discard(g)
                for x in walk_no_nested(f.node):
                    if isinstance(x, ast.Call) and isinstance(x.func, ast.Attribute) and x.func.attr in MUTATORS and isinstance(x.func.value, ast.Name) and x.func.value.id in aliases:
                        bad.append((f, x))
                    elif isinstance(x, (ast.Assign, ast.AugAssign, ast.Delete)):
                        tg = x.targets if isinstance(x, (ast.Assign, ast.Delete)) else [x.target]
                        for t in tg:
                            if isinstance(t, ast.Subscript) and isinstance(t.value, ast.Name) and t.value.id in aliases:
                                bad.append((f, x))
                            if isinstance(x, ast.AugAssign) and isinstance(t, ast.Name) and t.id in aliases and declared_global:
                                bad.append((f, x))
            rep.check(not bad, rid, mname + "." + g, "module-level container `%s` mutated by %s" % (g, bad[0][0].name if bad else ""), "%s:%d" % (mod.relpath, gst.lineno), "module-level `%s` of %s is never mutated by a function" % (g, mname),
                      "%s mutates the module-level container `%s` (`%s`): the function then remembers earlier calls, so its result depends on what was computed before in the same process and not only on its arguments" % (bad[0][0].qualname if bad else "", g, norm(bad[0][1])[:60] if bad else ""))
    return n


def stale_item_value_rule(rep, rid, fi):
    """A local computed from the current item of a loop (its definition mentions the loop variable and is not an
    accumulator) must be recomputed for every item: no use of it inside the loop is reachable from the loop head
    without passing one of its definitions - otherwise the value of the PREVIOUS item is used."""
    cfg = cfg_of(fi)
    n = 0
    for L in walk_no_nested(fi.node):
        if not isinstance(L, ast.For):
            continue
        lvars = {t.id for t in ast.walk(L.target) if isinstance(t, ast.Name)}
        heads = [x for x in cfg.nodes if x.kind == "for" and x.stmt is L]
        if not heads or not lvars:
            continue
        inloop = lambda node: any(node.stmt is st or any(node.stmt is y for y in ast.walk(st)) for st in L.body)
        defs = {}
        for a in ast.walk(L):
            if a is L:
                continue
            if isinstance(a, ast.Assign) and len(a.targets) == 1 and isinstance(a.targets[0], ast.Name) and any(a is y for st in L.body for y in ast.walk(st)):
                defs.setdefault(a.targets[0].id, []).append(a)
        for x, ds in sorted(defs.items()):
            if x in lvars:
                continue
            item_derived = any(names_in(d.value) & lvars for d in ds)
            accumulates = any(x in names_in(d.value) for d in ds) or any(isinstance(g, ast.AugAssign) and norm(g.target) == x for g in ast.walk(L))
            # the loop variable of an inner loop is rebound by that loop
            rebound = any(isinstance(g, ast.For) and g is not L and x in {t.id for t in ast.walk(g.target) if isinstance(t, ast.Name)} for g in ast.walk(L))
            if not item_derived or accumulates or rebound:
                continue
            dnodes = {nd.id for d in ds for nd in stmt_nodes(cfg, d)}
            uses = [u for u in cfg.nodes if inloop(u) and u.id not in dnodes and any(isinstance(y, ast.Name) and y.id == x and isinstance(y.ctx, ast.Load) for e in node_exprs(u) for y in ast.walk(e))]
            # a definition node that also reads x is not a use-before-def
            for u in uses:
                # only where a definition of this iteration CAN reach the use (the current item's value is meant); the
                # `prev = cur` idiom - use first, redefine afterwards - is a deliberate carry-over and not examined
                same_iter = any(cfg.can_reach(dn, lambda y, u=u: y is u, avoid=lambda y: y is heads[0], follow_exc=False) is not None for dn in cfg.nodes if dn.id in dnodes)
                if not same_iter:
                    continue
                n += 1
                stale = cfg.can_reach(heads[0], lambda y, u=u: y is u, avoid=lambda y: y.id in dnodes, follow_exc=False,
                                      edge_ok=lambda s_, l, d_: not (s_ is heads[0] and not inloop(d_)))
                rep.check(stale is None, rid, fi.qualname, "`%s` (derived from the loop item `%s`) can be used before it is recomputed for the current item" % (x, ", ".join(sorted(lvars))), fn_where(fi, u.stmt),
                          "%s: `%s` is recomputed for each `%s` before `%s`" % (fi.name, x, ", ".join(sorted(lvars)), norm_stmt(u.stmt)[:40]),
                          "%s uses `%s` in `%s` on a path of the loop over `%s` that has not (re)computed it for the current item: `%s` is derived from the loop item, so on that path the value of the PREVIOUS item (or the pre-loop value) is used - e.g. a missing edge length takes over the length of the sibling processed before" % (fi.qualname, x, norm_stmt(u.stmt)[:60], norm(L.target), x))
    return n


def unused_params(fi, ignore=("self", "cls")):
    """Parameters never read in the function body (including nested defs)."""
    used = set()
    for n in ast.walk(fi.node):
        if isinstance(n, ast.Name) and isinstance(n.ctx, (ast.Load, ast.Del)):
            used.add(n.id)
    # locals() / vars() use counts as reading everything
    for c in ast.walk(fi.node):
        if isinstance(c, ast.Call) and isinstance(c.func, ast.Name) and c.func.id in ("locals", "vars"):
            return []
    out = []
    for p in fi.all_params:
        if p in ignore or p in used:
            continue
        if p == fi.kwarg or p == fi.vararg:
            continue
        out.append(p)
    return out


def body_is_stub(fi):
    """Function that only raises NotImplementedError / passes / is a docstring."""
    body = [s for s in fi.node.body if not (isinstance(s, ast.Expr) and isinstance(s.value, ast.Constant))]
    if not body:
        return True
    s = body[0]
    if isinstance(s, ast.Pass):
        return len(body) == 1
    if isinstance(s, ast.Raise):
        return True
    return False


def passes_arg(call, callee, param, value_pred):
    """Does `call` pass an argument for `param` of `callee` that satisfies
    value_pred(expr)?  Returns (found, expr)."""
    kw = get_kwarg(call, param)
    if kw is not None:
        return value_pred(kw), kw
    params = list(callee.params)
    if callee.cls is not None and not callee.is_static and params and params[0] in ("self", "cls"):
        # bound call: drop the receiver unless called as Class.method(obj, ...)
        f = call.func
        unbound = False
        if isinstance(f, ast.Attribute) and isinstance(f.value, (ast.Name, ast.Attribute)):
            # heuristic: explicit class receiver => unbound
            pass
        params = params[1:]
    if param in params:
        i = params.index(param)
        if i < len(call.args) and not any(isinstance(a, ast.Starred) for a in call.args[: i + 1]):
            return value_pred(call.args[i]), call.args[i]
    return False, None


def has_star_kwargs(call):
    return any(kw.arg is None for kw in call.keywords)


# ---------------------------------------------------------------------------
# parallel lists (R06.1, R19.4)

def _write_signature(w):
    """(operation, index text) identifying a length-changing operation."""
    if w.kind == "mutcall":
        m = w.method
        if m in ("insert", "pop"):
            idx = norm(w.call.args[0]) if w.call.args else ""
            return (m, idx)
        return (m, "")
    if w.kind == "subdel":
        return ("del", norm(w.node.slice))
    if w.kind == "store":
        # rebinding the list: classify by value shape
        return ("rebind", "")
    if w.kind == "augstore":
        return ("extend", "")
    return None


def parallel_lists_rule(rep, rule, fi, lists, owner="self"):
    """In function fi every length-changing operation on one of `lists`
    (attributes of `owner`) must be matched, on every normal path through it,
    by the same operation on all the others.  Returns number of operations."""
    cfg = cfg_of(fi)
    live = {n.id for n in cfg.live_nodes()}
    ws = []
    for w in writes_in(fi.node):
        if w.attr not in lists:
            continue
        if w.base is None or not (isinstance(w.base, ast.Name) and w.base.id == owner):
            continue
        if w.kind == "mutcall" and w.method not in LENGTH_CHANGING:
            continue
        if w.kind in ("substore",):
            continue
        if w.kind == "store" and fi.name == "__init__":
            continue
        sig = _write_signature(w)
        if sig is None:
            continue
        nodes = [n for n in stmt_nodes(cfg, w.stmt) if n.id in live]
        if not nodes:
            continue  # dead code
        ws.append((w, sig, nodes[0]))
    count = 0
    for w, sig, node in ws:
        count += 1
        for other in lists:
            if other == w.attr:
                continue
            match_nodes = {n2.id for (w2, sig2, n2) in ws if w2.attr == other and sig2 == sig}

            def is_match(n, ids=match_nodes):
                return n.id in ids
            ok_after, wit = cfg.must_pass(node, is_match)
            ok_before = cfg.dominated_by(node, is_match, follow_exc=False) if match_nodes else False
            ok = ok_after or ok_before or node.id in match_nodes
            rep.check(ok, rule, fi.qualname,
                      "%s without matching %s on %s" % (norm_stmt(w.stmt), sig[0], other),
                      fn_where(fi, w.stmt),
                      "%s: %s on %s must be paired with the same on %s" % (fi.qualname, sig[0], w.attr, other),
                      "%s performs '%s' on %s.%s but not on every path also on %s.%s: the parallel lists go out of step"
                      % (fi.qualname, sig[0], owner, w.attr, owner, other))
    return count


# ---------------------------------------------------------------------------
# namespace identity guards (R04.2, R16.2, R19.2)

def is_namespace_identity_test(test):
    """`a.taxon_namespace is not b.taxon_namespace` (either operand order).
    Returns (a_text, b_text) or None."""
    cp = compare_parts(test)
    if cp is None:
        return None
    l, op, r = cp
    if op not in ("IsNot", "NotEq"):
        return None

    def ns_owner(e):
        if isinstance(e, ast.Attribute) and e.attr in ("taxon_namespace", "_taxon_namespace"):
            return norm(e.value)
        if isinstance(e, ast.Name) and "taxon_namespace" in e.id:
            return e.id
        return None
    a, b = ns_owner(l), ns_owner(r)
    if a is None or b is None:
        return None
    return a, b


def raises_in_branch(cfg, test_node, label="t"):
    """Does the branch of test_node with `label` lead unconditionally to a raise
    (no path to the normal exit without passing... ) -- approximated as: the
    first statement node reached is a Raise."""
    for lab, t in test_node.succ:
        if lab != label:
            continue
        cur = t
        seen = 0
        while cur is not None and seen < 5:
            if cur.kind == "stmt" and isinstance(cur.ast, ast.Raise):
                return cur
            if cur.kind == "test":
                # a further conjunct of the same condition, or a directly nested `if`: follow it when one side raises
                for l2 in ("t", "f"):
                    r = raises_in_branch(cfg, cur, l2) if seen < 4 else None
                    if r is not None:
                        return r
                break
            if cur.kind == "stmt" and isinstance(cur.ast, (ast.Assign, ast.Expr)) and len(cur.succ) >= 1:
                nxt = [x for l2, x in cur.succ if l2 == "n"]
                cur = nxt[0] if nxt else None
                seen += 1
                continue
            break
    return None


def find_namespace_guards(cfg):
    """Test nodes that are a namespace identity test whose true branch raises.
    Also accepts `assert a.taxon_namespace is b.taxon_namespace`.
    Returns list of (node, (a,b))."""
    out = []
    for n in cfg.nodes:
        if n.kind != "test":
            continue
        r = is_namespace_identity_test(n.ast)
        if r is not None and raises_in_branch(cfg, n, "t") is not None:
            out.append((n, r))
            continue
        if isinstance(n.stmt, ast.Assert):
            cp = compare_parts(n.ast)
            if cp and cp[1] in ("Is", "Eq"):
                inv = ast.Compare(left=cp[0], ops=[ast.IsNot()], comparators=[cp[2]])
                r = is_namespace_identity_test(inv)
                if r is not None:
                    out.append((n, r))
    return out


# ---------------------------------------------------------------------------
# taint / writes through argument-derived names (R08.2, R19.3, R16.3)

FRESH_BUILTINS = ("iter", "next", "enumerate", "zip", "reversed", "sorted", "list", "tuple", "set")


def tainted_names(fi, seeds, through_calls=True):
    """Names whose value may BE (or be reached from) an object named by the
    seed names.  Flow-insensitive.  A value produced by calling something that
    is not rooted at a tainted name (a constructor, a factory, memo.get) is
    treated as a fresh/untainted object."""
    t = set(seeds)
    changed = True
    while changed:
        changed = False
        for n in walk_no_nested(fi.node):
            tgt, val = None, None
            if isinstance(n, ast.Assign):
                tgt, val = n.targets, n.value
            elif isinstance(n, (ast.For, ast.AsyncFor)):
                tgt, val = [n.target], n.iter
            elif isinstance(n, ast.comprehension):
                tgt, val = [n.target], n.iter
            if tgt is None:
                continue
            if isinstance(val, ast.Call):
                fv = val.func
                while isinstance(fv, (ast.Attribute, ast.Subscript)):
                    fv = fv.value
                rooted = isinstance(fv, ast.Name) and fv.id in t
                if isinstance(val.func, ast.Name) and val.func.id not in FRESH_BUILTINS:
                    continue  # calling a (possibly tainted) callable/factory yields a new object
                if isinstance(val.func, ast.Attribute) and val.func.attr == "__class__":
                    continue  # X.__class__(...) constructs a new object
                if not rooted and call_name(val) not in FRESH_BUILTINS:
                    continue
                if not through_calls and not rooted:
                    continue
            if names_in(val) & t:
                for tt in tgt:
                    for nm in ast.walk(tt):
                        if isinstance(nm, ast.Name) and isinstance(nm.ctx, ast.Store) and nm.id not in t:
                            t.add(nm.id)
                            changed = True
    return t


def _root_name(e):
    while isinstance(e, (ast.Attribute, ast.Subscript)):
        e = e.value
    if isinstance(e, ast.Call):
        return _root_name(e.func)
    return e.id if isinstance(e, ast.Name) else None


def writes_rooted_at(fi, names, extra_mutators=()):
    """AST nodes that store to, delete from, or call a mutator on an object
    reached from one of `names` (x.a = .., x.a[i] = .., del x[i], x.a.append())."""
    out = []
    muts = set(MUTATORS) | set(extra_mutators)
    for n in walk_no_nested(fi.node):
        if isinstance(n, ast.Call) and isinstance(n.func, ast.Attribute) and n.func.attr in muts:
            if _root_name(n.func.value) in names:
                out.append(n)
        elif isinstance(n, ast.Call) and isinstance(n.func, ast.Name) and n.func.id in ("setattr", "delattr") and n.args:
            if _root_name(n.args[0]) in names:
                out.append(n)
        elif isinstance(n, (ast.Attribute, ast.Subscript)) and isinstance(n.ctx, (ast.Store, ast.Del)):
            if _root_name(n.value) in names:
                out.append(n)
    return out


# ------------------------------------------------------------------ rules every property applies to its own modules
_DM = "dendropy.datamodel."
_TMD = _DM + "treemodel."
_IO = "dendropy.dataio."
PROP_MODULES = {
    "C01": [_TMD + "_bipartition", _TMD + "_tree", _DM + "taxonmodel"],
    "C02": [_IO + "newickreader", _IO + "newickwriter", _IO + "nexusreader", _IO + "nexuswriter", _IO + "nexusprocessing", _IO + "nexmlreader", _IO + "nexmlwriter", _IO + "tokenizer", _IO + "nexmlyielder"],
    "C03": [_TMD + "_tree", _TMD + "_node", _TMD + "_edge"],
    "C04": ["dendropy.calculate.treecompare", _TMD + "_tree", _TMD + "_bipartition", _DM + "taxonmodel"],
    "C05": [_DM + "treecollectionmodel", "dendropy.calculate.treesum", "dendropy.calculate.statistics", _TMD + "_edge"],
    "C06": [_DM + "treecollectionmodel", "dendropy.application.sumtrees"],
    "C07": [_TMD + "_tree", _TMD + "_node", _TMD + "_edge", "dendropy.calculate.phylogeneticdistance"],
    "C08": [_TMD + "_tree", _TMD + "_node"],
    "C09": [_IO + "nexusreader", _IO + "nexuswriter", _IO + "nexmlreader", _IO + "nexmlwriter", _IO + "phylipreader", _IO + "phylipwriter", _IO + "fastareader", _IO + "fastawriter", _DM + "charmatrixmodel"],
    "C10": [_DM + "taxonmodel", _IO + "nexusprocessing", "dendropy.utility.container"],
    "C11": [_DM + "taxonmodel", _DM + "treecollectionmodel", _DM + "charmatrixmodel", _DM + "datasetmodel"],
    "C12": [_DM + "basemodel", _DM + "taxonmodel", _TMD + "_tree", _TMD + "_node", _TMD + "_edge", _DM + "treecollectionmodel", _DM + "charmatrixmodel"],
    "C13": [_DM + "basemodel", _IO + "ioservice", _IO + "newickreader", _IO + "newickyielder", _IO + "nexusreader", _IO + "nexusyielder", _DM + "treecollectionmodel", _IO + "nexusprocessing", _IO + "tokenizer", _IO + "nexmlreader", _IO + "nexmlyielder"],
    "C14": ["dendropy.calculate.phylogeneticdistance", "dendropy.calculate.treemeasure", "dendropy.utility.container"],
    "C15": [_TMD + "_tree", _TMD + "_node"],
    "C16": ["dendropy.model.parsimony", _DM + "charstatemodel"],
    "C17": [_TMD + "_tree", "dendropy.calculate.treemeasure"],
    "C18": ["dendropy.model.birthdeath", "dendropy.model.coalescent", "dendropy.simulate.treesim", "dendropy.calculate.probability"],
    "C19": [_DM + "charmatrixmodel"],
    "C20": [_IO + "tokenizer", _IO + "nexusprocessing", _IO + "newickreader", _IO + "nexusreader", _IO + "phylipreader", _IO + "fastareader", _IO + "nexmlreader", _IO + "xmlprocessing"],
}


def ignored_item_rule(index, rep, rid, modules):
    """An inner loop that walks a collection derived from the outer loop's item but never uses its own item, while its body
    does use the OUTER item, repeats the same action once per inner element: the inner item was meant (wrong one of two
    similar variables)."""
    n = 0
    for m in modules:
        for f in index.functions_in_module(m):
            for l1 in ast.walk(f.node):
                if not isinstance(l1, ast.For):
                    continue
                t1 = {t.id for t in ast.walk(l1.target) if isinstance(t, ast.Name)}
                for l2 in ast.walk(l1):
                    if l2 is l1 or not isinstance(l2, ast.For):
                        continue
                    n += 1
                    t2 = [t.id for t in ast.walk(l2.target) if isinstance(t, ast.Name)]
                    used = {x.id for st in l2.body for x in ast.walk(st) if isinstance(x, ast.Name) and isinstance(x.ctx, ast.Load)}
                    iter_names = {x.id for x in ast.walk(l2.iter) if isinstance(x, ast.Name)}
                    if t2 and all(t not in used and not t.startswith("_") for t in t2) and (used & t1) and (iter_names & t1):
                        rep.check(False, rid, f.qualname, "inner loop ignores its item `%s` and uses the outer `%s`" % (", ".join(t2), ", ".join(sorted(used & t1))), fn_where(f, l2), "",
                                  "%s: the loop `for %s in %s` never uses `%s`; its body works on the outer loop's `%s` instead - every element of the inner collection is replaced by the outer item (e.g. a multi-state member is entered as ONE state instead of its fundamental states), so the wrong one of two similar variables is used" % (f.qualname, norm(l2.target), norm(l2.iter)[:50], ", ".join(t2), ", ".join(sorted(used & t1))))
    return n


def guard_object_rule(index, rep, rid, modules):
    """`if X.a is None: v = <default> else: v = Y.a` - the None test and the read it protects are on the same object."""
    n = 0
    for m in modules:
        for f in index.functions_in_module(m):
            for iff in walk_no_nested(f.node):
                if not isinstance(iff, ast.If):
                    continue
                t, tb, fb = pos_if(iff)
                cp = compare_parts(t)
                if not (cp and cp[1] in ("Is", "IsNot") and is_none(cp[2]) and isinstance(cp[0], ast.Attribute)):
                    continue
                guarded = cp[0]
                root = guarded
                while isinstance(root, ast.Attribute):
                    root = root.value
                if not isinstance(root, ast.Name) or root.id == "self":
                    continue
                notnone_branch = fb if cp[1] == "Is" else tb
                last = guarded.attr
                reads = [a for st in notnone_branch for a in ast.walk(st) if isinstance(a, ast.Attribute) and a.attr in (last, last.replace("edge_length", "length")) and isinstance(a.ctx, ast.Load)]
                if not reads:
                    continue
                n += 1
                roots = set()
                for a in reads:
                    r = a
                    while isinstance(r, ast.Attribute):
                        r = r.value
                    if isinstance(r, ast.Name):
                        roots.add(r.id)
                branch_names = set()
                for st in notnone_branch:
                    branch_names |= names_in(st)
                rep.check(root.id in roots or not roots or root.id in branch_names, rid, f.qualname, "None test on `%s` guards a read of `%s`" % (norm(guarded), ", ".join(norm(a) for a in reads)[:60]), fn_where(f, iff),
                          "%s: `%s` guards reads on the same object" % (f.name, norm(t)[:50]),
                          "%s tests `%s` but the branch it protects reads `%s`: the test is on a different object from the one whose value is used (the wrong one of two similar variables), so a missing value on the object actually read goes unnoticed (TypeError later, or a length silently dropped) while a missing value on the tested one discards a perfectly good value" % (f.qualname, norm(t)[:60], ", ".join(sorted(set(norm(a) for a in reads)))[:80]))
    return n


def _is_mutable_literal(v):
    return isinstance(v, (ast.List, ast.Dict, ast.Set, ast.ListComp, ast.DictComp, ast.SetComp)) or (isinstance(v, ast.Call) and isinstance(v.func, ast.Name) and v.func.id in ("list", "dict", "set", "defaultdict", "OrderedDict", "deque", "bytearray")) \
        or (isinstance(v, ast.Call) and isinstance(v.func, ast.Attribute) and v.func.attr in ("defaultdict", "OrderedDict", "deque"))


def one_object_many_slots_rule(index, rep, rid, modules):
    """(f) one mutable object is not installed under many keys / positions: `dict.fromkeys(keys, <list | set | dict>)`
    and `[<list | set | dict>] * n` put the SAME container behind every key or slot, so what is added for one shows up
    under all of them."""
    n = 0
    for m in modules:
        for f in index.functions_in_module(m):
            for x in ast.walk(f.node):
                if isinstance(x, ast.Call) and call_name(x) == "fromkeys" and len(x.args) == 2:
                    n += 1
                    v = x.args[1]
                    mut = _is_mutable_literal(v) or (isinstance(v, ast.Call) and isinstance(v.func, ast.Name) and v.func.id in ("set", "list", "dict", "defaultdict", "OrderedDict"))
                    rep.check(not mut, rid, f.qualname, "one `%s` shared by every key of fromkeys()" % norm(v)[:30], fn_where(f, x), "",
                              "%s builds `%s`: fromkeys() installs the one object `%s` as the value of EVERY key, so an element added under one key appears under all of them (every gene ends up in every species of a containing-tree mapping)" % (f.qualname, norm(x)[:60], norm(v)[:30]))
                elif isinstance(x, ast.BinOp) and isinstance(x.op, ast.Mult):
                    for a, b in ((x.left, x.right), (x.right, x.left)):
                        ctor = None
                        if isinstance(a, ast.List) and len(a.elts) == 1 and isinstance(a.elts[0], ast.Call):
                            cn_ = call_name(a.elts[0]) or ""
                            if cn_[:1].isupper() and any(k.name == cn_ for k in index.classes.values()):
                                ctor = cn_
                        if ctor and not isinstance(b, ast.List):
                            n += 1
                            rep.check(False, rid, f.qualname, "one `%s` repeated in every slot" % norm(a.elts[0])[:30], fn_where(f, x), "",
                                      "%s builds `%s`: the constructor is called ONCE and every slot of the list refers to that one %s object - what is meant to be n separate nodes / taxa / sequences is one object n times, so joining two of them makes a node its own sibling (a Kingman tree of n tips comes out with one tip, unifurcations and inconsistent parent pointers)" % (f.qualname, norm(x)[:60], ctor))
                        if isinstance(a, ast.List) and len(a.elts) == 1 and (_is_mutable_literal(a.elts[0]) or (isinstance(a.elts[0], ast.Call) and isinstance(a.elts[0].func, ast.Name) and a.elts[0].func.id in ("set", "list", "dict"))) and not isinstance(b, ast.List):
                            n += 1
                            rep.check(False, rid, f.qualname, "one `%s` repeated in every slot" % norm(a.elts[0])[:30], fn_where(f, x), "",
                                      "%s builds `%s`: every slot of the resulting list refers to the one inner container, so filling one position fills them all" % (f.qualname, norm(x)[:60]))
    return n


_ATTR_WRITERS = {}


def _attr_writers(index):
    r = _ATTR_WRITERS.get(id(index))
    if r is None:
        r = {}
        for fi in index.functions.values():
            for w in writes_in(fi.node):
                if w.kind in ("store", "del", "augstore"):
                    r.setdefault(w.attr, set()).add(fi.qualname)
        _ATTR_WRITERS[id(index)] = r
    return r


def uninvalidated_memo_rule(index, rep, rid, modules):
    """(e) a value computed from the object graph and parked on an object under `if not hasattr(obj, "_a")` is a cache
    with no invalidation unless some OTHER function stores or deletes `_a`: once written it is served for ever,
    whatever happens to the lengths / children it was computed from."""
    n = 0
    wr = None
    for m in modules:
        for fi in index.functions_in_module(m):
            for st in walk_no_nested(fi.node):
                if not isinstance(st, ast.If):
                    continue
                t = st.test
                neg = isinstance(t, ast.UnaryOp) and isinstance(t.op, ast.Not)
                c = t.operand if neg else t
                if not (isinstance(c, ast.Call) and call_name(c) == "hasattr" and len(c.args) == 2 and isinstance(c.args[1], ast.Constant) and isinstance(c.args[1].value, str)):
                    continue
                a = c.args[1].value
                body = st.body if neg else st.orelse
                asg = [x for b in body for x in ast.walk(b) if isinstance(x, ast.Assign) and any(isinstance(tg, ast.Attribute) and tg.attr == a and norm(tg.value) == norm(c.args[0]) for tg in x.targets)]
                if not asg:
                    continue
                v = asg[0].value
                computed = isinstance(v, ast.Call) and isinstance(v.func, ast.Attribute) and not (call_name(v) in ("list", "dict", "set", "OrderedDict"))
                if not computed:
                    continue        # lazy creation of an empty container / a default, not a cached result
                n += 1
                wr = wr or _attr_writers(index)
                others = sorted(q for q in wr.get(a, ()) if q != fi.qualname)
                rep.check(bool(others), rid, fi.qualname, "`%s` cached under hasattr() and never invalidated" % a, fn_where(fi, st), "",
                          "%s stores `%s` the first time it is asked (`if not hasattr(%s, '%s')`) and no other function in the repository ever writes or deletes `%s`: the cached result is served for ever, so after an edge length or the children below the node change, the answer is still the one computed for the old tree" % (fi.qualname, norm_stmt(asg[0])[:60], norm(c.args[0]), a, a))
    return n


def foreign_private_rule(index, rep, rid, modules):
    """(d) a function that takes a local alias of ANOTHER object's private container (`x = obj._field`, obj not self,
    `_field` not a field of the function's own class) reads it only: popping from / appending to the alias changes the
    other object behind its interface (a namespace loses its taxa, a list its trees)."""
    n = 0
    for m in modules:
        for f in index.functions_in_module(m):
            own = None
            for w in writes_in(f.node):
                if not (w.kind in ("mutcall", "substore", "subdel") and w.via_alias and w.attr.startswith("_") and not w.attr.startswith("__")):
                    continue
                if w.base is None or norm(w.base) in ("self", "cls"):
                    continue
                if own is None:
                    own = set()
                    if f.cls is not None:
                        for k in index.mro(f.cls):
                            for meth in k.methods.values():
                                own |= {x.attr for x in writes_in(meth.node) if x.base is not None and norm(x.base) == "self"}
                n += 1
                rep.check(w.attr in own, rid, f.qualname, "another object's `%s` mutated through the alias `%s`" % (w.attr, w.via_alias), fn_where(f, w.stmt), "",
                          "%s binds `%s` to `%s.%s` - the private container of another object - and then changes it in place (`%s`): the other object is modified behind its interface (a taxon namespace loses the taxa that are popped, and everything else that uses the namespace with them); work on a copy" % (f.qualname, w.via_alias, norm(w.base), w.attr, norm_stmt(w.stmt)[:60]))
    return n


def shared_state_rule(index, rep, rid, modules):
    """Nothing mutable is shared between calls or between objects behind the caller's back:
    (a) no mutable default argument; (b) a class-level mutable container is neither mutated through an instance / the
    class nor handed on uncopied (stored on an instance, passed as an argument, returned); (c) no function mutates a
    module-level mutable container."""
    n = foreign_private_rule(index, rep, rid, modules)
    n += uninvalidated_memo_rule(index, rep, rid, modules)
    n += one_object_many_slots_rule(index, rep, rid, modules)
    for m in modules:
        mod = index.module(m)
        for f in index.functions_in_module(m):
            a = f.node.args
            for d in list(a.defaults) + [x for x in a.kw_defaults if x is not None]:
                n += 1
                rep.check(not _is_mutable_literal(d), rid, f.qualname, "mutable default " + norm(d)[:40], fn_where(f, d), "",
                          "%s has the mutable default argument `%s`: the one container is shared by every call that does not pass its own, so what one call stores in it (a memo, a cache, an accumulator) is seen by the next call on a different object" % (f.qualname, norm(d)[:40]))
        for ci in [c for c in index.classes.values() if c.module is mod]:
            for attr, val in ci.class_attrs.items():
                if not _is_mutable_literal(val):
                    continue
                n += 1
                family = {k.qualname for k in index.classes.values() if any(b.qualname == ci.qualname for b in index.mro(k))}
                rebinds = any(w.attr == attr and w.kind == "store" and w.base is not None and norm(w.base) == "self" for meth in ci.methods.values() if meth.name == "__init__" for w in writes_in(meth.node))
                if rebinds:
                    continue
                bad = None
                for k in [x for x in index.classes.values() if x.qualname in family]:
                    for meth in k.methods.values():
                        refs = ("self." + attr, "cls." + attr, "self.__class__." + attr, "type(self)." + attr) + tuple(x.name + "." + attr for x in index.classes.values() if x.qualname in family)
                        for w in writes_in(meth.node):
                            if w.attr == attr and w.base is not None and norm(w.base) + "." + attr in refs and w.kind in ("mutcall", "substore", "subdel", "augstore"):
                                bad = bad or (meth, w.stmt, "mutates it in place")
                        pm = None
                        for x in walk_no_nested(meth.node):
                            if isinstance(x, ast.Attribute) and norm(x) in refs and isinstance(x.ctx, ast.Load):
                                pm = pm or parent_map(meth.node)
                                par = pm.get(x)
                                if isinstance(par, ast.keyword) or (isinstance(par, ast.Call) and x in par.args):
                                    bad = bad or (meth, x, "passes it on uncopied")
                                elif isinstance(par, ast.Assign) and par.value is x and any(isinstance(t, ast.Attribute) for t in par.targets):
                                    bad = bad or (meth, x, "stores it on an instance uncopied")
                                elif isinstance(par, ast.Return):
                                    bad = bad or (meth, x, "returns it uncopied")
                rep.check(bad is None, rid, ci.qualname, "class-level container %s shared: %s" % (attr, bad[2] if bad else ""), "%s:%d" % (mod.relpath, ci.node.lineno), "",
                          "%s.%s is a class-level mutable container and %s %s (`%s`): all instances - every namespace, tokenizer, tree - then work on one object, so what one of them records or switches is seen by all the others" % (ci.qualname, attr, bad[0].qualname if bad else "", bad[2] if bad else "", norm(bad[1])[:60] if bad else ""))
    n += module_state_rule(index, rep, rid, modules)
    # module-level containers handed on uncopied
    for m in modules:
        mod = index.module(m)
        globs = {}
        for st in mod.tree.body:
            if isinstance(st, ast.Assign) and len(st.targets) == 1 and isinstance(st.targets[0], ast.Name) and _is_mutable_literal(st.value):
                globs[st.targets[0].id] = st
        if not globs:
            continue
        for f in index.functions_in_module(m):
            pm = None
            for x in ast.walk(f.node):
                if isinstance(x, ast.Name) and x.id in globs and isinstance(x.ctx, ast.Load) and x.id not in f.all_params:
                    if any(isinstance(a, ast.Assign) and any(isinstance(t, ast.Name) and t.id == x.id for t in a.targets) for a in walk_no_nested(f.node)):
                        continue        # a local of the same name
                    pm = pm or parent_map(f.node)
                    par = pm.get(x)
                    how = None
                    if isinstance(par, ast.keyword) or (isinstance(par, ast.Call) and x in par.args and not (isinstance(par.func, ast.Name) and par.func.id in ("len", "set", "list", "dict", "tuple", "sorted", "frozenset", "iter", "enumerate", "isinstance", "zip", "sum", "max", "min", "any", "all", "str", "repr"))):
                        callee = par if isinstance(par, ast.Call) else pm.get(par)
                        cn = call_name(callee) if isinstance(callee, ast.Call) else ""
                        if cn in ("join", "get", "format", "index", "count", "startswith", "endswith", "search", "match", "sub", "findall", "split", "write", "extend", "update", "append", "add"):
                            continue    # read or copied element-wise by a builtin method
                        how = "passes it on uncopied"
                    elif isinstance(par, ast.Assign) and par.value is x and any(isinstance(t, ast.Attribute) for t in par.targets):
                        how = "stores it on an object uncopied"
                    if how:
                        n += 1
                        rep.check(False, rid, f.qualname, "module-level container %s shared: %s" % (x.id, how), fn_where(f, x), "",
                                  "%s %s the module-level mutable container `%s` (`%s`): every object built this way works on the one container, so an in-place change made through one of them (a tokenizer switching hyphens or end-of-line to tokens) is seen by all the others for the rest of the process" % (f.qualname, how, x.id, norm(par)[:60]))
    return n


INPLACE_DUNDERS = ("__iadd__", "__isub__", "__imul__", "__ior__", "__iand__", "__ixor__", "__itruediv__", "__ifloordiv__", "__imod__", "__ilshift__", "__irshift__")


def protocol_rule(index, rep, rid, modules):
    """Python protocol contracts the callers rely on without seeing them:
    (a) an in-place operator method returns an object (normally self) on every normal path - `x += y` rebinds x to the
        result, so a bare return turns x into None;
    (b) a template that goes through `.format()` / `%` is a constant: data is passed as an argument, never concatenated
        into the template (a brace or percent sign in the data would be read as a placeholder)."""
    n = 0
    for m in modules:
        for f in index.functions_in_module(m):
            if f.name in INPLACE_DUNDERS or f.name in ("__copy__", "__deepcopy__"):
                g = cfg_of(f)
                n += 1
                bad = None
                for nd in g.nodes:
                    if nd.kind == "stmt" and isinstance(nd.ast, ast.Return) and (nd.ast.value is None or is_none(nd.ast.value)) and g.can_reach(g.entry, lambda x, nd=nd: x is nd, skip_src=False):
                        bad = nd.stmt
                if bad is None:
                    # falling off the end
                    for nd in g.nodes:
                        if any(t is g.exit and lab != "e" for lab, t in nd.succ) and not (nd.kind == "stmt" and isinstance(nd.ast, (ast.Return, ast.Raise))) and g.can_reach(g.entry, lambda x, nd=nd: x is nd, skip_src=False):
                            bad = nd.stmt or f.node
                rep.check(bad is None, rid, f.qualname, "%s can return None" % f.name, fn_where(f, bad), "%s returns an object on every normal path" % f.qualname,
                          ("%s has a normal path that returns None (`%s`): `a %s= b` rebinds `a` to the method's result, so on that path the collection the caller was accumulating into is replaced by None and the next operation on it fails" % (f.qualname, norm_stmt(bad)[:50] if isinstance(bad, ast.stmt) else "falls off the end", {"__iadd__": "+", "__ior__": "|", "__isub__": "-", "__imul__": "*", "__iand__": "&"}.get(f.name, "op")))
                          if f.name in INPLACE_DUNDERS else
                          ("%s has a normal path that returns None (%s): copy.copy / copy.deepcopy hand the hook's result to the caller, so the 'copy' of every object whose class inherits this hook is None" % (f.qualname, "`%s`" % norm_stmt(bad)[:50] if isinstance(bad, ast.stmt) else "it falls off the end")))
            for c in calls_in(f.node, nested=True):
                tmpl = None
                if isinstance(c.func, ast.Attribute) and c.func.attr == "format":
                    tmpl = c.func.value
                if tmpl is None:
                    continue
                n += 1
                expr = tmpl
                if isinstance(expr, ast.Name):
                    defs = [a for a in walk_no_nested(f.node) if isinstance(a, ast.Assign) and len(a.targets) == 1 and isinstance(a.targets[0], ast.Name) and a.targets[0].id == expr.id]
                    augs = [a for a in walk_no_nested(f.node) if isinstance(a, ast.AugAssign) and isinstance(a.target, ast.Name) and a.target.id == expr.id]
                    if len(defs) == 1 and not augs:
                        expr = defs[0].value
                    elif augs:
                        expr = ast.BinOp(left=ast.Constant(value=""), op=ast.Add(), right=augs[0].value)

                def dynamic_concat(e):
                    if isinstance(e, ast.BinOp) and isinstance(e.op, ast.Add):
                        return any(dynamic_concat(x) or not (isinstance(x, ast.Constant) or isinstance(x, ast.BinOp)) for x in (e.left, e.right))
                    if isinstance(e, ast.JoinedStr):
                        return any(isinstance(v, ast.FormattedValue) for v in e.values)
                    return False
                rep.check(not dynamic_concat(expr), rid, f.qualname, "data concatenated into a format template", fn_where(f, c), "",
                          "%s builds the template of `%s` by concatenating run-time data into it: a `{` or `}` in that data (a taxon label such as `{ingroup}`) is then read as a placeholder, and composing the message fails with KeyError / IndexError / ValueError - the caller gets that instead of the documented error" % (f.qualname, norm(c)[:70]))
    return n


def _literal_predicate(test):
    """(subject text, set of accepted literals, set of accepted prefixes) of a test made of ==, in, startswith and `or`; None if not of that form"""
    if isinstance(test, ast.BoolOp) and isinstance(test.op, ast.Or):
        subj, lits, pres = None, set(), set()
        for v in test.values:
            r = _literal_predicate(v)
            if r is None or (subj is not None and r[0] != subj):
                return None
            subj = r[0]
            lits |= r[1]
            pres |= r[2]
        return subj, lits, pres
    if isinstance(test, ast.Compare) and len(test.ops) == 1:
        l, r = test.left, test.comparators[0]
        if isinstance(test.ops[0], ast.Eq):
            if isinstance(r, ast.Constant) and isinstance(r.value, str):
                return norm(l), {r.value}, set()
            if isinstance(l, ast.Constant) and isinstance(l.value, str):
                return norm(r), {l.value}, set()
        if isinstance(test.ops[0], ast.In) and isinstance(r, (ast.Tuple, ast.List, ast.Set)) and r.elts and all(isinstance(e, ast.Constant) and isinstance(e.value, str) for e in r.elts):
            return norm(l), {e.value for e in r.elts}, set()
    if isinstance(test, ast.Call) and isinstance(test.func, ast.Attribute) and test.func.attr == "startswith" and len(test.args) == 1 and isinstance(test.args[0], ast.Constant) and isinstance(test.args[0].value, str):
        return norm(test.func.value), set(), {test.args[0].value}
    return None


def _edit1(a, b):
    """edit distance exactly 1 (substitution, insertion or deletion)"""
    if a == b or abs(len(a) - len(b)) > 1:
        return False
    if len(a) == len(b):
        return sum(1 for x, y in zip(a, b) if x != y) == 1
    if len(a) > len(b):
        a, b = b, a
    return any(b[:i] + b[i + 1:] == a for i in range(len(b)))


def _follows(fn_node, first, later):
    """does `later` sit in a statement that comes after (an enclosing statement of) `first` in some common block?"""
    pm = parent_map(fn_node)

    def chain_up(n_):
        out = []
        while n_ is not None and n_ is not fn_node:
            out.append(n_)
            n_ = pm.get(n_)
        out.append(fn_node)
        return out
    ua, ub = chain_up(first), chain_up(later)
    ids_b = {id(x): i for i, x in enumerate(ub)}
    for i, anc in enumerate(ua):
        if id(anc) in ids_b and i > 0:
            if not all(isinstance(x, (ast.For, ast.While, ast.With)) for x in ua[1:i]):
                return False        # the chain sits in one alternative of an enclosing statement: other paths bypass it
            ca, cb = ua[i - 1], ub[ids_b[id(anc)] - 1] if ids_b[id(anc)] > 0 else None
            if cb is None or ca is cb:
                return False
            for fld in ("body", "orelse", "finalbody"):
                blk = getattr(anc, fld, None)
                if isinstance(blk, list) and any(x is ca for x in blk) and any(x is cb for x in blk):
                    return [k for k, x in enumerate(blk) if x is ca][0] < [k for k, x in enumerate(blk) if x is cb][0]
            return False
    return False


def shadowed_branch_rule(index, rep, rid, modules):
    """In an if/elif chain that dispatches on string literals, every branch can be reached: no branch's literals are all
    accepted by an earlier branch (the keyword would silently get the earlier branch's meaning)."""
    n = 0
    seen = set()
    closed = {}
    for m in modules:
        for f in index.functions_in_module(m):
            for node in walk_no_nested(f.node):
                if not isinstance(node, ast.If):
                    continue
                chain = []
                cur = node
                while isinstance(cur, ast.If):
                    chain.append(cur)
                    cur = cur.orelse[0] if len(cur.orelse) == 1 and isinstance(cur.orelse[0], ast.If) else None
                if len(chain) < 2:
                    continue
                preds = [_literal_predicate(c.test) for c in chain]
                if sum(1 for p_ in preds if p_) < 2:
                    continue
                # only the head of a chain starts the analysis
                if id(node) in seen:
                    continue
                for c in chain:
                    seen.add(id(c))
                for i, p_ in enumerate(preds):
                    if not p_ or not p_[1] or p_[2]:
                        continue
                    n += 1
                    earlier = [q for q in preds[:i] if q and q[0] == p_[0]]
                    shadow = [lit for lit in p_[1] if any(lit in q[1] or any(lit.startswith(pre) for pre in q[2]) for q in earlier)]
                    closed.setdefault((f.qualname, p_[0]), None)
                    rep.check(len(shadow) < len(p_[1]) or not shadow, rid, f.qualname, "branch for %s is unreachable" % sorted(p_[1]), fn_where(f, chain[i]), "",
                              "%s: the branch `%s` can never be taken - every keyword it tests (%s) is already accepted by an earlier branch of the same chain, so that keyword gets the earlier branch's meaning (a NEXUS `datatype=nucleotide` read as DNA, an option value silently treated as another)" % (f.qualname, norm(chain[i].test)[:60], ", ".join(sorted(shadow))))
    # (b) a closed vocabulary: where a chain over one subject ends in `else: raise`, the keywords its branches accept are
    #     all the subject can be afterwards; a later test of the same subject against another spelling can never hold
    for m in modules:
        for f in index.functions_in_module(m):
            chains = []
            tails = {id(x.orelse[0]) for x in walk_no_nested(f.node) if isinstance(x, ast.If) and len(x.orelse) == 1 and isinstance(x.orelse[0], ast.If)}
            for node in walk_no_nested(f.node):
                if isinstance(node, ast.If) and id(node) not in tails:
                    chain = []
                    cur = node
                    last_else = None
                    while isinstance(cur, ast.If):
                        chain.append(cur)
                        last_else = cur.orelse
                        cur = cur.orelse[0] if len(cur.orelse) == 1 and isinstance(cur.orelse[0], ast.If) else None
                    if len(chain) >= 2 and last_else and len(last_else) == 1 and isinstance(last_else[0], ast.Raise):
                        chains.append(chain)
            for chain in chains:
                preds = [_literal_predicate(c.test) for c in chain]
                subs = {p_[0] for p_ in preds if p_}
                if len(subs) != 1:
                    continue
                subj = subs.pop()
                if any(p_ and p_[2] for p_ in preds):
                    continue
                vocab = set().union(*[p_[1] for p_ in preds if p_])
                nonlit = [c for c, p_ in zip(chain, preds) if p_ is None]
                if any(not (isinstance(c.test, ast.Compare) and norm(c.test.left) == subj and is_none(c.test.comparators[0])) for c in nonlit):
                    continue            # a branch we cannot read may accept anything
                inchain = {id(c) for c in chain}
                for other in walk_no_nested(f.node):
                    tests = []
                    if isinstance(other, (ast.If, ast.While, ast.IfExp)) and id(other) not in inchain:
                        tests = [other.test]
                    for t in tests:
                        for sub in ast.walk(t):
                            p2 = _literal_predicate(sub) if isinstance(sub, (ast.Compare, ast.BoolOp)) else None
                            if p2 and p2[0] == subj and p2[1] and not any(id(sub) == id(x) or any(sub is y for y in ast.walk(x.test)) for x in chain):
                                if not _follows(f.node, chain[0], sub):
                                    continue        # the vocabulary is closed only for what runs after the validating chain
                                n += 1
                                extra = sorted(p2[1] - vocab)
                                missing = vocab - p2[1]
                                squash = lambda w: "".join(ch for ch in w.lower() if ch.isalnum())
                                near = [e for e in extra if any(squash(e) == squash(w) or _edit1(e, w) for w in missing)]
                                if extra and not near and (p2[1] & vocab):
                                    extra = []      # an extra synonym next to accepted keywords is dead weight, not a misspelling
                                rep.check(not extra, rid, f.qualname, "keyword %s is outside the vocabulary the function accepts" % extra, fn_where(f, sub), "",
                                          "%s tests `%s` against %s, but the chain that validates it accepts only %s and raises for anything else: that spelling can never arrive, so the action it guards (deriving the edge lengths from the summarised ages, say) silently never happens for the keyword it was meant for" % (f.qualname, subj, extra, sorted(vocab)))
    return n


NUMERIC_EXEMPT = {
    "dendropy.model.coalescent.discrete_time_to_coalescence:pop_size": "documented: a population size of 0 or None both mean 'time in population units'",
}


def generic_rules(prop, index, rep):
    """rules of the same shape for every property, applied to the modules the property is anchored in"""
    mods = [m for m in PROP_MODULES.get(prop, []) if m in index.modules or index.module(m)]
    rid = "R%s.W" % prop[1:]
    rep.rule(rid, "argument wiring in the property's modules: an argument named like one of the callee's parameters is passed for that parameter (no swapped positional arguments, no `a=b, b=a` keyword crossings)")
    with rep.section(rid):
        nw = arg_wiring_rule(index, rep, rid, mods)
        nw += option_handed_on_rule(index, rep, rid, mods)
        nw += parameter_is_read_rule(index, rep, rid, mods)
        nw += orphaned_local_rule(index, rep, rid, mods)
        nw += io_kwargs_rule(index, rep, rid, mods)
        nw += documented_order_rule(index, rep, rid, mods)
        nw += base_init_forwarding_rule(index, rep, rid, mods)
        nw += option_handed_down_rule(index, rep, rid, mods)
        nw += settings_clone_rule(index, rep, rid, mods)
        rep.ob(rid, "src/dendropy", "%d resolved calls in the property's modules examined" % nw, True)
        rep.floor(rid, "resolved calls in the property's modules", 50, nw)
    rid3 = "R%s.N" % prop[1:]
    rep.rule(rid3, "zero and False are values: in the property's modules a number (a name used in arithmetic or ordered comparisons, a node age / edge length / weight attribute) is never tested by truthiness, and `x or default` never stands in for a number or a None-defaulted option")
    with rep.section(rid3):
        nz = zero_is_a_value_rule(index, rep, rid3, mods, exempt=NUMERIC_EXEMPT)
        rep.ob(rid3, "src/dendropy", "%d numeric names, numeric attributes tests and value-position `or` defaults examined" % nz, True, nontrivial=nz > 0)
    rid4 = "R%s.S" % prop[1:]
    rep.rule(rid4, "nothing mutable is shared behind the caller's back in the property's modules: no mutable default argument, no class-level container mutated or handed on uncopied, no module-level container mutated by a function")
    with rep.section(rid4):
        ns = shared_state_rule(index, rep, rid4, mods)
        rep.ob(rid4, "src/dendropy", "%d defaults, class-level and module-level containers examined" % ns, True)
        rep.floor(rid4, "default arguments and containers examined", 5, ns)
    rid5 = "R%s.P" % prop[1:]
    rep.rule(rid5, "protocol contracts in the property's modules and the error classes: in-place operator methods return an object on every normal path; format templates are constants (data is an argument, never concatenated into the template)")
    with rep.section(rid5):
        npc = protocol_rule(index, rep, rid5, mods + ["dendropy.utility.error"])
        npc += resized_while_iterated_rule(index, rep, rid5, mods)
        npc += called_method_exists_rule(index, rep, rid5, mods)
        npc += container_formatted_rule(index, rep, rid5, mods)
        npc += binary_operator_rule(index, rep, rid5, mods)
        npc += template_style_rule(index, rep, rid5, mods)
        rep.ob(rid5, "src/dendropy", "%d in-place operator methods and format calls examined" % npc, True, nontrivial=npc > 0)
    rid6 = "R%s.D" % prop[1:]
    rep.rule(rid6, "literal dispatch chains in the property's modules have no dead branch: no branch of an if/elif chain over string keywords tests only keywords that an earlier branch already accepts")
    with rep.section(rid6):
        nd_ = shadowed_branch_rule(index, rep, rid6, mods)
        rep.ob(rid6, "src/dendropy", "%d keyword branches examined" % nd_, True, nontrivial=nd_ > 0)
    rid7 = "R%s.O" % prop[1:]
    rep.rule(rid7, "overrides keep their parent's refusals: a method that replaces an inherited implementation without delegating to it raises the same errors for the conditions the parent's opening guards refuse")
    with rep.section(rid7):
        no_ = override_guard_rule(index, rep, rid7, mods)
        rep.ob(rid7, "src/dendropy", "%d overrides of guarded parent methods examined" % no_, True, nontrivial=no_ > 0)
    rid8 = "R%s.E" % prop[1:]
    rep.rule(rid8, "documented errors are not swallowed: no pass-only handler in the property's modules can catch one of the library's own error classes raised inside the block it guards (directly or up to two resolved calls down)")
    with rep.section(rid8):
        ne_ = swallowed_error_rule(index, rep, rid8, mods)
        ne_ += unbound_after_handler_rule(index, rep, rid8, mods)
        rep.ob(rid8, "src/dendropy", "%d pass-only handlers examined" % ne_, True, nontrivial=ne_ > 0)
    rid9 = "R%s.C" % prop[1:]
    rep.rule(rid9, "the library's own errors can be raised: every construction of a repository exception class in the property's modules passes keywords and positionals that the __init__ in effect along its MRO accepts")
    with rep.section(rid9):
        nc_ = exception_ctor_rule(index, rep, rid9, mods)
        nc_ += unraised_exception_rule(index, rep, rid9, mods)
        nc_ += self_call_binds_rule(index, rep, rid9, mods)
        nc_ += star_args_collision_rule(index, rep, rid9, mods)
        nc_ += kwargs_read_then_forwarded_rule(index, rep, rid9, mods)
        rep.ob(rid9, "src/dendropy", "%d constructions of repository exception classes examined" % nc_, True, nontrivial=nc_ > 0)
    rid2 = "R%s.V" % prop[1:]
    rep.rule(rid2, "right variable in nested loops: an inner loop over a collection derived from the outer item uses its own item")
    with rep.section(rid2):
        nl = ignored_item_rule(index, rep, rid2, mods)
        ng = guard_object_rule(index, rep, rid2, mods)
        ng += stale_snapshot_rule(index, rep, rid2, mods)
        ng += found_or_empty_rule(index, rep, rid2, mods)
        ng += method_tested_rule(index, rep, rid2, mods)
        ng += alias_restore_rule(index, rep, rid2, mods)
        ng += leaked_loop_value_rule(index, rep, rid2, mods)
        ng += builtin_identity_rule(index, rep, rid2, mods)
        rep.ob(rid2, "src/dendropy", "%d nested loops and %d None-guards in the property's modules examined" % (nl, ng), True, nontrivial=nl + ng > 0)


def builtin_identity_rule(index, rep, rid, modules):
    """`id(x)` keys a memo by an object that takes part in the operation: x is a parameter, a local or an attribute -
    never the name of a builtin (`id(object)`, `id(type)`, `id(list)`): that is the identity of the builtin itself, so
    the entry can never match anything the memo is consulted for."""
    import builtins
    n = 0
    for m in modules:
        for f in index.functions_in_module(m):
            bound = None
            for c in calls_in(f.node, nested=True):
                if isinstance(c.func, ast.Name) and c.func.id == "id" and len(c.args) == 1 and isinstance(c.args[0], ast.Name):
                    n += 1
                    nm = c.args[0].id
                    if not hasattr(builtins, nm):
                        continue
                    if bound is None:
                        bound = set(f.all_params) | {x.id for x in ast.walk(f.node) if isinstance(x, ast.Name) and isinstance(x.ctx, ast.Store)}
                    if nm in bound:
                        continue
                    rep.check(False, rid, f.qualname, "memo keyed by the builtin `%s`" % nm, fn_where(f, c), "",
                              "%s uses `id(%s)` as a key: `%s` is the builtin, not one of the objects the operation deals with, so the entry never matches - an attribute-bound annotation copied through this default mapper stays bound to the SOURCE object and keeps reporting the source's attribute on the copy" % (f.qualname, nm, nm))
    return n


# one accepted instance per named function (keyed by the function, not by the local's name, which a renaming changes);
# a second leaked value in the same function is reported together with the first
LEAKED_LOOP_VALUE_OK = {
    "dendropy.dataio.nexmlwriter.NexmlWriter._write_tree": "the node loop's variable flows only into _write_edge's `is_root`, a parameter the callee never reads (it decides on edge.tail_node itself)",
    "dendropy.calculate.treecompare.AssemblageInducedTreeShapeKernel.__call__": "the kernel-trick score table is outside every property's distances (it does report the LAST permutation's vector where the joint minimum was meant - noted in DESIGN 8.11)",
}


def leaked_loop_value_rule(index, rep, rid, modules):
    """a per-iteration value does not outlive its loop into another loop: a name bound only inside loop A (its target
    or a local assigned in its body) and read inside a later loop B that is not nested in A holds, for EVERY pass of
    B, whatever the LAST pass of A left in it - the shape a one-pass loop takes when it is split into 'collect' and
    'build' passes and the second pass keeps using the first one's variable."""
    n = 0

    def stores(node):
        return {x.id for x in ast.walk(node) if isinstance(x, ast.Name) and isinstance(x.ctx, (ast.Store, ast.Del))}
    for m in modules:
        for f in index.functions_in_module(m):
            loops = [l for l in walk_no_nested(f.node) if isinstance(l, (ast.For, ast.While))]
            if not loops:
                continue
            allst = [x for x in walk_no_nested(f.node) if isinstance(x, ast.Name) and isinstance(x.ctx, (ast.Store, ast.Del))]
            found = []
            for l1 in loops:
                inner = {id(x) for x in ast.walk(l1)}
                # what one pass leaves for the next: the loop's own target, and names the body binds unconditionally
                # (directly in the body) - a name bound under a test inside the loop is a search result that is MEANT
                # to outlive the loop
                direct = {x.id for x in ast.walk(l1.target) if isinstance(x, ast.Name)} if isinstance(l1, ast.For) else set()
                for st in l1.body:
                    if isinstance(st, (ast.Assign, ast.AnnAssign, ast.AugAssign)):
                        for t in (st.targets if isinstance(st, ast.Assign) else [st.target]):
                            direct |= {x.id for x in ast.walk(t) if isinstance(x, ast.Name) and isinstance(x.ctx, ast.Store)}
                per_iter = (stores(l1) & direct) - {x.id for x in allst if id(x) not in inner} - set(f.all_params)
                if not per_iter:
                    continue
                for l2 in loops:
                    if l2 is l1 or id(l2) in inner or l2.lineno <= l1.lineno or any(x is l1 for x in ast.walk(l2)):
                        continue
                    own = stores(l2)
                    seen = set()
                    for x in ast.walk(l2):
                        if isinstance(x, ast.Name) and isinstance(x.ctx, ast.Load) and x.id in per_iter and x.id not in own and x.id not in seen:
                            seen.add(x.id)
                            n += 1
                            found.append((x, l1, l2))
            # ... nor into the straight-line code after it: a For loop's own target, bound nowhere else, read in the
            # statements that follow a loop which has no `break` / `return` (so it is not a search) is the LAST item -
            # the shape a statement takes when it is dedented out of the loop body by mistake
            pm_l = None
            for l1 in [l for l in loops if isinstance(l, ast.For)]:
                tn = {x.id for x in ast.walk(l1.target) if isinstance(x, ast.Name)}
                if not tn or any(isinstance(x, (ast.Break, ast.Return)) for x in ast.walk(l1)):
                    continue
                other = {x.id for x in ast.walk(f.node) if isinstance(x, ast.Name) and isinstance(x.ctx, ast.Store) and not any(x is y for y in ast.walk(l1.target))}
                only_t = tn - other - set(f.all_params)
                if not only_t:
                    continue
                pm_l = pm_l or parent_map(f.node)
                par_l = pm_l.get(l1)
                sibs_l = []
                for fld in ("body", "orelse", "finalbody"):
                    seq = getattr(par_l, fld, None)
                    if isinstance(seq, list) and any(l1 is z for z in seq):
                        sibs_l = seq[[i for i, z in enumerate(seq) if z is l1][0] + 1:]
                for st in sibs_l:
                    if isinstance(st, (ast.For, ast.While)):
                        continue        # reads inside a later loop are the case above
                    used = [x for x in ast.walk(st) if isinstance(x, ast.Name) and isinstance(x.ctx, ast.Load) and x.id in only_t]
                    if used and not any(used[0].id == y.id for y, _, _ in found):
                        n += 1
                        found.append((used[0], l1, st))
                        break
            names = {x.id for x, _, _ in found}
            why = LEAKED_LOOP_VALUE_OK.get(f.qualname)
            if why and len(names) == 1:
                x = found[0][0]
                rep.ob(rid, fn_where(f, x), "%s: one per-iteration value read after its loop - accepted: %s" % (f.name, why), True, nontrivial=False)
                continue
            done = set()
            for x, l1, l2 in found:
                if x.id in done:
                    continue
                done.add(x.id)
                rep.check(False, rid, f.qualname, "a value of an earlier loop read in a later loop (#%d)" % len(done), fn_where(f, x), "",
                          "%s binds `%s` only inside the loop at line %d and reads it after that loop, at line %d: what is read there is what the LAST pass of the loop left behind (a statement dedented out of a loop body acts on the last item only - Edge.collapse gives the collapsed edge's length to the last child alone; a second loop sees the last value on every pass) - items collected from several blocks / groups are all built against the last one's value (trees of an earlier <trees> block get the taxa of the last <otus> block)" % (f.qualname, x.id, l1.lineno, l2.lineno))
    return n


def resized_while_iterated_rule(index, rep, rid, modules):
    """the iteration protocol: a dict / set / list is not resized by the body of a for-loop that iterates it directly
    (or through .keys() / .items() / .values()): no del / pop / remove / clear / add / append on it, and no store under a
    key that a `not in` test on the same container has just found missing (a definite insertion)."""
    n = 0
    for m in modules:
        for fi in index.functions_in_module(m):
            for f in walk_no_nested(fi.node):
                if not isinstance(f, ast.For):
                    continue
                it = f.iter
                if isinstance(it, ast.Call) and isinstance(it.func, ast.Attribute) and it.func.attr in ("keys", "items", "values") and not it.args:
                    it = it.func.value
                if not isinstance(it, (ast.Name, ast.Attribute)):
                    continue
                txt = norm(it)
                n += 1
                bad = None
                for s_ in f.body:
                    for x in walk_no_nested(s_):
                        if isinstance(x, ast.Delete):
                            for t in x.targets:
                                if isinstance(t, ast.Subscript) and norm(t.value) == txt:
                                    bad = bad or (x, "deletes a key of it")
                        elif isinstance(x, ast.Call) and isinstance(x.func, ast.Attribute) and norm(x.func.value) == txt \
                                and x.func.attr in ("pop", "remove", "clear", "popitem", "__delitem__", "discard", "insert", "append", "add", "extend", "update", "setdefault"):
                            bad = bad or (x, "calls .%s() on it" % x.func.attr)
                        elif isinstance(x, ast.If):
                            t = x.test
                            if isinstance(t, ast.Compare) and len(t.ops) == 1 and isinstance(t.ops[0], ast.NotIn) and norm(t.comparators[0]) == txt:
                                k = norm(t.left)
                                for y in x.body:
                                    for z in walk_no_nested(y):
                                        if isinstance(z, ast.Assign) and any(isinstance(tg, ast.Subscript) and norm(tg.value) == txt and norm(tg.slice) == k for tg in z.targets):
                                            bad = bad or (z, "inserts the key `%s` it has just found missing" % k)
                # a loop that leaves right after the change (break / return) is the accepted find-and-remove idiom
                if bad is not None:
                    blk = [b for b in ast.walk(f) if hasattr(b, "body") and isinstance(getattr(b, "body"), list) and any(st is bad[0] or (isinstance(st, ast.Expr) and st.value is bad[0]) for st in b.body)]
                    if blk:
                        body = blk[0].body
                        i = [j for j, st in enumerate(body) if st is bad[0] or (isinstance(st, ast.Expr) and st.value is bad[0])][0]
                        if any(isinstance(st, (ast.Break, ast.Return)) for st in body[i + 1:]):
                            bad = None
                if bad is not None:
                    rep.check(False, rid, fi.qualname, "`%s` resized while it is iterated" % txt, fn_where(fi, bad[0]), "",
                              "%s iterates `%s` and %s inside the loop (`%s`): a dict or set raises RuntimeError('changed size during iteration') as soon as that happens, a list skips or repeats members - iterate over a copy (list(...)) instead" % (fi.qualname, txt, bad[1], (norm_stmt(bad[0]) if isinstance(bad[0], ast.stmt) else norm(bad[0]))[:60]))
    return n


def alias_restore_rule(index, rep, rid, modules):
    """save / change / restore needs a copy: `old = obj.attr` ... `obj.attr.add(...)` ... `obj.attr = old` restores
    nothing when `old` is the very container that was changed in place."""
    n = 0
    for m in modules:
        for fi in index.functions_in_module(m):
            saves = {}
            for st in walk_no_nested(fi.node):
                if isinstance(st, ast.Assign) and len(st.targets) == 1 and isinstance(st.targets[0], ast.Name) and isinstance(st.value, ast.Attribute):
                    saves.setdefault(st.targets[0].id, []).append(st)
            if not saves:
                continue
            for st in walk_no_nested(fi.node):
                if not (isinstance(st, ast.Assign) and len(st.targets) == 1 and isinstance(st.targets[0], ast.Attribute) and isinstance(st.value, ast.Name) and st.value.id in saves):
                    continue
                tgt = norm(st.targets[0])
                sv = [a for a in saves[st.value.id] if norm(a.value) == tgt and a.lineno < st.lineno]
                if not sv or len(saves[st.value.id]) != 1:
                    continue
                n += 1
                muts = [c for c in calls_in(fi.node) if isinstance(c.func, ast.Attribute) and c.func.attr in MUTATORS and norm(c.func.value) == tgt and sv[0].lineno < c.lineno < st.lineno]
                muts += [x for x in walk_no_nested(fi.node) if isinstance(x, (ast.Assign, ast.AugAssign, ast.Delete)) and sv[0].lineno < x.lineno < st.lineno
                         and any(isinstance(t, ast.Subscript) and norm(t.value) == tgt for t in (x.targets if not isinstance(x, ast.AugAssign) else [x.target]))]
                if muts:
                    rep.check(False, rid, fi.qualname, "`%s` restored from an alias of itself" % tgt, fn_where(fi, st), "",
                              "%s saves `%s = %s`, changes `%s` IN PLACE (`%s`) and then 'restores' it with `%s`: `%s` is the same object that was changed, so nothing is restored and the temporary setting stays in force for the rest of the run - save a copy (set(...) / list(...) / dict(...)) instead" % (fi.qualname, st.value.id, tgt, tgt, norm(muts[0])[:50] if not isinstance(muts[0], ast.stmt) else norm_stmt(muts[0])[:50], norm_stmt(st)[:60], st.value.id))
    return n


def container_formatted_rule(index, rep, rid, modules):
    """a set / list / dict is not text: a name that the function binds only to container displays or constructors
    (set(), [], {}, comprehensions) and fills with add / append is not handed to `%s` or `{}` as it is - what gets
    written is the container's Python repr (`{'x={ab}'}`), in arbitrary order for a set."""
    n = 0
    for m in modules:
        for fi in index.functions_in_module(m):
            binds = {}
            for st in walk_no_nested(fi.node):
                if isinstance(st, ast.Assign):
                    for t in st.targets:
                        if isinstance(t, ast.Name):
                            binds.setdefault(t.id, []).append(st.value)
                elif isinstance(st, (ast.For, ast.AugAssign, ast.With)):
                    tg = st.target if isinstance(st, (ast.For, ast.AugAssign)) else None
                    if tg is not None:
                        for x in ast.walk(tg):
                            if isinstance(x, ast.Name):
                                binds.setdefault(x.id, []).append(None)
            conts = {nm for nm, vs in binds.items() if nm not in fi.all_params and vs and all(v is not None and (isinstance(v, (ast.Set, ast.List, ast.Dict, ast.SetComp, ast.ListComp, ast.DictComp)) or (isinstance(v, ast.Call) and isinstance(v.func, ast.Name) and v.func.id in ("set", "list", "dict", "frozenset") )) for v in vs)}
            if not conts:
                continue
            for b in ast.walk(fi.node):
                args = None
                if isinstance(b, ast.BinOp) and isinstance(b.op, ast.Mod) and isinstance(b.left, ast.Constant) and isinstance(b.left.value, str):
                    args = list(b.right.elts) if isinstance(b.right, ast.Tuple) else [b.right]
                    tmpl = b.left.value
                elif isinstance(b, ast.Call) and isinstance(b.func, ast.Attribute) and b.func.attr == "format" and isinstance(b.func.value, ast.Constant) and isinstance(b.func.value.value, str):
                    args = list(b.args) + [k.value for k in b.keywords]
                    tmpl = b.func.value.value
                if not args:
                    continue
                n += 1
                if "%r" in tmpl or "!r" in tmpl:
                    continue        # a repr was asked for (messages)
                # messages of exceptions / warnings / logs may show a container as it is
                pm = parent_map(fi.node)
                q = pm.get(b)
                in_msg = False
                while q is not None and not isinstance(q, ast.stmt):
                    if isinstance(q, ast.Call) and (call_name(q).endswith("Error") or call_name(q).endswith("Exception") or call_name(q) in ("warn", "info", "debug", "warning", "error", "_nexus_error", "_data_parse_error") or "message" in call_name(q) or "warn" in call_name(q) or "log" in call_name(q).lower()):
                        in_msg = True
                    q = pm.get(q)
                if in_msg or isinstance(q, ast.Raise) or (isinstance(q, ast.Expr) and isinstance(q.value, ast.Call) and call_name(q.value) in ("warn", "info", "debug", "warning", "error", "write_to_stderr")):
                    continue
                for a in args:
                    if isinstance(a, ast.Name) and a.id in conts:
                        rep.check(False, rid, fi.qualname, "container `%s` formatted as text" % a.id, fn_where(fi, b), "",
                                  "%s puts `%s` - bound only to %s and filled in place - into the template %r as it is: what is written is the Python repr of the container (braces, quotes, commas; arbitrary order for a set), not the items" % (fi.qualname, a.id, "/".join(sorted({type(v).__name__ if not isinstance(v, ast.Call) else v.func.id + "()" for v in binds[a.id]})), tmpl[:30]))
    return n


def template_style_rule(index, rep, rid, modules):
    """a template is filled in the style it is written in: a constant with %-placeholders and no braces handed to
    .format() comes out with the placeholders still in it (and the data dropped); a brace template under the %
    operator raises TypeError."""
    import re as _re
    pc = _re.compile(r"%(?:\([^)]*\))?[-#0 +]*\d*(?:\.\d+)?[sdrfgix]")
    n = 0
    for m in modules:
        for f in index.functions_in_module(m):
            for x in ast.walk(f.node):
                if isinstance(x, ast.Call) and isinstance(x.func, ast.Attribute) and x.func.attr == "format" and isinstance(x.func.value, ast.Constant) and isinstance(x.func.value.value, str):
                    n += 1
                    t = x.func.value.value
                    bad = "{" not in t and pc.search(t.replace("%%", "")) is not None and (x.args or x.keywords)
                    rep.check(not bad, rid, f.qualname, "%%-template filled with .format(): %r" % t[:40], fn_where(f, x), "",
                              "%s calls .format() on `%s`, which has %%-placeholders and no braces: the text comes out with the placeholder still in it and the value is dropped, so the message names nothing" % (f.qualname, t[:60]))
                elif isinstance(x, ast.BinOp) and isinstance(x.op, ast.Mod) and isinstance(x.left, ast.Constant) and isinstance(x.left.value, str):
                    n += 1
                    t = x.left.value
                    bad = pc.search(t.replace("%%", "")) is None and "{}" in t
                    rep.check(not bad, rid, f.qualname, "brace template under the %% operator: %r" % t[:40], fn_where(f, x), "",
                              "%s applies %% to `%s`, which has no %%-placeholder: the operation raises TypeError (not all arguments converted) instead of producing the text" % (f.qualname, t[:60]))
    return n


BINARY_DUNDERS = {"__add__", "__sub__", "__or__", "__and__", "__xor__", "__mul__", "__radd__", "__rsub__", "__ror__", "__rand__"}


def binary_operator_rule(index, rep, rid, modules):
    """`a + b` leaves a and b alone: the object a binary operator method returns is built by a constructor (or a deep
    copy / clone), never `self`, an alias of it, or a shallow `copy.copy(self)` that is then filled in place - the
    shallow copy shares the receiver's containers, so the operator would silently grow its left operand."""
    n = 0
    for m in modules:
        for f in index.functions_in_module(m):
            if f.name not in BINARY_DUNDERS or f.cls is None:
                continue
            n += 1
            rets = [r.value for r in walk_no_nested(f.node) if isinstance(r, ast.Return) and r.value is not None]
            bad = None
            for v in rets:
                names = [v.id] if isinstance(v, ast.Name) else []
                if isinstance(v, ast.Name) and v.id == "self":
                    bad = (v, "returns `self`")
                for nm in names:
                    for st in walk_no_nested(f.node):
                        if isinstance(st, ast.Assign) and any(isinstance(t, ast.Name) and t.id == nm for t in st.targets):
                            val = st.value
                            shallow = (isinstance(val, ast.Name) and val.id == "self") or (isinstance(val, ast.Call) and norm(val.func) in ("copy.copy", "copy") and val.args and norm(val.args[0]) == "self") \
                                or (isinstance(val, ast.Call) and isinstance(val.func, ast.Attribute) and val.func.attr == "__copy__" and norm(val.func.value) == "self")
                            if shallow:
                                grown = [x for x in walk_no_nested(f.node) if (isinstance(x, ast.AugAssign) and norm(x.target) == nm) or (isinstance(x, ast.Call) and isinstance(x.func, ast.Attribute) and norm(x.func.value) == nm and x.func.attr in MUTATORS | {"extend", "update"})]
                                if grown or isinstance(val, ast.Name):
                                    bad = (st, "starts from `%s` and fills it in place" % norm(val))
            rep.check(bad is None, rid, f.qualname, "%s works on the receiver's own containers" % f.name, fn_where(f, bad[0] if bad else None), "%s returns a freshly built object" % f.qualname,
                      "%s %s: a shallow copy (or the receiver itself) shares the receiver's lists and sub-objects, so `a + b` appends to `a` as well - after it `a` holds the trees of both operands, and every later sum counts them again" % (f.qualname, bad[1] if bad else ""))
    return n


_KNOWN_ATTRS = {}
_STD_ROOTS = {"os", "sys", "math", "re", "copy", "random", "itertools", "collections", "json", "csv", "warnings", "time", "logging", "textwrap", "subprocess", "tempfile", "shutil",
              "platform", "argparse", "operator", "functools", "io", "string", "inspect", "types", "locale", "codecs", "gzip", "zipfile", "pickle", "struct", "threading",
              "multiprocessing", "queue", "datetime", "decimal", "fractions", "xml", "ElementTree", "ET", "pprint", "traceback", "unittest", "numpy", "np", "scipy", "urllib",
              "socket", "signal", "pkgutil", "importlib", "glob", "fnmatch", "hashlib", "base64", "uuid", "bisect", "heapq", "array", "weakref", "abc", "contextlib", "errno", "stat"}


def _known_attrs(index):
    """every name that can be an attribute of some object the library handles: anything defined or stored under
    src/dendropy (all directories, including those the index does not analyse) plus the attributes of the standard
    types the library uses."""
    r = _KNOWN_ATTRS.get(id(index))
    if r is None:
        import io as _io, collections as _c, re as _re, random as _rnd, csv as _csv, threading as _th, decimal as _dec, fractions as _fr, logging as _lg, argparse as _ap, subprocess as _sp, queue as _q, datetime as _dt, pathlib as _pl
        import xml.etree.ElementTree as _et
        r = set()
        for t in (str, bytes, bytearray, list, dict, set, frozenset, tuple, int, float, complex, bool, range, slice, property, object, type, BaseException, Exception,
                  _io.StringIO, _io.BytesIO, _io.TextIOWrapper, _io.BufferedReader, _c.OrderedDict, _c.defaultdict, _c.deque, _c.Counter, type(_re.compile("")), type(_re.match("", "")),
                  _rnd.Random, _dec.Decimal, _fr.Fraction, _lg.Logger, _lg.Handler, _lg.Formatter, _ap.ArgumentParser, _ap.Namespace, _ap._ArgumentGroup, _sp.Popen, _th.Thread, _th.Event, _th.Lock().__class__,
                  _q.Queue, _et.Element, _et.ElementTree, _dt.datetime, _dt.timedelta, _pl.PurePath, _pl.Path, _csv.DictWriter, _csv.DictReader, type(_csv.reader([])), type(_csv.writer(_io.StringIO())),
                  type(iter([])), type((x for x in [])), type(lambda: 0), type(_io)):
            r |= set(dir(t))
        try:
            import multiprocessing as _mp
            r |= set(dir(_mp.Process)) | set(dir(_mp.queues.Queue))
        except Exception:
            pass
        for dp, dn, fns in os.walk(index.pkgroot):
            for fn in fns:
                if not fn.endswith(".py"):
                    continue
                try:
                    with open(os.path.join(dp, fn), encoding="utf-8") as fh:
                        tr = ast.parse(fh.read())
                except (SyntaxError, UnicodeDecodeError):
                    continue
                for x in ast.walk(tr):
                    if isinstance(x, (ast.FunctionDef, ast.AsyncFunctionDef, ast.ClassDef)):
                        r.add(x.name)
                    elif isinstance(x, ast.Attribute) and isinstance(x.ctx, (ast.Store, ast.Del)):
                        r.add(x.attr)
                    elif isinstance(x, ast.Name) and isinstance(x.ctx, ast.Store):
                        r.add(x.id)
                    elif isinstance(x, ast.Call) and isinstance(x.func, ast.Name) and x.func.id == "setattr" and len(x.args) > 1 and isinstance(x.args[1], ast.Constant):
                        r.add(x.args[1].value)
                    elif isinstance(x, ast.alias):
                        r.add((x.asname or x.name).split(".")[-1])
        _KNOWN_ATTRS[id(index)] = r
    return r


def called_method_exists_rule(index, rep, rid, modules):
    """what is called exists: a method call `obj.name(...)` on an object of the library uses a name that is defined or
    stored somewhere under src/dendropy, or that a standard type has - a name nobody defines is an AttributeError
    waiting for the first input that reaches the call."""
    known = _known_attrs(index)
    n = 0
    for m in modules:
        mod = index.module(m)
        for fi in index.functions_in_module(m):
            for c in calls_in(fi.node, nested=True):
                if not isinstance(c.func, ast.Attribute):
                    continue
                n += 1
                nm = c.func.attr
                if nm in known:
                    continue
                root = norm(c.func.value).split(".")[0].split("(")[0].split("[")[0]
                if root in mod.imports or root in _STD_ROOTS:
                    continue        # a call into an imported module / package
                rep.check(False, rid, fi.qualname, "call of `.%s()`, which nothing defines" % nm, fn_where(fi, c), "",
                          "%s calls `%s`: no class, function or attribute named `%s` exists anywhere under src/dendropy and no standard type has one, so the call raises AttributeError as soon as an input reaches this line" % (fi.qualname, norm(c)[:70], nm))
            # ... and what is read off `self` exists: an attribute of the receiver that nothing under src/dendropy ever
            # defines or stores (and that no getattr / hasattr probes for) fails for every input
            probed = {a.args[1].value for a in ast.walk(fi.node) if isinstance(a, ast.Call) and isinstance(a.func, ast.Name) and a.func.id in ("hasattr", "getattr") and len(a.args) > 1 and isinstance(a.args[1], ast.Constant)}
            in_try = set()
            for t in ast.walk(fi.node):
                if isinstance(t, ast.Try) and any(h.type is None or "AttributeError" in norm(h.type) or norm(h.type) in ("Exception", "BaseException") for h in t.handlers):
                    in_try |= {id(y) for st in t.body for y in ast.walk(st)}
            dynamic = False
            if fi.cls is not None:
                for c_ in index.mro(fi.cls):
                    if "__getattr__" in c_.methods or "__getattribute__" in c_.methods:
                        dynamic = True
                    for mf_ in c_.methods.values():
                        for a in ast.walk(mf_.node):
                            if isinstance(a, ast.Call) and isinstance(a.func, ast.Name) and a.func.id == "setattr" and len(a.args) > 1 and not isinstance(a.args[1], ast.Constant):
                                dynamic = True      # attributes under computed names (the alphabets' per-symbol attributes)
            for x in ast.walk(fi.node):
                if dynamic:
                    break
                if isinstance(x, ast.Attribute) and isinstance(x.ctx, ast.Load) and isinstance(x.value, ast.Name) and x.value.id == "self" and fi.cls is not None:
                    n += 1
                    if x.attr in known or x.attr in probed or id(x) in in_try or x.attr.startswith("__"):
                        continue
                    rep.check(False, rid, fi.qualname, "read of `self.%s`, which nothing defines" % x.attr, fn_where(fi, x), "",
                              "%s reads `self.%s`: nothing under src/dendropy defines or stores an attribute of that name, so every call of this method fails with AttributeError (a leftover of an older interface)" % (fi.qualname, x.attr))
    return n


_PLAIN_METHODS = {}


def _plain_methods(index):
    """names that are plain methods wherever they are defined in the repository: never a property, a class attribute
    or an instance attribute stored by any function."""
    r = _PLAIN_METHODS.get(id(index))
    if r is None:
        meth, other = set(), set()
        for ci in index.classes.values():
            for name, f in ci.methods.items():
                decs = [norm(d) for d in f.node.decorator_list]
                (other if any("property" in d or "setter" in d or "getter" in d for d in decs) else meth).add(name)
            other |= set(ci.class_attrs)
        for fi in index.functions.values():
            other |= {w.attr for w in writes_in(fi.node) if w.kind == "store"}
        r = _PLAIN_METHODS[id(index)] = meth - other
    return r


def method_tested_rule(index, rep, rid, modules):
    """a method is called, not tested: `if obj.is_something:` on a name that is a plain method everywhere in the
    repository tests the bound method object - always true - instead of its answer."""
    pm = _plain_methods(index)
    n = 0
    for m in modules:
        for fi in index.functions_in_module(m):
            g = cfg_of(fi)
            for t in g.nodes:
                if t.kind == "test" and isinstance(t.ast, ast.Attribute):
                    n += 1
                    if t.ast.attr in pm:
                        rep.check(False, rid, fi.qualname, "method `%s` tested without being called" % t.ast.attr, fn_where(fi, t.stmt), "",
                                  "%s tests `%s` in `%s`: `%s` is a method (not a property), so the test looks at the bound method object, which is always true - the branch is taken whatever the method would have answered" % (fi.qualname, norm(t.ast), norm_stmt(t.stmt)[:60], t.ast.attr))
    return n


_BORROW_CACHE = {}
_BORROW_DEPTH = [0]


def borrow(index, rep, other_prop, rule_ids, as_rid, tier="quick"):
    """Run another property's rules and take over the obligations / findings of the selected rule ids under `as_rid`:
    several properties depend on one mechanism (e.g. the weighted distances on what encode_bipartitions caches)."""
    import importlib
    from ..core import Report
    mod = importlib.import_module("sa.rules.%s" % other_prop.lower())
    ck = (id(index), other_prop)
    if _BORROW_DEPTH[0] > 0:
        # we are inside a lender's run: its own borrowed sections are not what the outer borrower asked for
        # (and two properties may borrow from each other)
        return 10 ** 6
    tmp = _BORROW_CACHE.get(ck)
    if tmp is None:
        tmp = Report(other_prop, index)
        _BORROW_DEPTH[0] += 1
        try:
            mod.run(index, tmp, tier)
        except AnalysisError as e:
            tmp.errors.append(str(e))
        finally:
            _BORROW_DEPTH[0] -= 1
        _BORROW_CACHE[ck] = tmp
    n = 0
    for o in tmp.obligations:
        if o["rule"] in rule_ids:
            o2 = dict(o)
            o2["rule"] = as_rid
            o2["instance"] = "[%s %s] %s" % (other_prop, o["rule"], o["instance"])
            rep.obligations.append(o2)
            n += 1
    from ..core import load_known, match_known
    known = load_known()
    for f in tmp.findings:
        if f["rule"] in rule_ids:
            if match_known(f, known) is not None:
                continue        # an open known finding of the lending property is reported there, once
            f2 = dict(f)
            f2["property"] = rep.prop
            f2["rule"] = as_rid
            f2["message"] = "[shared with %s %s] %s" % (other_prop, f["rule"], f["message"])
            rep.findings.append(f2)
    for e in tmp.errors:
        if any(e.startswith(r) for r in rule_ids):
            rep.errors.append("%s (borrowed from %s): %s" % (as_rid, other_prop, e))
    return n


def reachable_calls(fi, facts):
    """names of the calls on the nodes reachable from the entry when the tests named in `facts`
    ({test text: bool}) take the given outcome (normal edges only)."""
    g = cfg_of(fi)

    def edge_ok(a, lab, b):
        if lab == "e":
            return False
        if a.kind == "test" and norm(a.ast) in facts and lab in ("t", "f"):
            return (lab == "t") == bool(facts[norm(a.ast)])
        return True
    out = set()
    for n in g.reach([g.entry], follow_exc=False, edge_ok=edge_ok):
        for c in node_calls(n):
            out.add(call_name(c))
    return out


ENCODING_ATTRS = {"bipartition_encoding", "_bipartition_encoding", "bipartition", "_bipartition", "leafset_bitmask", "split_bitmask", "tree_leafset_bitmask", "_leafset_bitmask", "_split_bitmask",
                  "_tree_leafset_bitmask", "split_edges", "bipartition_edge_map", "split_bitmask_edge_map", "_split_bitmask_edge_map", "_bipartition_edge_map"}
STRUCT_QUERY_NAMES = {"__len__", "__iter__", "nodes", "leaf_nodes", "internal_nodes", "edges", "leaf_edges", "internal_edges", "length", "calc_node_ages", "calc_node_root_distances", "resolve_node_depths",
                      "resolve_node_ages", "internal_node_ages", "node_ages", "num_lineages_at", "max_distance_from_root", "minmax_leaf_distance_from_root", "coalescence_intervals", "B1",
                      "colless_tree_imbalance", "N_bar", "sackin_index", "pybus_harvey_gamma", "treeness", "child_nodes", "num_child_nodes", "is_leaf", "is_internal", "level", "distance_from_root", "distance_from_tip"}


def structure_query_rule(index, rep, rid):
    """Size, iteration, age and shape queries are decided from the node structure: neither they nor what they call read
    the cached bipartition encoding, which is only current right after an encode (update_bipartitions is optional)."""
    TMD_ = "dendropy.datamodel.treemodel."
    roots = []
    for m in (TMD_ + "_tree", TMD_ + "_node", TMD_ + "_edge"):
        for f in index.functions_in_module(m):
            if f.cls is not None and f.cls.name in ("Tree", "Node", "Edge") and (f.name in STRUCT_QUERY_NAMES or f.name.endswith("_iter")):
                roots.append(f)
    roots += [f for f in index.functions_in_module("dendropy.calculate.treemeasure") if f.cls is None]
    seen = {}
    work = [(f, f, 0) for f in roots]
    while work:
        f, root, d = work.pop()
        if f.qualname in seen:
            continue
        seen[f.qualname] = root
        if d >= 4:
            continue
        for c in calls_in(f.node, nested=True):
            grade, cands = index.resolve_call(c, f)
            if grade in ("self", "static"):
                for k in cands:
                    if hasattr(k, "node") and isinstance(k.node, ast.FunctionDef) and k.module.name.startswith(TMD_[:-1]):
                        work.append((k, root, d + 1))
    n = 0
    for q, root in sorted(seen.items()):
        f = index.functions[q]
        n += 1
        rd = sorted({x.attr for x in ast.walk(f.node) if isinstance(x, ast.Attribute) and x.attr in ENCODING_ATTRS and isinstance(x.ctx, ast.Load)})
        rep.check(not rd, rid, f.qualname, "structure query reads the cached encoding: %s" % rd, fn_where(f), "%s reads no bipartition-encoding attribute" % f.qualname,
                  "%s%s reads `%s`: the bipartition encoding is a cache that is current only right after encode_bipartitions / update_bipartitions, and every restructuring call lets the caller skip the update - so after tips are pruned or added the size / iteration / statistic is answered from the tree as it WAS (N-bar divided by a stale leaf count, a traversal of leaves that are gone)"
                  % (f.qualname, "" if root is f else " (reached from %s)" % root.qualname, ", ".join(rd)))
        if root is f:
            ns = [x for x in ast.walk(f.node) if isinstance(x, ast.Attribute) and x.attr in ("taxon_namespace", "_taxon_namespace") and isinstance(x.ctx, ast.Load)]
            rep.check(not ns, rid, f.qualname, "structure query consults the taxon namespace", fn_where(f, ns[0] if ns else None), "%s does not consult the taxon namespace" % f.qualname,
                      "%s reads `%s`: the namespace is the universe the tree's taxa are drawn from, not the tree - it may hold taxa that are on no leaf (shared namespaces, pruned tips) and a leaf need not carry a taxon at all, so a size or shape answered from it is the wrong number for exactly those trees"
                      % (f.qualname, norm(ns[0]) if ns else ""))
    return n


def override_guard_rule(index, rep, rid, modules):
    """An override that replaces its parent's implementation (does not delegate to it) keeps the parent's refusals:
    every `if <test on a parameter>: raise E` that opens the parent's body has a counterpart raising E in the override."""
    n = 0
    for m in modules:
        mod = index.module(m)
        for ci in [c for c in index.classes.values() if c.module is mod]:
            bases = [b for b in index.mro(ci) if b.qualname != ci.qualname]
            for name, meth in ci.methods.items():
                parent = None
                for b in bases:
                    if name in b.methods:
                        parent = b.methods[name]
                        break
                if parent is None or name in ("__init__", "__deepcopy__", "__copy__"):
                    continue
                guards = []
                derived = {p_ for p_ in parent.params if p_ != "self"}
                for st in parent.node.body:
                    if isinstance(st, ast.Expr) and isinstance(st.value, ast.Constant):
                        continue
                    if isinstance(st, ast.Assign) and isinstance(st.targets[0], ast.Name) and any(isinstance(x, ast.Name) and x.id in derived for x in ast.walk(st.value)):
                        derived.add(st.targets[0].id)
                    if isinstance(st, ast.If) and not st.orelse and st.body and isinstance(st.body[-1], ast.Raise) and st.body[-1].exc is not None and any(isinstance(x, ast.Name) and x.id in derived for x in ast.walk(st.test)):
                        e = st.body[-1].exc
                        guards.append((st, norm(e.func) if isinstance(e, ast.Call) else norm(e)))
                        continue
                    if isinstance(st, ast.Assign):
                        continue
                    break
                if not guards:
                    continue
                delegates = any((isinstance(c.func, ast.Attribute) and c.func.attr == name and (norm(c.func.value).startswith("super(") or norm(c.func.value).split(".")[-1] in {b.name for b in bases})) for c in calls_in(meth.node, nested=True))
                n += 1
                if delegates:
                    rep.ob(rid, fn_where(meth), "%s delegates to %s" % (meth.qualname, parent.qualname), True, nontrivial=False)
                    continue
                raised = {norm(r.exc.func) if isinstance(r.exc, ast.Call) else norm(r.exc) for r in ast.walk(meth.node) if isinstance(r, ast.Raise) and r.exc is not None}
                for st, exc in guards:
                    rep.check(exc in raised, rid, meth.qualname, "override drops the parent's refusal `%s`" % norm(st.test)[:50], fn_where(meth), "%s keeps the refusal %s of %s" % (meth.qualname, exc, parent.qualname),
                              "%s replaces %s without calling it and no longer raises %s where the parent does (`if %s: raise ...`): what the base class refuses - a taxon that is not in the matrix's namespace - this subclass silently accepts, so objects of the subclass break the invariant every other class keeps" % (meth.qualname, parent.qualname, exc, norm(st.test)[:60]))
    return n


def _exc_ancestors(index, cls_name, module):
    """names of all ancestors (repository classes followed through, builtin names kept) of an exception class named cls_name"""
    out = set()
    work = [cls_name.split(".")[-1]]
    while work:
        nm = work.pop()
        if nm in out:
            continue
        out.add(nm)
        for k in index.classes.values():
            if k.name == nm:
                for b in k.node.bases:
                    work.append(norm(b).split(".")[-1])
    BUILTIN = {"KeyError": ["LookupError"], "IndexError": ["LookupError"], "LookupError": ["Exception"], "ValueError": ["Exception"], "TypeError": ["Exception"], "AttributeError": ["Exception"],
               "NotImplementedError": ["RuntimeError"], "RuntimeError": ["Exception"], "StopIteration": ["Exception"], "AssertionError": ["Exception"], "IOError": ["OSError"], "OSError": ["Exception"], "Exception": ["BaseException"]}
    grew = True
    while grew:
        grew = False
        for nm in list(out):
            for b in BUILTIN.get(nm, []):
                if b not in out:
                    out.add(b)
                    grew = True
    return out


def _handler_falls_through(h):
    last = h.body[-1]
    if isinstance(last, (ast.Raise, ast.Return, ast.Continue, ast.Break)):
        return False
    if isinstance(last, ast.Expr) and isinstance(last.value, ast.Call) and norm(last.value.func) in ("sys.exit", "exit", "os._exit", "quit"):
        return False
    return True


def unbound_after_handler_rule(index, rep, rid, modules):
    """what a try block was to produce is not used after a handler let the failure pass: a name bound ONLY inside the
    body of a `try` (nowhere else in the function) and read in the statements that follow the try statement is, on the
    path through a handler that falls through, either unbound (UnboundLocalError - an internal error) or still holds
    the value of an EARLIER pass of the enclosing loop (the previous item is used again). The use belongs in the
    `else:` clause of the try."""
    n = 0
    for m in modules:
        for f in index.functions_in_module(m):
            pm = None
            for t in [x for x in ast.walk(f.node) if isinstance(x, ast.Try)]:
                if not t.handlers or not any(_handler_falls_through(h) for h in t.handlers):
                    continue
                n += 1
                inbody = {id(y) for st in t.body for y in ast.walk(st)}
                bound = {x.id for st in t.body for x in ast.walk(st) if isinstance(x, ast.Name) and isinstance(x.ctx, ast.Store)}
                pm = pm or parent_map(f.node)
                g = cfg_of(f)
                tnodes = [nd for nd in g.nodes if nd.stmt is not None and id(nd.stmt) in inbody]
                # bindings elsewhere count only when they can flow to the code after this try (a binding in the other
                # arm of an enclosing if/else cannot)
                par0 = pm.get(t)
                sibs0 = []
                for fld in ("body", "orelse", "finalbody"):
                    seq = getattr(par0, fld, None)
                    if isinstance(seq, list) and any(t is z for z in seq):
                        sibs0 = seq[[i for i, z in enumerate(seq) if z is t][0] + 1:]
                after_try = {id(nd) for nd in g.nodes if nd.stmt is not None and any(nd.stmt is y for ss in sibs0 for y in ast.walk(ss))}
                elsewhere = set()
                for x in ast.walk(f.node):
                    if isinstance(x, ast.Name) and isinstance(x.ctx, ast.Store) and id(x) not in inbody and x.id in bound:
                        st_ = x
                        while st_ in pm and not isinstance(st_, ast.stmt):
                            st_ = pm[st_]
                        sn = [nd for nd in g.nodes if nd.stmt is st_]
                        if not sn or any(id(z) in after_try for z in g.reach(sn[:1], follow_exc=False)):
                            elsewhere.add(x.id)
                only = bound - elsewhere - set(f.all_params)
                if not only:
                    continue
                par = pm.get(t)
                sibs = None
                for fld in ("body", "orelse", "finalbody"):
                    seq = getattr(par, fld, None)
                    if isinstance(seq, list) and any(t is z for z in seq):
                        sibs = seq[[i for i, z in enumerate(seq) if z is t][0] + 1:]
                if sibs is None:
                    continue
                for st in sibs:
                    used = [x for x in ast.walk(st) if isinstance(x, ast.Name) and isinstance(x.ctx, ast.Load) and x.id in only]
                    if used:
                        rep.check(False, rid, f.qualname, "a value of the try block used after a handler that falls through", fn_where(f, used[0]), "",
                                  "%s binds `%s` only inside the `try` at line %d, has a handler that falls through, and reads it afterwards (`%s`): when the handler was taken the name is unbound - UnboundLocalError, an internal error - or, inside a loop, still holds the PREVIOUS item, which is then used a second time (a non-numeric token in a continuous PHYLIP row read with ignore_invalid_chars repeats the value before it: one column more than NCHAR)" % (f.qualname, used[0].id, t.lineno, norm_stmt(st)[:60]))
                        break
    return n


def swallowed_error_rule(index, rep, rid, modules):
    """A handler that swallows (its body is pass / continue) and names a BROADER class must not be able to catch one of
    the library's own error classes raised inside the block it guards - directly or in a callee: the documented refusal
    would vanish.  (A handler that names exactly the class raised is deliberate control flow.)"""
    n = 0
    for m in modules:
        for f in index.functions_in_module(m):
            for t in walk_no_nested(f.node):
                if not isinstance(t, ast.Try):
                    continue
                for h in t.handlers:
                    if not all(isinstance(x, (ast.Pass, ast.Continue)) or (isinstance(x, ast.Expr) and isinstance(x.value, ast.Constant)) for x in h.body):
                        continue
                    if h.type is None:
                        caught = {"BaseException"}
                    else:
                        caught = {norm(e).split(".")[-1] for e in (h.type.elts if isinstance(h.type, ast.Tuple) else [h.type])}
                    n += 1
                    raised = []
                    seen = set()
                    work = [(st, f, 0) for st in t.body]
                    while work:
                        node, ctx, d = work.pop()
                        for x in (walk_no_nested(node) if not isinstance(node, ast.FunctionDef) else walk_no_nested(node, include_self=False)):
                            if isinstance(x, ast.Raise) and x.exc is not None:
                                nm = norm(x.exc.func) if isinstance(x.exc, ast.Call) else norm(x.exc)
                                raised.append((nm.split(".")[-1], x, ctx))
                            elif isinstance(x, ast.Call) and d < 2:
                                grade, cands = index.resolve_call(x, ctx)
                                if grade in ("self", "static"):
                                    for k in cands:
                                        if hasattr(k, "node") and isinstance(k.node, ast.FunctionDef) and k.qualname not in seen:
                                            seen.add(k.qualname)
                                            work.append((k.node, k, d + 1))
                    for nm, r, ctx in raised:
                        if not any(k.name == nm for k in index.classes.values()):
                            continue        # not one of the library's own classes
                        anc = _exc_ancestors(index, nm, None)
                        hit = (caught & anc) - {nm}       # a handler that names the very class raised is deliberate control flow
                        rep.check(not hit, rid, f.qualname, "`except %s: pass` swallows %s" % ("/".join(sorted(caught)), nm), fn_where(f, h), "",
                                  "%s guards a block with `except %s` whose body only passes, and that block can raise the library's own %s (in %s), which is a %s: the error a caller is documented to get - e.g. the refusal to delete the seed node - is silently dropped and the operation carries on as if nothing had happened (a filter that rejects every leaf then never terminates)" % (f.qualname, "/".join(sorted(caught)), nm, ctx.qualname, "/".join(sorted(hit))))
    return n


def stale_snapshot_rule(index, rep, rid, modules):
    """`x = self.a` ... `self.a = <something else>` ... use of `x`: after the attribute has been rebound the local still
    names the OLD object; reading it (other than to put it back) uses the wrong one of two similar things."""
    n = 0
    for m in modules:
        for f in index.functions_in_module(m):
            snaps = [a for a in walk_no_nested(f.node) if isinstance(a, ast.Assign) and len(a.targets) == 1 and isinstance(a.targets[0], ast.Name)
                     and isinstance(a.value, ast.Attribute) and isinstance(a.value.value, ast.Name) and a.value.value.id == "self"]
            if not snaps:
                continue
            g = None
            for a in snaps:
                x, attr = a.targets[0].id, a.value.attr
                rebinds = [b for b in walk_no_nested(f.node) if isinstance(b, ast.Assign) and any(isinstance(t, ast.Attribute) and t.attr == attr and isinstance(t.value, ast.Name) and t.value.id == "self" for t in b.targets)
                           and not (isinstance(b.value, ast.Name) and b.value.id == x) and not isinstance(b.value, ast.Constant)]      # clearing (= None) keeps the old value on purpose
                if not rebinds:
                    continue
                g = g or cfg_of(f)
                n += 1
                redefs = {id(s_) for s_ in walk_no_nested(f.node) if isinstance(s_, (ast.Assign, ast.AugAssign, ast.For)) and any(isinstance(t, ast.Name) and t.id == x and isinstance(t.ctx, ast.Store) for t in ast.walk(s_.targets[0] if isinstance(s_, ast.Assign) else s_.target))}
                snap_nodes = {nd.id for nd in g.nodes_of_stmt(a)}
                for b in rebinds:
                    starts = [t for nd in g.nodes_of_stmt(b) for lab, t in nd.succ if lab != "e"]
                    # can the snapshot statement run before this rebinding at all?
                    if not any(g.can_reach(sn, lambda y, b=b: y.stmt is b, follow_exc=False) for sn in g.nodes_of_stmt(a)):
                        continue
                    reach = g.reach(starts, avoid=lambda y: y.stmt is not None and id(y.stmt) in redefs and y.stmt is not b, follow_exc=False)
                    bad = None
                    for nd in reach:
                        if nd.stmt is b or nd.id in snap_nodes:
                            continue
                        for e in node_exprs(nd):
                            for z in walk_no_nested(e):
                                if isinstance(z, ast.Name) and z.id == x and isinstance(z.ctx, ast.Load):
                                    # putting the old value back is the save/restore idiom
                                    if isinstance(nd.ast, ast.Assign) and isinstance(nd.ast.value, ast.Name) and nd.ast.value.id == x and any(isinstance(t, ast.Attribute) and t.attr == attr for t in nd.ast.targets):
                                        continue
                                    if isinstance(nd.ast, ast.Return) and isinstance(nd.ast.value, ast.Name):
                                        continue        # replace-and-return-the-previous
                                    bad = bad or nd
                    rep.check(bad is None, rid, f.qualname, "`%s` (snapshot of self.%s) read after self.%s was rebound" % ("$snap", attr, attr), fn_where(f, bad.stmt if bad else b), "",
                              "%s takes `%s = self.%s`, later rebinds self.%s (`%s`) and afterwards still reads `%s` (`%s`): on the paths where the attribute was replaced - a root unifurcation suppressed, a new seed node installed - the local names the discarded object, so what is computed from it (the tree's leaf set, the rooting) belongs to the old one" % (f.qualname, x, attr, attr, norm_stmt(b)[:50], x, norm_stmt(bad.stmt)[:60] if bad else ""))
    return n


_MATERIALISERS = {"set", "list", "tuple", "sorted", "frozenset", "dict"}


def one_pass_iterable_rule(index, rep, rid, functions, param_names):
    """A collection argument that callers may pass as ANY iterable (a generator, filter(), map()) is walked at most once:
    it is not iterated, materialised or membership-tested in a repeated context (inside a loop, a comprehension's
    filter/element, a lambda or nested function) unless it was first rebound to a container built from itself."""
    n = 0
    for f in functions:
        pm = None
        for p_ in [x for x in f.params if x in param_names]:
            n += 1
            pm = pm or parent_map(f.node)
            # where is it rebound to a materialised copy?  (p = set(p))
            mat_stmts = [a for a in walk_no_nested(f.node) if isinstance(a, ast.Assign) and any(isinstance(t, ast.Name) and t.id == p_ for t in a.targets) and isinstance(a.value, ast.Call)
                         and ((isinstance(a.value.func, ast.Name) and a.value.func.id in _MATERIALISERS) or call_name(a.value) in ("get_taxa",))]
            mat_line = min([a.lineno for a in mat_stmts], default=None)
            bad = None
            g0 = cfg_of(f)
            rebind0 = {id(a) for a in walk_no_nested(f.node) if isinstance(a, ast.Assign) and any(isinstance(t, ast.Name) and t.id == p_ for t in a.targets)}
            raw0 = {nd.id for nd in g0.reach([g0.entry], avoid=lambda nd: nd.stmt is not None and id(nd.stmt) in rebind0, follow_exc=False)}
            for x in ast.walk(f.node):
                if not (isinstance(x, ast.Name) and x.id == p_ and isinstance(x.ctx, ast.Load)):
                    continue
                # flow-sensitive: a use counts only where the caller's own object can still arrive (not behind a rebinding on every path)
                ndx = node_of_ast(g0, x)
                if ndx is not None and ndx.id not in raw0 and not (ndx.stmt is not None and id(ndx.stmt) in rebind0):
                    continue
                if ndx is not None and ndx.stmt is not None and id(ndx.stmt) in rebind0:
                    continue        # the rebinding statement itself reads it once
                par = pm.get(x)
                if isinstance(par, ast.Compare) and all(isinstance(o, (ast.Is, ast.IsNot)) for o in par.ops):
                    continue
                if isinstance(par, ast.Call) and isinstance(par.func, ast.Name) and par.func.id in ("isinstance", "id", "type", "hasattr", "len") and x in par.args:
                    continue
                if isinstance(par, ast.Subscript) and par.value is x:
                    continue
                if isinstance(par, (ast.keyword,)) or (isinstance(par, ast.Call) and x in par.args and not (isinstance(par.func, ast.Name) and par.func.id in _MATERIALISERS)):
                    # handed on whole to another function: that function's business (checked there if it is in scope)
                    rep_ctx = False
                    q = par
                    while q is not None and q is not f.node:
                        if isinstance(q, (ast.Lambda, ast.FunctionDef)) or (isinstance(q, (ast.For, ast.While)) and not any(x is y for y in ast.walk(q.iter if isinstance(q, ast.For) else q.test))):
                            rep_ctx = True
                        q = pm.get(q)
                    if not rep_ctx:
                        continue
                rep_ctx = False
                q = par
                first_iter_of = None
                while q is not None and q is not f.node:
                    if isinstance(q, ast.For):
                        if any(x is y for y in ast.walk(q.iter)):
                            pass        # the loop's own iterable: evaluated once
                        else:
                            rep_ctx = True
                    elif isinstance(q, ast.While):
                        rep_ctx = True
                    elif isinstance(q, (ast.Lambda, ast.FunctionDef, ast.AsyncFunctionDef)):
                        rep_ctx = True
                    elif isinstance(q, (ast.ListComp, ast.SetComp, ast.GeneratorExp, ast.DictComp)):
                        if not any(x is y for y in ast.walk(q.generators[0].iter)):
                            rep_ctx = True
                    q = pm.get(q)
                if rep_ctx:
                    bad = bad or x
            if bad is None:
                # walked once and then used again (iterated a second time, stored, handed on) on the same path
                g = cfg_of(f)
                rebind = {id(a) for a in walk_no_nested(f.node) if isinstance(a, ast.Assign) and any(isinstance(t, ast.Name) and t.id == p_ for t in a.targets)}
                cons = []
                raw = {x.id for x in g.reach([g.entry], avoid=lambda x: x.stmt is not None and id(x.stmt) in rebind, follow_exc=False)}
                for nd in g.nodes:
                    if nd.id not in raw:
                        continue        # only reachable after the parameter was rebound: no longer the caller's iterable
                    if nd.stmt is not None and id(nd.stmt) in rebind:
                        continue
                    uses = False
                    if nd.kind == "forinit" and any(isinstance(x, ast.Name) and x.id == p_ for x in ast.walk(nd.ast)):
                        uses = True
                    elif nd.kind == "stmt":
                        for x in walk_no_nested(nd.ast):
                            if isinstance(x, ast.Name) and x.id == p_ and isinstance(x.ctx, ast.Load):
                                par = pm.get(x)
                                if isinstance(par, ast.Compare) and all(isinstance(o, (ast.Is, ast.IsNot)) for o in par.ops):
                                    continue
                                if isinstance(par, ast.Call) and isinstance(par.func, ast.Name) and par.func.id in ("isinstance", "id", "type", "hasattr", "len") and x in par.args:
                                    continue
                                if isinstance(par, ast.Subscript) and par.value is x:
                                    continue
                                uses = True
                    if uses:
                        cons.append(nd)
                for a_ in cons:
                    if a_.kind != "forinit" and not any(isinstance(c, ast.comprehension) for c in ast.walk(a_.ast)) and not any(isinstance(c, ast.Call) and isinstance(c.func, ast.Name) and c.func.id in _MATERIALISERS for c in ast.walk(a_.ast)):
                        continue        # the first use must be a walk
                    for b_ in cons:
                        if b_ is a_:
                            continue
                        if g.can_reach(a_, lambda x, b_=b_: x is b_, avoid=lambda x: x.stmt is not None and id(x.stmt) in rebind, follow_exc=False) is not None:
                            bad = bad or [x for x in ast.walk(b_.ast) if isinstance(x, ast.Name) and x.id == p_][0]
            rep.check(bad is None, rid, f.qualname, "iterable argument `%s` walked repeatedly" % p_, fn_where(f, bad if bad is not None else f.node), "%s walks `%s` once (or materialises it first)" % (f.qualname, p_),
                      "%s uses its argument `%s` in a repeated context (`%s`) without first turning it into a container: the documentation admits any iterable, and a generator / filter() / map() is empty after the first pass - asked to keep A, C and E the operation then keeps A only (or extracts a single leaf), while the same call with a list is right" % (f.qualname, p_, norm(pm.get(bad))[:60] if bad is not None else ""))
    return n


def exception_ctor_rule(index, rep, rid, modules):
    """Every construction of one of the library's own error classes passes arguments its constructor accepts: the
    __init__ found along the class's MRO (inside the repository) has a parameter for each keyword (or **kwargs) and
    room for the positional arguments - otherwise raising the documented error dies with a TypeError instead."""
    n = 0
    by_name = {}
    for k in index.classes.values():
        by_name.setdefault(k.name, []).append(k)
    for m in modules:
        for f in index.functions_in_module(m):
            for c in calls_in(f.node, nested=True):
                nm = call_name(c)
                ks = by_name.get(nm, [])
                if len(ks) != 1 or not (isinstance(c.func, ast.Name) or (isinstance(c.func, ast.Attribute) and not norm(c.func.value).startswith("self"))):
                    continue
                k = ks[0]
                if "Exception" not in _exc_ancestors(index, k.name, None) and "BaseException" not in _exc_ancestors(index, k.name, None):
                    continue
                init = None
                for b in index.mro(k):
                    if "__init__" in b.methods:
                        init = b.methods["__init__"]
                        break
                if init is None:
                    continue        # the builtin constructor takes anything positional
                a = init.node.args
                names = [x.arg for x in a.posonlyargs + a.args][1:] + [x.arg for x in a.kwonlyargs]
                n += 1
                if any(isinstance(x, ast.Starred) for x in c.args) or any(kw.arg is None for kw in c.keywords):
                    continue
                badkw = [kw.arg for kw in c.keywords if kw.arg not in names and a.kwarg is None]
                toomany = len(c.args) > len(a.posonlyargs + a.args) - 1 and a.vararg is None
                required = [x.arg for x in (a.posonlyargs + a.args)[1:len(a.posonlyargs + a.args) - len(a.defaults)]]
                missing = [r for i, r in enumerate(required) if i >= len(c.args) and r not in {kw.arg for kw in c.keywords}]
                rep.check(not badkw and not toomany and not missing, rid, f.qualname, "%s(...) does not fit %s" % (k.name, init.qualname.split(".")[-2] + ".__init__"), fn_where(f, c), "",
                          "%s builds `%s`, but the constructor in effect for %s is %s%s: %s - raising the documented parse error then itself fails with a TypeError, which is what the caller sees" % (
                              f.qualname, norm(c)[:70], k.name, init.qualname, "(" + ", ".join(names) + ")",
                              "; ".join(x for x in ["it has no parameter %s" % badkw if badkw else "", "too many positional arguments" if toomany else "", "required %s not given" % missing if missing else ""] if x)))
    return n


def unraised_exception_rule(index, rep, rid, modules):
    """an error that is built is raised: an expression statement that only constructs an exception (`TypeError(...)`
    on a line of its own) refuses nothing - the condition it was meant to reject goes through silently."""
    n = 0
    for m in modules:
        for f in index.functions_in_module(m):
            for st in walk_no_nested(f.node):
                if isinstance(st, ast.Expr) and isinstance(st.value, ast.Call):
                    nm = call_name(st.value)
                    if not nm or not (nm.endswith("Error") or nm.endswith("Exception") or nm == "Warning"):
                        continue
                    if isinstance(st.value.func, ast.Attribute) and nm in ("_nexus_error", "_data_parse_error"):
                        continue
                    n += 1
                    builtin_exc = nm in dir(__builtins__) if not isinstance(__builtins__, dict) else nm in __builtins__
                    repo_exc = any(k.name == nm for k in index.classes.values())
                    if not (builtin_exc or repo_exc):
                        continue
                    rep.check(False, rid, f.qualname, "`%s(...)` built and dropped" % nm, fn_where(f, st), "",
                              "%s has the statement `%s`: the exception object is created and thrown away - there is no `raise` - so the condition it was written for (an unrecognised option, an invalid value) is accepted silently" % (f.qualname, norm(st.value)[:70]))
    return n


def self_call_binds_rule(index, rep, rid, modules):
    """a call of one's own method can bind its arguments: `self.m(...)`, resolved to the single method m in effect,
    gives no parameter two values (`self.m(self, x=...)` hands the receiver in twice), names only keywords the
    method has, and supplies what is required - otherwise the call is a TypeError for every input that reaches it."""
    n = 0
    for m in modules:
        for f in index.functions_in_module(m):
            for c in calls_in(f.node, nested=True):
                own = isinstance(c.func, ast.Attribute) and norm(c.func.value) == "self"
                if not own and not isinstance(c.func, (ast.Name, ast.Attribute)):
                    continue
                grade, cands = index.resolve_call(c, f)
                cs = [x for x in cands if hasattr(x, "node") and isinstance(x.node, ast.FunctionDef)]
                if len(cs) != 1 or not ((own and grade == "self") or (not own and grade == "static" and cs[0].cls is None)):
                    continue        # own methods, and module-level functions resolved statically (Class.method(self, ...) calls pass the receiver explicitly and are not bound here)
                k = cs[0]
                if any(isinstance(x, ast.Starred) for x in c.args) or any(kw.arg is None for kw in c.keywords):
                    continue
                decs = [norm(d) for d in k.node.decorator_list]
                if any("property" in d for d in decs):
                    continue
                a = k.node.args
                pos = [x.arg for x in a.posonlyargs + a.args]
                if k.cls is not None and not any("staticmethod" in d for d in decs):
                    pos = pos[1:]
                n += 1
                names = pos + [x.arg for x in a.kwonlyargs]
                badkw = [kw.arg for kw in c.keywords if kw.arg not in names and a.kwarg is None]
                toomany = len(c.args) > len(pos) and a.vararg is None
                dup = [kw.arg for kw in c.keywords if kw.arg in pos[:len(c.args)]]
                nreq = max(len(pos) - len(a.defaults), 0)
                missing = [r for i, r in enumerate(pos[:nreq]) if i >= len(c.args) and r not in {kw.arg for kw in c.keywords}]
                why = "; ".join(x for x in ["`%s` gets two values (positionally and by keyword)" % dup[0] if dup else "", "no parameter %s" % badkw if badkw else "", "too many positional arguments" if toomany else "", "required %s not given" % missing if missing else ""] if x)
                rep.check(not (badkw or toomany or dup or missing), rid, f.qualname, "`%s` cannot bind its arguments" % norm(c.func), fn_where(f, c), "",
                          "%s calls `%s`, which resolves to %s(%s): %s - the call raises TypeError whenever it is reached" % (f.qualname, norm(c)[:70], k.qualname, ", ".join(names), why))
    return n


def star_args_collision_rule(index, rep, rid, modules):
    """positional arguments handed on with `*args` have somewhere to go: a call `f(name=value, *args)` whose callee
    (resolved) takes `name` as its FIRST positional parameter gives that parameter two values as soon as args is not
    empty - although the callee is written to accept further positionals."""
    n = 0
    for m in modules:
        for f in index.functions_in_module(m):
            for c in calls_in(f.node, nested=True):
                if not any(isinstance(x, ast.Starred) for x in c.args) or not any(k.arg for k in c.keywords):
                    continue
                grade, cands = index.resolve_call(c, f)
                cs = [x for x in cands if hasattr(x, "node") and isinstance(x.node, ast.FunctionDef)]
                if len(cs) != 1 or grade not in ("static", "self"):
                    continue
                k = cs[0]
                a = k.node.args
                pos = [x.arg for x in a.posonlyargs + a.args]
                if k.cls is not None and not any("staticmethod" in norm(d) for d in k.node.decorator_list):
                    pos = pos[1:]
                n += 1
                lead = len([x for x in c.args if not isinstance(x, ast.Starred)])
                takes_more = a.vararg is not None or len(pos) > lead + 1
                hit = [kw.arg for kw in c.keywords if kw.arg and lead < len(pos) and kw.arg == pos[lead]]
                rep.check(not (hit and takes_more), rid, f.qualname, "`%s=` together with *args" % (hit[0] if hit else ""), fn_where(f, c), "",
                          "%s calls `%s`: `%s` is the first positional parameter of %s, so the first element of *args lands on it as well - any call that passes a positional argument through fails with TypeError: got multiple values for argument '%s'" % (f.qualname, norm(c)[:70], hit[0] if hit else "", k.qualname, hit[0] if hit else ""))
    return n


def _kw_reads(f, kw):
    """keys of the **kw dict that f reads: ({key: 'get' | 'pop' | 'index'})"""
    out = {}
    for x in ast.walk(f.node):
        if isinstance(x, ast.Call) and isinstance(x.func, ast.Attribute) and isinstance(x.func.value, ast.Name) and x.func.value.id == kw and x.func.attr in ("get", "pop") and x.args and isinstance(x.args[0], ast.Constant):
            out.setdefault(x.args[0].value, x.func.attr)
            if x.func.attr == "pop":
                out[x.args[0].value] = "pop"
        elif isinstance(x, ast.Subscript) and isinstance(x.value, ast.Name) and x.value.id == kw and isinstance(x.slice, ast.Constant):
            out.setdefault(x.slice.value, "index")
    return out


def kwargs_read_then_forwarded_rule(index, rep, rid, modules):
    """an option a function takes for itself out of **kwargs is taken OUT: a key that is only looked at
    (`kwargs.get("k")`) while the whole dict is then forwarded (`g(**kwargs)`) travels on to callees; when the chain of
    own-method forwarders ends in a function without **kwargs that has no parameter `k`, every call that uses the
    option dies with TypeError: unexpected keyword argument."""
    n = 0
    for m in modules:
        for f in index.functions_in_module(m):
            if f.node.args.kwarg is None:
                continue
            kw = f.node.args.kwarg.arg
            reads = {k: how for k, how in _kw_reads(f, kw).items() if how == "get"}
            if not reads:
                continue
            fwd = [c for c in calls_in(f.node) if any(k.arg is None and norm(k.value) == kw for k in c.keywords)]
            for c in fwd:
                # follow the chain of forwarders
                cur, curc, depth, accepted, closed = f, c, 0, set(), None
                while depth < 4:
                    grade, cands = index.resolve_call(curc, cur)
                    cs = [x for x in cands if hasattr(x, "node") and isinstance(x.node, ast.FunctionDef)]
                    if len(cs) != 1 or grade not in ("self", "static"):
                        break
                    g = cs[0]
                    accepted |= {p_ for p_ in g.all_params}
                    if g.node.args.kwarg is None:
                        closed = g
                        break
                    gkw = g.node.args.kwarg.arg
                    accepted |= set(_kw_reads(g, gkw))
                    nxt = [c2 for c2 in calls_in(g.node) if any(k.arg is None and norm(k.value) == gkw for k in c2.keywords)]
                    if len(nxt) != 1:
                        break
                    cur, curc, depth = g, nxt[0], depth + 1
                if closed is None:
                    continue
                n += 1
                bad = sorted(k for k in reads if k not in accepted)
                rep.check(not bad, rid, f.qualname, "option %s read from **%s and forwarded to %s" % (bad, kw, closed.name), fn_where(f, c), "",
                          "%s looks at %s with `%s.get(...)` and then forwards the whole dictionary (`%s`): the keys stay in it, and the chain of calls ends in %s, which takes neither **kwargs nor a parameter of that name - every call that passes the option fails with TypeError: unexpected keyword argument; the option has to be popped" % (f.qualname, bad, kw, norm(c)[:50], closed.qualname))
    return n


SIZED_BY_NAME = {"taxon_namespace": "TaxonNamespace", "tree_list": "TreeList", "char_matrix": "CharacterMatrix", "tree_array": "TreeArray"}


def found_or_empty_rule(index, rep, rid, modules):
    """'Not found' is None, not empty: a value looked up with <map>.get(...) that holds one of the library's sized
    collections (a namespace, a tree list, a matrix - all define __len__) is tested with `is None`; by truthiness an
    EMPTY collection is mistaken for a missing one."""
    n = 0
    for m in modules:
        for f in index.functions_in_module(m):
            looked = {}
            for a in walk_no_nested(f.node):
                if isinstance(a, ast.Assign) and len(a.targets) == 1 and isinstance(a.targets[0], ast.Name) and isinstance(a.value, ast.Call) and call_name(a.value) == "get" and isinstance(a.value.func, ast.Attribute) \
                        and a.targets[0].id.lstrip("_") in SIZED_BY_NAME:
                    k = [c for c in index.classes.values() if c.name == SIZED_BY_NAME[a.targets[0].id.lstrip("_")]]
                    if k and any("__len__" in b.methods for b in index.mro(k[0])):
                        looked[a.targets[0].id] = a
            if not looked:
                continue
            g = cfg_of(f)
            for t in g.nodes:
                if t.kind == "test" and isinstance(t.ast, ast.Name) and t.ast.id in looked:
                    n += 1
                    rep.check(False, rid, f.qualname, "looked-up %s tested by truthiness" % SIZED_BY_NAME[t.ast.id.lstrip("_")], fn_where(f, t.stmt), "",
                              "%s fetches `%s` with `%s` and then tests it by truthiness: a %s defines __len__, so an EMPTY one is falsy and is reported as 'not found' - an empty tree list, or trees that carry no taxa, cannot be read back from the NeXML the library itself wrote" % (f.qualname, t.ast.id, norm(looked[t.ast.id].value)[:50], SIZED_BY_NAME[t.ast.id.lstrip("_")]))
            n += len(looked)
    return n


def bitmask_algebra_rule(index, rep, rid, modules):
    """Bitmasks are sets: they are combined with | & ^ ~ and shifts, never with + - or sum() - addition agrees with
    union only while the operands are disjoint, and a taxon named twice (or two overlapping groups) breaks that.
    `x - 1` / `x + 1` with the constant 1 (lowest-bit tricks) is bit arithmetic and allowed."""
    def isbm(e):
        if isinstance(e, ast.Name):
            return e.id.endswith("bitmask") or e.id.endswith("_mask")
        if isinstance(e, ast.Attribute):
            return e.attr.endswith("bitmask") or e.attr.endswith("_mask")
        if isinstance(e, ast.Call):
            return call_name(e).endswith("bitmask")
        return False

    def one(e):
        return isinstance(e, ast.Constant) and e.value == 1
    n = 0
    for m in modules:
        for fi in index.functions_in_module(m):
            for x in walk_no_nested(fi.node):
                bad = None
                if isinstance(x, ast.BinOp) and (isbm(x.left) or isbm(x.right)):
                    n += 1
                    if isinstance(x.op, (ast.Add, ast.Sub, ast.Mult)) and not one(x.left) and not one(x.right):
                        bad = norm(x)
                elif isinstance(x, ast.AugAssign) and (isbm(x.target) or isbm(x.value)):
                    n += 1
                    if isinstance(x.op, (ast.Add, ast.Sub, ast.Mult)) and not one(x.value):
                        bad = norm_stmt(x)
                elif isinstance(x, ast.Call) and call_name(x) == "sum" and x.args:
                    a = x.args[0]
                    elt = a.elt if isinstance(a, (ast.GeneratorExp, ast.ListComp, ast.SetComp)) else a
                    if isbm(elt) or (isinstance(a, (ast.Name, ast.Attribute)) and norm(a).endswith("bitmasks")):
                        n += 1
                        bad = norm(x)
                if bad is not None:
                    rep.check(False, rid, fi.qualname, "bitmasks combined arithmetically: `%s`" % bad[:60], fn_where(fi, x), "",
                              "%s computes `%s`: a bitmask is a set of taxa and is combined with | (union), & and ^; addition gives the union only while no bit occurs twice, so a taxon named twice - or two groups that overlap - carries into the neighbouring taxon's bit and the mask describes a different set of taxa" % (fi.qualname, bad[:80]))
    return n


def parent_deref_rule(index, rep, rid, modules):
    """a parent is dereferenced only where it is known to exist: `<x>._parent_node.<member>` / `.parent_node.` /
    `.tail_node.` is dominated by a test that mentions that parent expression - for the seed node of a tree (in
    particular of a single-node tree) the parent is None."""
    PAR = ("_parent_node", "parent_node", "tail_node")
    n = 0
    for m in modules:
        for f in index.functions_in_module(m):
            g = None
            for x in walk_no_nested(f.node):
                if not (isinstance(x, ast.Attribute) and isinstance(x.value, ast.Attribute) and x.value.attr in PAR and isinstance(x.ctx, ast.Load)):
                    continue
                g = g or cfg_of(f)
                base = norm(x.value)
                nds = [n_ for n_ in g.nodes if any(x is y for e in node_exprs(n_) for y in ast.walk(e))]
                if not nds:
                    continue
                n += 1
                ok = g.dominated_by(nds[0], lambda n_: n_.kind == "test" and base in norm(n_.ast), follow_exc=False)
                rep.check(ok, rid, f.qualname, "`%s` dereferenced without a test" % base, fn_where(f, x), "%s: `%s` follows a test on `%s`" % (f.qualname, norm(x)[:40], base),
                          "%s evaluates `%s` without ever testing `%s`: for the seed node that is None, so a tree that consists of its seed node alone (or the root of any tree, where the function is reached for it) ends in AttributeError: 'NoneType' object has no attribute '%s' instead of being written / handled" % (f.qualname, norm(x)[:50], base, x.attr))
    return n
