"""C02 Trees survive a write/read round trip through Newick, NEXUS and NeXML."""
import ast
import re

from .common import *  # noqa
from .iotables import *  # noqa

NW = "dendropy.dataio.newickwriter.NewickWriter"
NR = "dendropy.dataio.newickreader.NewickReader"
XW = "dendropy.dataio.nexmlwriter.NexmlWriter"
XR = "dendropy.dataio.nexmlreader"
TREE_WRITERS = ("dendropy.dataio.newickwriter", "dendropy.dataio.nexuswriter", "dendropy.dataio.nexusprocessing", "dendropy.datamodel.taxonmodel")


def protect_rule(index, rep, rid, modules, floor):
    """R02.1 / R09.2: every character that ends or splits an unquoted token is
    in the protect class of every escape call site in `modules`."""
    cfgd, tfi, tcall = tokenizer_config(index)
    esc, default_pat, sites = escape_sites(index)
    breaking = (cfgd["uncaptured_delimiters"] | cfgd["captured_delimiters"] | cfgd["comment_begin"] | cfgd["quote_chars"]) & ALPHABET
    outside = sorted((cfgd["uncaptured_delimiters"] | cfgd["captured_delimiters"]) - ALPHABET)
    if outside:
        rep.note("%s: delimiters outside the property's label alphabet (not required to be protected): %r" % (rid, outside))
    required = breaking - {" "}
    n = 0
    for fi, call, pat, is_default in sites:
        if fi.module.name not in modules:
            continue
        n += 1
        cls = charclass(pat)
        missing = sorted(required - cls)
        rep.check(not missing, rid, fi.qualname, "protect class lacks %s" % "".join(missing), fn_where(fi, call),
                  "%s: protect class %s covers every token-breaking character %s" % (fi.qualname, "(default)" if is_default else repr(pat), "".join(sorted(required))),
                  "%s escapes labels with the protect class %r, which lacks %s: the NEXUS/Newick tokenizer treats these as delimiters / quote / comment start, so a label containing one is written unquoted and re-read as several tokens"
                  % (fi.qualname, pat, ", ".join(repr(m) for m in missing)))
    rep.floor(rid, "escape_nexus_token call sites", floor, n)
    # one label, one rendering: the writer classes pass the same quoting options at every site, so a taxon label
    # is spelled the same in TAXLABELS, TRANSLATE, the tree statements and the MATRIX rows
    opts = {}
    for fi, call, pat, is_default in sites:
        if fi.cls is None or not fi.cls.name.endswith("Writer"):
            continue
        sig = tuple((k, norm(get_kwarg(call, k)) if get_kwarg(call, k) is not None else "<default>") for k in ("preserve_spaces", "quote_underscores"))
        opts.setdefault(sig, []).append((fi, call))
    if opts:
        major = max(opts, key=lambda k: len(opts[k]))
        for sig, where in sorted(opts.items()):
            for fi, call in where:
                if fi.module.name not in modules:
                    continue
                rep.check(sig == major, rid, fi.qualname, "escape options differ from the other writer sites: %s" % ", ".join("%s=%s" % kv for kv in sig), fn_where(fi, call),
                          "%s: escape options %s agree with the other %d writer sites" % (fi.name, ", ".join("%s=%s" % kv for kv in sig), len(opts[major]) - 1),
                          "%s escapes a label with (%s) while the other %d NEXUS/Newick writer sites use (%s): under a non-default writer option the same taxon label is spelled differently in different statements of one file (e.g. bare `A_b` in TAXLABELS, quoted `'A_b'` in MATRIX), so on re-reading the rows/leaves no longer match the declared taxa"
                          % (fi.qualname, ", ".join("%s=%s" % kv for kv in sig), len(opts[major]), ", ".join("%s=%s" % kv for kv in major)))
    return cfgd


_LOSSY = re.compile(r"%[-+ #0]*\d*(?:\.\d+)?[feEgG]|\{[^{}]*:[^{}]*[feEgG%]\}|\{[^{}]*:\.\d+\}")


def lossless_format_rule(index, rep, rid, modules):
    """Numbers are written with a representation that reads back to the same value (str / %s / {}): no
    fixed-precision conversion (%f, %.3g, {:.4f}) and no round() in the writers - the only precision control is
    the user-supplied format specifier of the Newick writer."""
    nfmt = 0
    for m in modules:
        mod = index.module(m)
        for f in index.functions_in_module(m):
            for n in ast.walk(f.node):
                if isinstance(n, ast.Constant) and isinstance(n.value, str) and ("%" in n.value or "{" in n.value):
                    nfmt += 1
                    mt = _LOSSY.search(n.value)
                    rep.check(mt is None, rid, f.qualname, "fixed-precision number format %r" % (mt.group(0) if mt else ""), fn_where(f, n), "%s: format %r keeps full precision" % (f.name, n.value[:30]),
                              "%s formats a number with the fixed-precision conversion %r (in %r): values needing more digits (2.5e-08 -> 0.000000) are written truncated, so the edge length / cell value read back differs from the one written" % (f.qualname, mt.group(0) if mt else "", n.value[:40]))
                elif isinstance(n, ast.Call) and isinstance(n.func, ast.Name) and n.func.id == "round":
                    nfmt += 1
                    rep.check(False, rid, f.qualname, "round() in a writer: %s" % norm(n)[:40], fn_where(f, n), "", "%s rounds a value before writing it (`%s`): the value read back differs from the one in memory" % (f.qualname, norm(n)[:60]))
    return nfmt


def run(index, rep, tier):
    rep.rule("R02.1", "delimiter-table agreement: every printable-ASCII/TAB character that makes the tokenizer end or split an unquoted token (captured + uncaptured delimiters, comment start, quote) is in the protect class of every escape_nexus_token call site; the space/underscore clauses of escape_nexus_token are structurally intact")
    rep.rule("R02.2", "quote convention: the tokenizer un-doubles the quote character the writer doubles")
    rep.rule("R02.3", "rooting/weight tokens the Newick writer can emit are recognised by the reader and every recognised rooting token is interpreted")
    rep.rule("R02.4", "NeXML tree vocabulary: every tag written is looked up by the reader and every data-carrying attribute written for otus/otu/trees/tree/node/edge is read back; value spellings agree")

    # ---- R02.1
    with rep.section("R02.1"):
        cfgd = protect_rule(index, rep, "R02.1", TREE_WRITERS, 14)
        esc = index.function(NP + ".escape_nexus_token")
        ifs = [n for n in esc.node.body if isinstance(n, ast.If)]
        main = [i for i in ifs if "preserve_spaces" in norm(i.test)]
        if not main:
            raise AnalysisError("R02.1: escape_nexus_token branch structure not recognised")
        main = main[0]
        t1 = norm(main.test)
        conds = [norm(v) for v in main.test.values] if isinstance(main.test, ast.BoolOp) and isinstance(main.test.op, ast.And) else []
        ok = "not preserve_spaces" in conds and "'_' not in label" in conds and any("re.search(protect_regex, label)" in c and c.startswith("not") for c in conds)
        rep.check(ok, "R02.1", esc.qualname, "space->underscore branch condition", fn_where(esc, main),
                  "spaces are converted to underscores only when spaces need not be preserved, the label has no underscore and no protected character",
                  "escape_nexus_token converts spaces to underscores under `%s`: a label that already contains an underscore or a protected character (or whose spaces must be preserved) would be altered on re-reading" % t1)
        el = main.orelse[0] if main.orelse and isinstance(main.orelse[0], ast.If) else None
        econds = [norm(v) for v in el.test.values] if el is not None and isinstance(el.test, ast.BoolOp) and isinstance(el.test.op, ast.Or) else []
        ok = any(c == "re.search(protect_regex, label)" for c in econds) and "' ' in label" in econds and any("quote_underscores" in c and "'_' in label" in c for c in econds)
        rep.check(ok, "R02.1", esc.qualname, "quoting branch condition", fn_where(esc, el if el is not None else main),
                  "labels are quoted when they contain a protected character, a space, or (when requested) an underscore",
                  "escape_nexus_token's quoting condition `%s` no longer covers protected characters, spaces and underscores" % (norm(el.test) if el is not None else None))

        # the conversion in the first branch is character-for-character
        conv = [n for n in main.body if isinstance(n, ast.Assign) and norm(n.targets[0]) == "label"]
        ok = False
        how = norm(conv[0].value) if conv else None
        if conv:
            v = conv[0].value
            ok = True
            while isinstance(v, ast.Call) and isinstance(v.func, ast.Attribute) and v.func.attr == "replace":
                a = [const_value(x) for x in v.args]
                ok = ok and len(a) == 2 and all(isinstance(x, str) and len(x) == 1 for x in a) and a[1] == "_"
                v = v.func.value
            ok = ok and isinstance(v, ast.Name) and v.id == "label"
        rep.check(ok, "R02.1", esc.qualname, "space conversion `%s`" % how, fn_where(esc, conv[0] if conv else main),
                  "unquoted labels are converted character for character (each space/tab -> one underscore)",
                  "escape_nexus_token converts an unquoted label with `%s`, which is not a character-for-character replacement by underscores: runs of spaces (or leading/trailing ones) are collapsed and the label read back differs" % how)

    # ---- R02.5 symbol lookup precedence
    with rep.section("R02.5 symbol lookup precedence"):
        rep.rule("R02.5", "taxon symbol lookup precedence: TRANSLATE token, then label, then taxon number - the order the writer's output requires")
        lk = index.function(NP + ".NexusTaxonSymbolMapper.lookup_taxon_symbol")
        order = []
        for n in sorted((x for x in ast.walk(lk.node) if isinstance(x, ast.Attribute)), key=lambda x: (x.lineno, x.col_offset)):
            if n.attr in ("token_taxon_map", "label_taxon_map", "number_taxon_map", "number_taxon_label_map") and n.attr not in order:
                order.append(n.attr)
        rep.check(bool(order) and order[0] == "token_taxon_map" and len(order) >= 2, "R02.5", lk.qualname, "lookup order %s" % order, fn_where(lk),
                  "lookup order: %s" % order,
                  "NexusTaxonSymbolMapper.lookup_taxon_symbol consults %s: a TRANSLATE token that equals another taxon's label (numeric labels!) resolves to the wrong taxon, silently permuting the leaf-to-taxon assignment of translated NEXUS trees" % order)
        if "label_taxon_map" in order and any(o.startswith("number_taxon") for o in order):
            li = order.index("label_taxon_map")
            ni = min(i for i, o in enumerate(order) if o.startswith("number_taxon"))
            rep.check(li < ni, "R02.5", lk.qualname, "labels consulted after taxon numbers: %s" % order, fn_where(lk), "labels are consulted before taxon numbers",
                      "NexusTaxonSymbolMapper.lookup_taxon_symbol consults %s: the writer emits LABELS when no TRANSLATE table is used, so a taxon whose label is a digit string (label '2' held by the first taxon) must be found by label before the digits are read as a position; with numbers first such trees re-read with their taxa silently permuted" % order)

    # ---- R02.5 TRANSLATE labels are labels
    with rep.section("R02.5 TRANSLATE labels are labels"):
        pt = index.function("dendropy.dataio.nexusreader.NexusReader._parse_translate_statement")
        adds = [c for c in calls_in(pt.node) if call_name(c) == "add_translate_token" and len(c.args) >= 2]
        if not adds:
            raise AnalysisError("R02.5: _parse_translate_statement no longer calls add_translate_token")
        for c in adds:
            tv = c.args[1]
            defs = [d for d in walk_no_nested(pt.node) if isinstance(d, ast.Assign) and isinstance(tv, ast.Name) and norm(d.targets[0]) == tv.id]
            srcs = sorted({call_name(d.value) if isinstance(d.value, ast.Call) else norm(d.value)[:30] for d in defs})
            ok = bool(defs) and all(isinstance(d.value, ast.Call) and call_name(d.value) in ("require_taxon", "get_taxon", "new_taxon") and get_kwarg(d.value, "label") is not None for d in defs)
            rep.check(ok, "R02.5", pt.qualname, "TRANSLATE label resolved through %s" % srcs, fn_where(pt, c), "the label side of a TRANSLATE entry is resolved as a label in the namespace (%s)" % srcs,
                      "_parse_translate_statement resolves the LABEL of a TRANSLATE entry through %s: the symbol look-up tries earlier TRANSLATE tokens (and taxon numbers) before labels, so a taxon whose label equals the token of an earlier entry ('1', '2' ...) is bound to that earlier taxon and translated trees come back with their taxa permuted" % srcs)

    # ---- R02.2
    with rep.section("R02.2"):
        qc = cfgd["quote_chars"]
        ok = qc == {"'"} and cfgd["escape_quote_by_doubling"] is True
        rep.check(ok, "R02.2", NP + ".NexusTokenizer.__init__", "quote chars %s doubling %s" % (sorted(qc), cfgd["escape_quote_by_doubling"]), "src/dendropy/dataio/nexusprocessing.py:1",
                  "tokenizer: quote character ' with escape by doubling", "the NEXUS tokenizer's quote configuration is %s / doubling=%s" % (sorted(qc), cfgd["escape_quote_by_doubling"]))
        consts = [n.value for n in ast.walk(esc.node) if isinstance(n, ast.Constant) and isinstance(n.value, str)]
        splits = [c for c in calls_in(esc.node) if call_name(c) == "split" and c.args and const_value(c.args[0]) == "'"]
        joins = [c for c in calls_in(esc.node) if call_name(c) == "join" and isinstance(c.func.value, ast.Constant) and c.func.value.value == "''"]
        wraps = any(c in ("'{}'",) for c in consts) or any(isinstance(n, ast.BinOp) and isinstance(n.op, ast.Add) and const_value(n.left if not isinstance(n.left, ast.BinOp) else n.left.left) == "'" for n in ast.walk(esc.node))
        rep.check(bool(splits) and bool(joins) and wraps, "R02.2", esc.qualname, "writer doubles embedded quotes", fn_where(esc),
                  "escape_nexus_token wraps in ' and joins the '-split pieces with ''", "escape_nexus_token no longer doubles embedded single quotes inside a single-quoted token")
        # tokenizer honours the flag: the un-doubling branch exists
        tk = index.function("dendropy.dataio.tokenizer.Tokenizer.__next__")
        ok = False
        for m in index.methods_of("dendropy.dataio.tokenizer.Tokenizer"):
            for n in ast.walk(m.node):
                if isinstance(n, ast.If):
                    t_, tb_, fb_ = pos_if(n)
                    if norm(t_) == "self.escape_quote_by_doubling" and any(isinstance(c, ast.Call) and call_name(c) in ("append", "write") for st in tb_ for c in ast.walk(st)):
                        ok = True
        rep.check(ok, "R02.2", tk.qualname, "un-doubling branch", fn_where(tk), "Tokenizer.__next__ un-doubles quotes when escape_quote_by_doubling is set",
                  "Tokenizer.__next__ no longer tests escape_quote_by_doubling")

    # ---- R02.3
    with rep.section("R02.3"):
        wt = index.function(NW + "._write_tree")
        emitted = set()
        for n in ast.walk(wt.node):
            if isinstance(n, ast.Constant) and isinstance(n.value, str):
                m = re.match(r"^\[(&[A-Za-z])( \{\})?\]\s*$", n.value)
                if m:
                    emitted.add(m.group(1))
        rep.floor("R02.3", "comment tokens emitted by NewickWriter._write_tree", 3, len(emitted))
        pc = index.function(NR + "._process_tree_comments")
        recognised = set()
        prefixes = set()
        for n in ast.walk(pc.node):
            if isinstance(n, ast.Compare) and type(n.ops[0]).__name__ == "In" and isinstance(n.comparators[0], (ast.List, ast.Tuple, ast.Set)):
                recognised |= {const_value(e) for e in n.comparators[0].elts if isinstance(const_value(e), str)}
            if isinstance(n, ast.Call) and call_name(n) == "startswith" and n.args and isinstance(const_value(n.args[0]), str):
                prefixes.add(const_value(n.args[0]))
        for tok in sorted(emitted):
            ok = tok in recognised or any(p.strip() == tok for p in prefixes)
            rep.check(ok, "R02.3", pc.qualname, "emitted token %s recognised" % tok, fn_where(pc), "writer token [%s] is recognised by the reader" % tok,
                      "NewickWriter emits the tree comment token [%s ...] but NewickReader._process_tree_comments recognises only %s / prefixes %s: the rooting state or weight is lost on re-reading" % (tok, sorted(recognised), sorted(prefixes)))
        pr = index.function(NR + "._parse_tree_rooting_state")
        interpreted = set()
        for n in ast.walk(pr.node):
            if isinstance(n, ast.Compare) and norm(n.left) == "rooting_comment" and isinstance(n.comparators[0], ast.Constant):
                interpreted.add(n.comparators[0].value)
        for tok in sorted(t for t in recognised if t.lower() in ("&r", "&u")):
            rep.check(tok in interpreted, "R02.3", pr.qualname, "rooting token %s interpreted" % tok, fn_where(pr), "recognised token %s is mapped to a rooting state" % tok,
                      "the reader recognises the rooting token %s but _parse_tree_rooting_state does not interpret it" % tok)
        # polarity, decided by evaluating the chain (not by its shape): with no rooting directive, &R/&r -> True, &U/&u -> False
        pol = {}
        for tok in ("&R", "&r", "&U", "&u"):
            d = Decision(values={"self._rooting": None, "rooting_comment": tok})
            try:
                d.run(pr.node.body)
            except Undecidable as e:
                raise AnalysisError("R02.3: _parse_tree_rooting_state is not a decidable chain (%s)" % e)
            pol[tok] = d.result
        ok = all(pol[t] == ("return", t.lower() == "&r") for t in pol)
        rep.check(ok, "R02.3", pr.qualname, "rooting polarity %s" % pol, fn_where(pr), "&R -> rooted, &U -> unrooted", "the rooting tokens are interpreted with the wrong polarity: %s" % pol)
        # writer polarity: evaluate the chain that sets the rooting token under the 2 x 2 x 2 cases
        rootvar = None
        for n in walk_no_nested(wt.node):
            if isinstance(n, ast.Assign) and isinstance(n.value, ast.Constant) and isinstance(n.value.value, str) and n.value.value.strip().startswith("[&R"):
                rootvar = norm(n.targets[0])
        chain = [n for n in wt.node.body if isinstance(n, ast.If) and rootvar is not None and any(isinstance(a, ast.Assign) and norm(a.targets[0]) == rootvar for a in ast.walk(n))]
        if rootvar is None or len(chain) != 1:
            raise AnalysisError("R02.3: the rooting-token chain of NewickWriter._write_tree was not recognised")
        wpol = {}
        for undef in (False, True):
            for supp in (False, True):
                for rooted in (False, True):
                    d = Decision(facts={"tree.rooting_state_is_undefined": undef, "self.suppress_rooting": supp, "tree.is_rooted": rooted})
                    try:
                        d.run(chain)
                    except Undecidable as e:
                        raise AnalysisError("R02.3: the rooting-token chain of NewickWriter._write_tree is not decidable (%s)" % e)
                    wpol[(undef, supp, rooted)] = (d.env.get(rootvar) or "").strip()
        want = {k: ("" if (k[0] or k[1]) else ("[&R]" if k[2] else "[&U]")) for k in wpol}
        bad = {k: v for k, v in wpol.items() if v != want[k]}
        rep.check(not bad, "R02.3", wt.qualname, "writer rooting polarity %s" % sorted(bad.items()), fn_where(wt, chain[0]), "rooted trees get [&R], unrooted [&U], undefined/suppressed nothing",
                  "NewickWriter._write_tree writes the rooting token wrongly for (undefined, suppressed, rooted) = %s (expected %s)" % (sorted(bad.items()), sorted((k, want[k]) for k in bad)))

    # ---- R02.7
    with rep.section("R02.7"):
        rep.rule("R02.7", "single-node trees: the seed node's kind is decided from what was parsed - the tree-statement parser starts the recursive descent with is_internal_node=None, and a None is resolved to 'internal' only when children were built")
        ts = index.function(NR + "._parse_tree_statement")
        nd = index.function(NR + "._parse_tree_node_description")
        tops = [c for c in calls_in(ts.node) if call_name(c) == "_parse_tree_node_description"]
        if len(tops) != 1:
            raise AnalysisError("R02.7: top-level call of _parse_tree_node_description not recognised")
        v = get_kwarg(tops[0], "is_internal_node")
        rep.check(v is None or is_none(v), "R02.7", ts.qualname, "seed parsed with is_internal_node=%s" % (norm(v) if v is not None else "<default>"), fn_where(ts, tops[0]), "the seed node is parsed with is_internal_node=None",
                  "_parse_tree_statement starts the descent with is_internal_node=%s: for a tree that consists of a single node (`a:3;`) the label is then taken for an internal node label, the node gets no taxon and the namespace comes back empty" % (norm(v) if v is not None else None))
        res = [i for i in nd.node.body if isinstance(i, ast.If) and "is_internal_node" in names_in(i.test) and "None" in norm(i.test)
               and any(isinstance(a, ast.Assign) and norm(a.targets[0]) == "is_internal_node" for a in ast.walk(i))]
        if len(res) != 1:
            raise AnalysisError("R02.7: resolution of is_internal_node=None not recognised")
        out = {}
        for kids in (0, 1, 2, 3):
            d = Decision(facts={"current_node._child_nodes": kids > 0}, values={"is_internal_node": None, "len(current_node._child_nodes)": kids})
            d.run(res)
            if "is_internal_node" in d.env:
                out[kids] = d.env["is_internal_node"]
            elif "is_internal_node" in d.exprs:
                e = d.exprs["is_internal_node"]
                out[kids] = (kids > 0) if norm(e) in ("bool(current_node._child_nodes)", "current_node._child_nodes") else "?"
            else:
                out[kids] = None
        okr = out.get(0) in (None, False) and all(out.get(k) is True for k in (1, 2, 3))
        rep.check(okr, "R02.7", nd.qualname, "None resolved to %s" % out, fn_where(nd, res[0]), "None -> internal iff at least one child was built",
                  "_parse_tree_node_description resolves is_internal_node=None to %s (number of children built -> result): a node is internal as soon as ONE child was parsed and a leaf only when none was - otherwise a single-node tree loses its taxon, or the label of a root with exactly one child is turned into a spurious taxon" % out)

    # ---- R02.6
    with rep.section("R02.6"):
        rep.rule("R02.6", "numbers are written losslessly: the tree writers use str/%s/{} for edge lengths and weights, never a fixed-precision conversion or round() (precision is only ever reduced by the user's own format specifier)")
        rep.floor("R02.6", "format strings in the tree writers", 40, lossless_format_rule(index, rep, "R02.6", ["dendropy.dataio.newickwriter", "dendropy.dataio.nexuswriter", "dendropy.dataio.nexmlwriter"]))

    # ---- R02.4
    with rep.section("R02.4"):
        rtags = reader_tags(index)
        rep.floor("R02.4", "tags the NeXML reader looks up", 15, len(rtags))
        pairs = [
            ("_write_taxon_namespace", [XR + ".NexmlReader._parse_taxon_namespaces"]),
            ("_write_tree_list", [XR + ".NexmlReader._parse_tree_list"]),
            ("_write_tree", [XR + "._NexmlTreeParser.build_tree"]),
            ("_write_node", [XR + "._NexmlTreeParser._parse_nodes"]),
            ("_write_edge", [XR + "._NexmlTreeParser._parse_edge_info"]),
        ]
        nattr = 0
        for wname, rnames in pairs:
            wfi = index.function(XW + "." + wname)
            tags, attrs, values = written_vocab(wfi)
            rattrs = set()
            for rn in rnames:
                rattrs |= read_attrs(index.function(rn))
            for t in sorted(tags):
                rep.check(t in rtags, "R02.4", wfi.qualname, "tag <%s> not looked up by the reader" % t, fn_where(wfi), "tag <%s> written by %s is looked up by the reader" % (t, wname),
                          "NexmlWriter.%s writes the element <%s>, which the NeXML reader never looks up (it knows %s)" % (wname, t, sorted(rtags)))
            for a in sorted(attrs):
                nattr += 1
                if (wname, a) in (("_write_tree", "id"),):
                    rep.ob("R02.4", fn_where(wfi), "attribute id of <tree>: identifier only, nothing refers to a tree by id (exempt)", True, nontrivial=False)
                    continue
                rep.check(a in rattrs, "R02.4", wfi.qualname, "attribute %s not read back" % a, fn_where(wfi), "attribute %s written by %s is read by %s" % (a, wname, [r.rsplit(".", 1)[1] for r in rnames]),
                          "NexmlWriter.%s writes the attribute `%s` but the corresponding reader function(s) %s read only %s: that datum does not survive the round trip" % (wname, a, [r.rsplit(".", 1)[1] for r in rnames], sorted(rattrs)))
            if "root" in values:
                pn = index.function(XR + "._NexmlTreeParser._parse_nodes")
                accepted = set()
                for n in ast.walk(pn.node):
                    if isinstance(n, ast.Compare) and type(n.ops[0]).__name__ in ("In", "NotIn") and isinstance(n.comparators[0], (ast.Tuple, ast.List, ast.Set)) and "rooting" in norm(n.left):
                        accepted |= {const_value(e) for e in n.comparators[0].elts}
                for v in values["root"]:
                    rep.check(v.lower() in accepted, "R02.4", wfi.qualname, 'root="%s" accepted by reader' % v, fn_where(wfi), 'root="%s" is one of the reader\'s accepted spellings %s' % (v, sorted(accepted)),
                              'the writer marks the root with root="%s" but the reader accepts only %s' % (v, sorted(accepted)))
        rep.floor("R02.4", "attributes written for tree-side NeXML elements", 15, nattr)

    # ---- R02.8 labels are found again under their own name
    with rep.section("R02.8"):
        rep.rule("R02.8", "a label written is found again under its own name: the readers look taxa up through the namespace, whose cached folded label, folded query and caseless maps use one folding method and are refreshed on relabelling (C10 R10.9)")
        rep.floor("R02.8", "borrowed obligations", 5, borrow(index, rep, "C10", {"R10.9"}, "R02.8"))

    # ---- R02.9 NeXML attribute values are XML, not JSON
    with rep.section("R02.9"):
        rep.rule("R02.9", "NeXML attribute values are escaped as XML: the function every label / annotation value goes through returns an XML-quoted attribute value (xml.sax.saxutils.quoteattr or escape), not a JSON or Python string literal, whose escapes (\\t, \\u00e9, \\\\) an XML parser reads literally and whose &, <, \" break the document")
        mod = index.module("dendropy.dataio.nexmlwriter")
        pa = index.function("dendropy.dataio.nexmlwriter._protect_attr")
        users = [c for f in index.functions_in_module("dendropy.dataio.nexmlwriter") for c in calls_in(f.node, nested=True) if call_name(c) == "_protect_attr"]
        rets = [r for r in walk_no_nested(pa.node) if isinstance(r, ast.Return) and r.value is not None]
        if not rets:
            raise AnalysisError("R02.9: _protect_attr returns nothing")
        XML_ESC = ("quoteattr", "escape")
        for r in rets:
            names = {call_name(c) for c in ast.walk(r.value) if isinstance(c, ast.Call)}
            for nm_ in list(names):
                # a local helper: look one level down
                h = index.functions.get("dendropy.dataio.nexmlwriter." + nm_)
                if h is not None:
                    names |= {call_name(c) for c in calls_in(h.node)}
            ok = bool(names & set(XML_ESC)) and not (names & {"dumps", "repr"})
            rep.check(ok, "R02.9", pa.qualname, "attribute values escaped with %s" % sorted(names - {"_safe_str", "str"}), fn_where(pa, r), "_protect_attr escapes with an XML escaper",
                      "nexmlwriter._protect_attr builds attribute values with %s: that is JSON / Python quoting - `&`, `<` and `\"` inside a label make the document ill-formed, and a backslash, a tab or a non-ASCII letter is written as a backslash escape that the XML reader hands back literally (`caf\\u00e9`), so such labels do not survive the NeXML round trip" % sorted(names - {"_safe_str", "str"}))
        rep.floor("R02.9", "attribute values routed through _protect_attr", 6, len(users))

    # ---- R02.10 an absent length stays absent
    with rep.section("R02.10"):
        rep.rule("R02.10", "an absent edge length stays absent in NeXML: the writer leaves the length attribute out for None, so the reader's value for an <edge> without that attribute must be None (only the root edge may be normalised to 0)")
        wfi = index.function(XW + "._write_edge") if False else index.function("dendropy.dataio.nexmlwriter.NexmlWriter._write_edge")
        lw = [t for t in cfg_of(wfi).nodes if t.kind == "test" and isinstance(t.ast, ast.Compare) and norm(t.ast.left).endswith(".length") and is_none(t.ast.comparators[0])]
        if not lw:
            raise AnalysisError("R02.10: the writer's `length is not None` guard was not recognised")
        pe = index.function("dendropy.dataio.nexmlreader._NexmlTreeParser._parse_edge_info")
        gets = [c for c in calls_in(pe.node) if call_name(c) == "get" and c.args and isinstance(c.args[0], ast.Constant) and c.args[0].value == "length"]
        if len(gets) != 1:
            raise AnalysisError("R02.10: the reader's lookup of the length attribute was not recognised")
        d = gets[0].args[1] if len(gets[0].args) > 1 else None
        rep.check(d is None or is_none(d), "R02.10", pe.qualname, "missing length attribute read as %s" % (norm(d) if d is not None else None), fn_where(pe, gets[0]), "an <edge> without a length attribute gets length None",
                  "_NexmlTreeParser._parse_edge_info reads a missing length attribute as `%s`: the writer omits the attribute exactly when the length is None, so every edge without a length comes back with length %s - a tree without branch lengths returns as a tree with all-zero branch lengths (only the root edge may be normalised that way)" % (norm(d) if d is not None else None, norm(d) if d is not None else None))

    # ---- R02.11 a quoted token is a label, whatever it spells
    with rep.section("R02.11"):
        rep.rule("R02.11", "a quoted token is a label, whatever it spells: where the Newick tree parser tests the current token for a structural character ( ) , : ; the test also consults the tokenizer's is_token_quoted flag - directly (`... == \"(\" and not tok.is_token_quoted`) or through a predicate method of the reader that does - because the writer quotes a label that consists of one such character and the tokenizer hands it back as the bare character")
        STRUCT = {"(", ")", ",", ":", ";"}
        nsite = 0
        nr = index.klass("dendropy.dataio.newickreader.NewickReader")

        def quoted_aware(f):
            # a predicate: every return is a conjunction that contains a comparison of a token with a parameter / constant and `not <x>.is_token_quoted`
            rets = [r for r in walk_no_nested(f.node) if isinstance(r, ast.Return) and r.value is not None]
            if not rets:
                return False
            for r in rets:
                v = r.value
                if not (isinstance(v, ast.BoolOp) and isinstance(v.op, ast.And)):
                    return False
                has_cmp = any(isinstance(x, ast.Compare) and "token" in norm(x.left) for x in v.values)
                has_q = any(isinstance(x, ast.UnaryOp) and isinstance(x.op, ast.Not) and isinstance(x.operand, ast.Attribute) and x.operand.attr == "is_token_quoted" for x in v.values)
                if not (has_cmp and has_q):
                    return False
            return True
        preds = {f.name for f in nr.methods.values() if quoted_aware(f)}
        for q in ("dendropy.dataio.newickreader.NewickReader._parse_tree_statement", "dendropy.dataio.newickreader.NewickReader._parse_tree_node_description"):
            f = index.function(q)
            pm = parent_map(f.node)
            for x in ast.walk(f.node):
                if isinstance(x, ast.Compare) and len(x.ops) == 1 and isinstance(x.ops[0], (ast.Eq, ast.NotEq)) and isinstance(x.comparators[0], ast.Constant) and x.comparators[0].value in STRUCT and "token" in norm(x.left):
                    nsite += 1
                    par = pm.get(x)
                    while isinstance(par, ast.UnaryOp):
                        par = pm.get(par)
                    ok = isinstance(par, ast.BoolOp) and isinstance(par.op, ast.And) and any(isinstance(y, ast.Attribute) and y.attr == "is_token_quoted" for v in par.values for y in ast.walk(v))
                    rep.check(ok, "R02.11", f.qualname, "structural characters recognised without consulting is_token_quoted", fn_where(f, x), "%s: `%s` also tests is_token_quoted" % (f.name, norm(x)),
                              "%s compares the current token with `%s` and does not look at is_token_quoted: a taxon label that is exactly this character is written quoted (`'%s'`), comes back from the tokenizer as the bare character and is taken for structure - the tree is rejected as malformed or, for `,`, silently read as a different tree" % (f.qualname, x.comparators[0].value, x.comparators[0].value))
                elif isinstance(x, ast.Call) and call_name(x) in preds and any(isinstance(a, ast.Constant) and a.value in STRUCT for a in x.args):
                    nsite += 1
                    rep.ob("R02.11", fn_where(f, x), "%s: `%s` goes through the quoted-aware predicate" % (f.name, norm(x)[:60]), True)
        rep.floor("R02.11", "structural-character tests in the Newick tree parser", 8, nsite)

    # ---- R02.12 every TRANSLATE entry is recorded
    with rep.section("R02.12"):
        rep.rule("R02.12", "every TRANSLATE entry is recorded: each normal exit of add_translate_token passes the store into token_taxon_map - the token map is consulted first, so an entry that is left out is resolved by the later look-ups (labels before numbers) and can name a different taxon")
        at = index.function(NP + ".NexusTaxonSymbolMapper.add_translate_token")
        g = cfg_of(at)

        def stores(n):
            st = n.stmt if hasattr(n, "stmt") else None
            a = n.ast
            return isinstance(a, ast.Assign) and any(isinstance(t, ast.Subscript) and isinstance(t.value, ast.Attribute) and t.value.attr == "token_taxon_map" for t in a.targets)
        if not any(stores(n) for n in g.nodes):
            raise AnalysisError("R02.12: add_translate_token no longer stores into token_taxon_map")
        ok, w = g.must_pass(g.entry, stores)
        rep.check(ok, "R02.12", at.qualname, "an exit that skips the token store", fn_where(at, getattr(w, "ast", None) if w is not None and getattr(w, "ast", None) is not None else None),
                  "add_translate_token: every normal exit passes the store",
                  "NexusTaxonSymbolMapper.add_translate_token can return without recording the entry: the symbol look-up then falls through to the label and number look-ups, so a TRANSLATE token that equals another taxon's label resolves to that other taxon and the leaves of translated trees are permuted")

    # ---- R02.13 the writers can write the root
    with rep.section("R02.13"):
        rep.rule("R02.13", "the tree writers can write the root: in the Newick / NEXUS / NeXML writers a node's parent is dereferenced only behind a test of that parent - the seed node has none, and a tree that is a single node reaches the leaf writer with it")
        rep.floor("R02.13", "dereferences of a parent in the writers", 1, parent_deref_rule(index, rep, "R02.13", ["dendropy.dataio.newickwriter", "dendropy.dataio.nexuswriter", "dendropy.dataio.nexmlwriter"]))

    # ---- R02.14 the NEXUS tree statement hands over right after the `=`
    with rep.section("R02.14"):
        rep.rule("R02.14", "the NEXUS tree statement hands the tree description over untouched: in NexusReader._parse_tree_statement no loop that advances the tokenizer precedes the hand-off to the Newick parser - what follows `TREE name =` need not start with `(` (a tree that is a single node is just a label), and a loop that looks for the parenthesis swallows that statement and glues the next tree onto its name")
        ts = index.function("dendropy.dataio.nexusreader.NexusReader._parse_tree_statement")
        hand = [c for c in calls_in(ts.node) if call_name(c) in ("_build_tree_from_newick_tree_string", "_parse_tree_statement")]
        if not hand:
            raise AnalysisError("R02.14: the hand-off to the Newick parser was not found in NexusReader._parse_tree_statement")
        ADV = ("next_token", "next_token_ucase", "require_next_token", "require_next_token_ucase", "skip_to_semicolon")
        bad = None
        nl = 0
        for lp in walk_no_nested(ts.node):
            if isinstance(lp, (ast.While, ast.For)) and lp.lineno < hand[0].lineno:
                nl += 1
                adv = [c for c in ast.walk(lp) if isinstance(c, ast.Call) and call_name(c) in ADV]
                # the loop that looks for the `=` (leaving on `=`) is the statement header, not the description
                hdr = any(isinstance(x, ast.Constant) and x.value == "=" for x in ast.walk(lp.test if isinstance(lp, ast.While) else lp.iter))
                if adv and not hdr:
                    bad = lp
        rep.check(bad is None, "R02.14", ts.qualname, "tokens skipped before the tree description is handed over", fn_where(ts, bad), "_parse_tree_statement: one token read between `=` and the Newick parser",
                  "NexusReader._parse_tree_statement loops over tokens (`%s`) before handing over to the Newick parser: a TREE statement whose description does not begin with the token the loop waits for - `TREE 1 = 'beta gamma':3.5;`, a single-node tree - is swallowed, and the next statement's parentheses are attached to its name (a list of a single-node tree and an ordinary tree reads back as one tree)" % (norm_stmt(bad)[:60] if bad is not None else ""))
        rep.ob("R02.14", fn_where(ts), "_parse_tree_statement: %d loops before the hand-off examined" % nl, True)

    # ---- R02.15 inside quotes every character is the label's own
    with rep.section("R02.15"):
        rep.rule("R02.15", "inside quotes every character is the label's own: in the quoted-token branch of Tokenizer._next_token_or_none (a) what is appended to the token is the current character of the document (or the quote character for a doubled quote) - never a constant; (b) the current character is never overwritten; (c) the loop consults no character class - it compares the current character with the end of input and with the opening quote only. The writers put a label with a blank, tab or line end inside quotes precisely so that it comes back as written")
        # the method is found by what it does (the branch on the quote characters), not by its name
        cands15 = [(mf, st) for mf in index.klass("dendropy.dataio.tokenizer.Tokenizer").methods.values() for st in walk_no_nested(mf.node) if isinstance(st, ast.If) and "self.quote_chars" in norm(st.test)]
        if len(cands15) != 1:
            raise AnalysisError("R02.15: the quoted-token branch of the Tokenizer not recognised (%d candidates)" % len(cands15))
        tkn = cands15[0][0]
        qb = [cands15[0][1]]
        body = qb[0].body
        loops = [l for st in body for l in ast.walk(st) if isinstance(l, ast.While)]
        if len(loops) != 1:
            raise AnalysisError("R02.15: the quoted-token loop not recognised")
        loop = loops[0]
        qnames = {t.id for st in body if isinstance(st, ast.Assign) and norm(st.value) == "self._cur_char" for t in st.targets if isinstance(t, ast.Name)}
        n15 = 0
        for x in ast.walk(loop):
            if isinstance(x, ast.Call) and isinstance(x.func, ast.Attribute) and x.func.attr in ("append", "write", "extend", "insert") and x.args:
                n15 += 1
                v = x.args[-1]
                ok_ = norm(v) == "self._cur_char" or (isinstance(v, ast.Name) and v.id in qnames)
                rep.check(ok_, "R02.15", tkn.qualname, "quoted token gets `%s` instead of the document's character" % norm(v)[:30], fn_where(tkn, x), "quoted token: `%s` appends the document's own character" % norm(x)[:50],
                          "Tokenizer._next_token_or_none appends `%s` to a QUOTED token: inside quotes a label's characters are literal - a tab, a line end or a run of blanks that the writer protected with the quotes comes back as something else (`'Homo<TAB>sapiens'` read as `Homo sapiens`), so the label no longer finds its taxon" % norm(v)[:40])
            if isinstance(x, (ast.Assign, ast.AugAssign)):
                for t in (x.targets if isinstance(x, ast.Assign) else [x.target]):
                    if norm(t) == "self._cur_char":
                        n15 += 1
                        rep.check(False, "R02.15", tkn.qualname, "current character overwritten inside quotes", fn_where(tkn, x), "",
                                  "Tokenizer._next_token_or_none overwrites the current character (`%s`) while inside a quoted token: quoted text is literal" % norm_stmt(x)[:50])
        g15 = cfg_of(tkn)
        for nd in g15.nodes:
            if nd.kind == "test" and nd.stmt is not None and any(nd.stmt is y for y in ast.walk(loop)) and "self._cur_char" in norm(nd.ast):
                n15 += 1
                e_ = nd.ast
                plain = False
                if isinstance(e_, ast.Compare) and len(e_.ops) == 1 and isinstance(e_.ops[0], (ast.Eq, ast.NotEq)):
                    sides = [e_.left, e_.comparators[0]]
                    oth = [s_ for s_ in sides if norm(s_) != "self._cur_char"]
                    plain = len(oth) == 1 and ((isinstance(oth[0], ast.Constant) and oth[0].value == "") or (isinstance(oth[0], ast.Name) and oth[0].id in qnames))
                rep.check(plain, "R02.15", tkn.qualname, "character class consulted inside quotes: " + norm(e_)[:40], fn_where(tkn, nd.stmt), "quoted token: `%s` compares with end of input / the quote only" % norm(e_)[:40],
                          "Tokenizer._next_token_or_none tests `%s` while inside a quoted token: within quotes no character is special except the quote itself - a class test here drops, replaces or ends the token on characters (blank, tab, line end, bracket) that the writer put inside quotes to protect them" % norm(e_)[:50])
        rep.floor("R02.15", "appends and character tests in the quoted-token loop", 4, n15)

    # ---- R02.16 the writers' traversals do not recurse on depth
    with rep.section("R02.16"):
        rep.rule("R02.16", "the traversals the writers walk a tree with do not recurse on depth (C07 R07.11): Node.preorder_iter / postorder_iter / levelorder_iter / leaf_iter contain no call of the same method on another node - the NeXML writer emits nodes and edges through preorder_node_iter, so a recursive generator makes a ladder tree of a thousand leaves unwritable (RecursionError) although the format and the reader take it")
        nb = borrow(index, rep, "C07", {"R07.11"}, "R02.16")
        rep.floor("R02.16", "borrowed obligations", 2, nb)

    # ---- R02.17 an undefined rooting state is not 'rooted'
    with rep.section("R02.17"):
        rep.rule("R02.17", "an undefined rooting state is not 'rooted': Tree.is_rooted and Tree.is_unrooted both answer None for a tree whose rooting was never stated, and the writers render that state as unrooted (`is_rooted` tested for truth). A writer never decides 'rooted' as `not <tree>.is_unrooted` - that is True for None, so a NeXML document would carry root=\"true\" for such a tree and it would read back as rooted")
        n17 = 0
        for mod in ("dendropy.dataio.nexmlwriter", "dendropy.dataio.newickwriter", "dendropy.dataio.nexuswriter"):
            for f in index.functions_in_module(mod):
                for x in ast.walk(f.node):
                    if isinstance(x, ast.Attribute) and x.attr in ("is_rooted", "is_unrooted", "_is_rooted") and isinstance(x.ctx, ast.Load):
                        n17 += 1
                for x in ast.walk(f.node):
                    if isinstance(x, ast.UnaryOp) and isinstance(x.op, ast.Not) and isinstance(x.operand, ast.Attribute) and x.operand.attr == "is_unrooted":
                        rep.check(False, "R02.17", f.qualname, "rootedness decided as `not ...is_unrooted`", fn_where(f, x), "",
                                  "%s decides on `%s`: for a tree whose rooting state is undefined both is_rooted and is_unrooted are None, so this is True - the tree is written as rooted (NeXML: root=\"true\" on the seed node) and reads back with is_rooted True where the undefined state is to be rendered as unrooted" % (f.qualname, norm(x)))
        rep.floor("R02.17", "reads of the rooting state in the tree writers", 3, n17)

    # ---- R02.18 one escaping routine for XML attribute values
    with rep.section("R02.18"):
        rep.rule("R02.18", "one escaping routine for XML attribute values: in the NeXML writer an attribute value goes through `_protect_attr` (quoteattr + character references for what the declared ISO-8859-1 encoding cannot hold) - saxutils.quoteattr / escape are called nowhere else in the module; a label written through quoteattr alone keeps its non-ASCII letters raw, and a document written to a file reads back with other labels (`rööt` as `rÃ¶Ã¶t`)")
        n18 = 0
        for f in index.functions_in_module("dendropy.dataio.nexmlwriter"):
            for c in calls_in(f.node, nested=True):
                if call_name(c) in ("quoteattr", "escape") and isinstance(c.func, ast.Attribute) and "saxutils" in norm(c.func.value):
                    n18 += 1
                    rep.check(f.name == "_protect_attr", "R02.18", f.qualname, "attribute value escaped beside _protect_attr", fn_where(f, c), "%s is the module's escaping routine" % f.name,
                              "%s calls `%s` directly: the value skips the character-reference step of _protect_attr, so letters outside the declared encoding are written raw - an internal node label `rööt` written to a file and read back in binary mode comes back as `rÃ¶Ã¶t`" % (f.qualname, norm(c)[:60]))
        rep.floor("R02.18", "calls of the saxutils escaping functions in the NeXML writer", 1, n18)

    # ---- R02.19 the rooting token is recognised whatever blanks surround it
    with rep.section("R02.19"):
        rep.rule("R02.19", "the rooting token is recognised whatever blanks surround it: in NewickReader._process_tree_comments the comment text that is compared with the rooting tokens (`&R`, `&U`, ...) is a value that went through .strip() - `[&R ]` and `[ &R]` are rooting comments too, and a rooted tree read as 'rooting undefined' is afterwards treated as unrooted (its basal bifurcation collapsed, its splits normalised), which changes every distance computed from it")
        ptc = index.function("dendropy.dataio.newickreader.NewickReader._process_tree_comments")
        stripped = {t.id for a in ast.walk(ptc.node) if isinstance(a, ast.Assign) and isinstance(a.value, ast.Call) and call_name(a.value) in ("strip", "lstrip", "rstrip") for t in a.targets if isinstance(t, ast.Name)}
        n19 = 0
        for x in ast.walk(ptc.node):
            if isinstance(x, ast.Compare) and len(x.ops) == 1 and isinstance(x.ops[0], (ast.In, ast.Eq)) and any(isinstance(c, ast.Constant) and isinstance(c.value, str) and c.value.lower() in ("&r", "&u") for c in ast.walk(x.comparators[0])):
                n19 += 1
                l_ = x.left
                ok19 = (isinstance(l_, ast.Name) and l_.id in stripped) or (isinstance(l_, ast.Call) and call_name(l_) in ("strip", "upper", "lower") and "strip" in norm(l_))
                rep.check(ok19, "R02.19", ptc.qualname, "rooting token compared on the unstripped comment", fn_where(ptc, x), "_process_tree_comments compares the stripped comment with the rooting tokens",
                          "NewickReader._process_tree_comments tests `%s`: the left side never went through strip(), so `[&R ]` / `[ &R]` are not recognised - the tree comes back with is_rooted None, is compared as if unrooted, and `((A,B),(C,D))` vs `(A,(B,(C,D)))` read from such text have symmetric difference 0 instead of 2" % norm(x)[:60])
        rep.floor("R02.19", "comparisons of a comment with the rooting tokens", 1, n19)
