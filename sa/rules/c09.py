"""C09 Character matrices survive a round trip through NEXUS, PHYLIP, FASTA and NeXML."""
import ast
import re

from .common import *  # noqa
from .iotables import *  # noqa
from . import c02

XW = "dendropy.dataio.nexuswriter.NexusWriter"
XR = "dendropy.dataio.nexusreader.NexusReader"
NXW = "dendropy.dataio.nexmlwriter.NexmlWriter"
NXR = "dendropy.dataio.nexmlreader"
DIO = "dendropy.dataio."
WRITER_FUNCS = ["_write", "_write_taxa_block", "_set_and_write_translate_block", "_write_trees_block", "_write_char_block",
                "_compose_format_terms", "_write_block_title", "_write_link_to_taxa_block", "_write_character_subsets"]
KEYWORD_EXEMPT = {
    "ITEMS": "ITEMS=(STATES) is the reader's implicit default for continuous data",
    "STATES": "value of ITEMS (see ITEMS)",
    "STANDARD": "DATATYPE=STANDARD is the reader's else-branch (any unrecognised datatype is read as standard)",
    "NEXUS": "matched as '#NEXUS' by the reader",
}
WRITER_MODULES = ("dendropy.dataio.newickwriter", "dendropy.dataio.nexuswriter", "dendropy.dataio.nexmlwriter", "dendropy.dataio.phylipwriter", "dendropy.dataio.fastawriter")


def _emits(stmts):
    for s in stmts:
        for c in ast.walk(s):
            if isinstance(c, ast.Call) and isinstance(c.func, ast.Attribute):
                if c.func.attr == "write" or c.func.attr.startswith("_write") or (c.func.attr in ("append", "extend") and "parts" in norm(c.func.value)) or c.func.attr in ("warn",):
                    if c.func.attr == "warn":
                        continue
                    return True
            if isinstance(c, ast.Assign) and isinstance(c.value, ast.Call) and "format_item_annotations" in norm(c.value.func):
                return True
    return False


def _only_exits(stmts):
    body = [s for s in stmts if not (isinstance(s, ast.Expr) and isinstance(s.value, ast.Constant))]
    return bool(body) and all(isinstance(s, (ast.Return, ast.Continue, ast.Pass, ast.Break)) for s in body)


def _sign_in_test(test, target):
    """+1 / -1: polarity of `target` (an AST node inside test) w.r.t. the truth of test; None if under a comparison."""
    pm = parent_map(test) if not isinstance(test, ast.Name) else {}
    sign = 1
    cur = target
    while cur is not test:
        p = pm.get(cur)
        if p is None:
            break
        if isinstance(p, ast.UnaryOp) and isinstance(p.op, ast.Not):
            sign = -sign
        elif isinstance(p, ast.Compare):
            return None
        elif isinstance(p, ast.Call):
            return None
        cur = p
    return sign


def polarity_rule(index, rep, rid):
    """suppress_* flags (and predicates returning them) gate emission negatively."""
    n = 0
    predicates = {}   # function name -> sign of flag in its return
    for modname in WRITER_MODULES:
        for fi in index.functions_in_module(modname):
            for r in walk_no_nested(fi.node):
                if isinstance(r, ast.Return) and r.value is not None:
                    for a in ast.walk(r.value):
                        if isinstance(a, ast.Attribute) and a.attr.startswith("suppress_") and is_self_attr(a):
                            s = _sign_in_test(r.value, a)
                            if s is not None:
                                predicates[fi.name] = (s, a.attr, fi, r)
    for modname in WRITER_MODULES:
        for fi in index.functions_in_module(modname):
            for iff in walk_no_nested(fi.node):
                if not isinstance(iff, ast.If):
                    continue
                subjects = []
                for a in ast.walk(iff.test):
                    if isinstance(a, ast.Attribute) and a.attr.startswith("suppress_") and is_self_attr(a):
                        s = _sign_in_test(iff.test, a)
                        if s is not None:
                            subjects.append((a.attr, s, None))
                    if isinstance(a, ast.Call) and isinstance(a.func, ast.Attribute) and a.func.attr in predicates and is_self_attr(a.func):
                        s = _sign_in_test(iff.test, a)
                        if s is not None:
                            ps, flag, pfi, pr = predicates[a.func.attr]
                            subjects.append((flag, s * ps, pfi))
                for flag, sign, via in subjects:
                    n += 1
                    body_emits = _emits(iff.body)
                    else_emits = _emits(iff.orelse)
                    if sign > 0:
                        # body runs when the flag is truthy (suppressed): it must not be the emitting side
                        bad = body_emits and not else_emits and not _only_exits(iff.body)
                        if "unreferenced" in flag:
                            bad = False  # marks candidates; decided by the True/False it assigns (not an emission)
                    else:
                        # body runs when the flag is falsy (not suppressed): it must not be a bare exit with the emission following
                        bad = _only_exits(iff.body) and not else_emits
                    where = via if via is not None else fi
                    rep.check(not bad, rid, (via or fi).qualname, "polarity of %s in `%s`" % (flag, norm(iff.test)[:80]), fn_where(fi, iff),
                              "%s: `%s` gates emission negatively on %s%s" % (fi.name, norm(iff.test)[:60], flag, " (via %s)" % via.name if via is not None else ""),
                              "in %s the test `%s` lets the output through exactly when %s is TRUTHY%s: an explicit %s=False suppresses the output and True writes it"
                              % (fi.qualname, norm(iff.test)[:80], flag, " (the predicate %s returns the flag un-negated)" % via.qualname if via is not None else "", flag))
    return n


def _fresh_value(v):
    return isinstance(v, (ast.List, ast.Dict, ast.Set)) and not getattr(v, "elts", getattr(v, "keys", None)) or \
        (isinstance(v, ast.Call) and isinstance(v.func, ast.Name) and v.func.id in ("dict", "list", "set", "OrderedDict") and not v.args and not v.keywords) or \
        (isinstance(v, ast.Call) and isinstance(v.func, ast.Attribute) and v.func.attr in ("OrderedDict", "defaultdict") and not v.keywords and len(v.args) <= 1)


def unit_state_rule(index, rep, rid, cls_q, entry, user_q):
    """A parser object that is reused for several units (matrices) must start each unit with empty
    accumulators: every self field the methods reachable from `entry` fill (subscript store / mutator
    call) is re-initialised by `entry` before anything else reads it - unless the object is built afresh
    for each unit."""
    cls = index.classes[cls_q]
    ef = index.function(cls_q + "." + entry)
    # methods reachable through self calls
    seen, todo = {}, [ef]
    while todo:
        f = todo.pop()
        if f.qualname in seen:
            continue
        seen[f.qualname] = f
        for c in calls_in(f.node, nested=True):
            grade, cands = index.resolve_call(c, f)
            if grade == "self":
                todo.extend(x for x in cands if isinstance(getattr(x, "node", None), ast.FunctionDef))
    filled = {}
    for f in seen.values():
        for w in writes_in(f.node):
            if w.kind in ("substore", "mutcall", "augstore", "subdel") and w.base is not None and norm(w.base) == "self":
                filled.setdefault(w.attr, (f, w))
    # resets at the head of the entry: fresh-container stores among the top-level statements that precede the first statement calling a self method
    reset = {}
    for st in ef.node.body:
        if isinstance(st, ast.Expr) and isinstance(st.value, ast.Constant):
            continue
        if isinstance(st, ast.Assign) and len(st.targets) == 1 and isinstance(st.targets[0], ast.Attribute) and norm(st.targets[0].value) == "self" and _fresh_value(st.value):
            reset[st.targets[0].attr] = st
            continue
        if any(index.resolve_call(c, ef)[0] == "self" for c in calls_in(st)) or any(isinstance(x, ast.Attribute) and norm(x.value) == "self" and x.attr in filled for x in ast.walk(st)):
            break
    # is the object built once and fed several units?
    uf = index.function(user_q)
    built_per_unit = False
    pm = parent_map(uf.node)
    ctor = [c for c in calls_in(uf.node) if call_name(c) == cls.name]
    if not ctor:
        raise AnalysisError("%s: %s is not constructed in %s" % (rid, cls.name, user_q))
    for c in ctor:
        p = pm.get(c)
        while p is not None and p is not uf.node:
            if isinstance(p, (ast.For, ast.While)):
                built_per_unit = True
            p = pm.get(p)
    n = 0
    for attr, (f, w) in sorted(filled.items()):
        n += 1
        ok = attr in reset or built_per_unit
        rep.check(ok, rid, ef.qualname, "accumulator self.%s not re-initialised per unit" % attr, fn_where(f, w.stmt), "%s.%s: self.%s (filled in %s) is emptied at the start of each unit" % (cls.name, entry, attr, f.name),
                  "%s is built once in %s and %s() is called for every unit, but self.%s - which %s fills - is not re-initialised at the start of %s: entries from the previous matrix (column positions, character types, state ids) leak into the next one, so a second matrix in the same file gets wrong cells or fails to parse"
                  % (cls.name, user_q.rsplit(".", 1)[-1], entry, attr, f.qualname.rsplit(".", 1)[-1], entry))
    return n


def probe_insert_rule(index, rep, rid, modules):
    """A key chosen by a uniqueness loop `while K in self.D:` must be the key inserted: every
    definition of K that can reach `self.D[K] = ...` passes the probe."""
    n = 0
    for m in modules:
        for fi in index.functions_in_module(m):
            loops = [w for w in walk_no_nested(fi.node) if isinstance(w, ast.While) and isinstance(w.test, ast.Compare) and len(w.test.ops) == 1 and isinstance(w.test.ops[0], ast.In)
                     and (isinstance(w.test.left, ast.Name) or (isinstance(w.test.left, ast.Call) and isinstance(w.test.left.func, ast.Attribute) and isinstance(w.test.left.func.value, ast.Name) and not w.test.left.args))
                     and isinstance(w.test.comparators[0], ast.Attribute) and norm(w.test.comparators[0].value) == "self"]
            if not loops:
                continue
            cfg = cfg_of(fi)
            for w in loops:
                key_expr = norm(w.test.left)
                key, dct = (w.test.left.id if isinstance(w.test.left, ast.Name) else w.test.left.func.value.id), norm(w.test.comparators[0])
                probes = {t.id for t in cfg.nodes if t.kind == "test" and t.stmt is w}
                stores = [x for x in cfg.nodes if x.kind == "stmt" and isinstance(x.ast, ast.Assign) and isinstance(x.ast.targets[0], ast.Subscript)
                          and norm(x.ast.targets[0].value) == dct]
                for st in stores:
                    n += 1
                    k = st.ast.targets[0].slice
                    if norm(k) != key_expr:
                        rep.check(False, rid, fi.qualname, "inserted key `%s` is not the probed `%s`" % (norm(k), key), fn_where(fi, st.stmt), "",
                                  "%s probes `%s in %s` but inserts under `%s`: the uniqueness loop checks a different key from the one it stores" % (fi.qualname, key, dct, norm(k)))
                        continue
                    defs = [d for d in cfg.nodes if d.kind == "stmt" and isinstance(d.ast, ast.Assign) and any(isinstance(t, ast.Name) and t.id == key for t in d.ast.targets)]
                    bad = [d for d in defs if cfg.can_reach(d, lambda x, st=st: x is st, avoid=lambda x: x.id in probes, follow_exc=False) is not None]
                    rep.check(not bad, rid, fi.qualname, "key re-defined between the uniqueness probe and the insertion: %s" % (norm_stmt(bad[0].stmt)[:60] if bad else ""), fn_where(fi, bad[0].stmt if bad else st.stmt),
                              "%s: every definition of `%s` passes `%s in %s` before `%s[%s] = ...`" % (fi.name, key, key, dct, dct, key),
                              "%s computes `%s` by `%s` AFTER the loop `while %s in %s` has approved it, and inserts the new value: the key that was checked for uniqueness is not the key that is stored, so two blocks can end up with the same title (and every LINK to it is ambiguous on re-reading)" % (fi.qualname, key, norm_stmt(bad[0].stmt)[:80] if bad else "", key, dct))
    return n


def matrix_read_rule(index, rep, rid, modules):
    """CharacterMatrix.__getitem__ creates (and stores) an empty sequence for a taxon that has none: a
    writer may subscript the matrix only with taxa known to have a sequence."""
    n = 0
    for m in modules:
        for fi in index.functions_in_module(m):
            mats = [p for p in fi.all_params if "matrix" in p]
            if fi.cls is not None and any(k.name == "CharacterMatrix" for k in index.mro(fi.cls)) and fi.name != "__getitem__":
                mats.append("self")
            if not mats:
                continue
            reads = [x for x in walk_no_nested(fi.node) if isinstance(x, ast.Subscript) and isinstance(x.ctx, ast.Load) and isinstance(x.value, ast.Name) and x.value.id in mats
                     and isinstance(x.slice, ast.Name)]
            if not reads:
                continue
            pm = parent_map(fi.node)
            cfg = None
            for x in reads:
                n += 1
                mat, key = x.value.id, x.slice.id
                ok = False
                p = pm.get(x)
                own = (mat, mat + "._taxon_sequence_map")
                while p is not None and p is not fi.node:
                    if isinstance(p, ast.For) and norm(p.target) == key and norm(p.iter) in own:
                        ok = True
                    if isinstance(p, (ast.ListComp, ast.SetComp, ast.GeneratorExp, ast.DictComp)) and any(norm(gen.target) == key and norm(gen.iter) in own for gen in p.generators):
                        ok = True
                    p = pm.get(p)
                if not ok:
                    # the row was stored for this very key earlier in the function
                    ok = any(isinstance(a, ast.Assign) and any(isinstance(t, ast.Subscript) and norm(t.value) in own and norm(t.slice) == key for t in a.targets) and a.lineno <= x.lineno for a in walk_no_nested(fi.node))
                if not ok:
                    cfg = cfg or cfg_of(fi)
                    xn = node_of_ast(cfg, x)
                    tests = [t for t in cfg.nodes if t.kind == "test" and isinstance(t.ast, ast.Compare) and len(t.ast.ops) == 1 and isinstance(t.ast.ops[0], (ast.In, ast.NotIn))
                             and norm(t.ast.left) == key and norm(t.ast.comparators[0]) in (mat, mat + "._taxon_sequence_map")]
                    if xn is not None and tests:
                        blocked = {(t.id, "t" if isinstance(t.ast.ops[0], ast.In) else "f") for t in tests}
                        reach = cfg.reach([cfg.entry], follow_exc=False, edge_ok=lambda s_, l, d: (s_.id, l) not in blocked)
                        ok = all(r is not xn for r in reach)
                rep.check(ok, rid, fi.qualname, "matrix subscripted with a taxon not known to have a sequence: %s" % norm(x), fn_where(fi, x), "%s: `%s` is read only for taxa that have a sequence" % (fi.name, norm(x)),
                          "%s reads `%s` for a taxon that was neither obtained by iterating the matrix nor tested with `%s in %s`: CharacterMatrix.__getitem__ CREATES and stores an empty sequence for a taxon without one, so merely writing the matrix adds rows to it and a second conversion of the same object no longer yields the original content" % (fi.qualname, norm(x), key, mat))
    return n


def run(index, rep, tier):
    rep.rule("R09.8", "NEXUS block titles: the key approved by the uniqueness loop `while title in self._title_block_map` is the key inserted (no re-definition between probe and insertion)")
    with rep.section("R09.8"):
        rep.floor("R09.8", "uniqueness-probe/insert sites in the NEXUS writer", 1, probe_insert_rule(index, rep, "R09.8", ["dendropy.dataio.nexuswriter"]))
    rep.rule("R09.9", "writers do not grow the matrix they write: a CharacterMatrix is subscripted only with taxa obtained by iterating it or tested for membership (its __getitem__ auto-creates rows)")
    with rep.section("R09.9"):
        rep.floor("R09.9", "matrix[taxon] reads in the writers", 5, matrix_read_rule(index, rep, "R09.9", ["dendropy.dataio.nexuswriter", "dendropy.dataio.phylipwriter", "dendropy.dataio.fastawriter", "dendropy.dataio.nexmlwriter"]))
    rep.rule("R09.10", "cell values are written losslessly: the matrix writers format numbers with str/%s/{} only (shared with R02.6)")
    with rep.section("R09.10"):
        rep.floor("R09.10", "format strings in the matrix writers", 40, c02.lossless_format_rule(index, rep, "R09.10", ["dendropy.dataio.nexuswriter", "dendropy.dataio.nexmlwriter", "dendropy.dataio.phylipwriter", "dendropy.dataio.fastawriter"]))
    rep.rule("R09.11", "tokenizer modes do not leak from a SETS block into the next matrix: hyphens-as-tokens is switched off on every normal exit of the position-list parser (shared with R13.6)")
    with rep.section("R09.11"):
        from . import c13
        rep.floor("R09.11", "functions switching hyphens to tokens", 1, c13.mode_pairing_rule(index, rep, "R09.11"))
    rep.rule("R09.12", "SETS blocks name their matrix: the reader refuses a CHARSET without `LINK CHARACTERS` once several matrices have been read, so the writer's SETS block carries that link (or is only written for a lone matrix)")
    with rep.section("R09.12"):
        gcm = index.function(XR + "._get_char_matrix")
        needs_link = any(isinstance(r, ast.Raise) and "LinkRequiredError" in norm(r.exc) for r in ast.walk(gcm.node) if isinstance(r, ast.Raise) and r.exc is not None)
        pcs = index.function(XR + "._parse_charset_statement")
        passes_link = any(call_name(c) == "_get_char_matrix" and (get_kwarg(c, "title") is not None or c.args) for c in calls_in(pcs.node))
        wcs = index.function(XW + "._write_character_subsets")
        consts = [n.value for n in ast.walk(wcs.node) if isinstance(n, ast.Constant) and isinstance(n.value, str)]
        writes_sets = any("BEGIN SETS" in c.upper() for c in consts)
        writes_link = any(re.search(r"LINK\s+CHARACTERS", c, re.I) for c in consts) or any(call_name(c) in ("_write_link_to_char_block", "_write_link_to_characters_block") for c in calls_in(wcs.node))
        if not (needs_link and passes_link and writes_sets):
            raise AnalysisError("R09.12: reader link requirement / writer SETS block not recognised (needs_link=%s passes_link=%s writes_sets=%s)" % (needs_link, passes_link, writes_sets))
        rep.check(writes_link, "R09.12", wcs.qualname, "SETS block written without LINK CHARACTERS", fn_where(wcs), "the SETS block names the matrix its character sets belong to",
                  "NexusWriter._write_character_subsets writes `BEGIN SETS; charset ...` without a `LINK CHARACTERS = <title>` statement, while NexusReader._get_char_matrix raises LinkRequiredError for an unlinked CHARSET as soon as more than one matrix has been read: a data set with two matrices of which the second has character subsets (e.g. a concatenated matrix) cannot be read back from the NEXUS it was written to")
    rep.rule("R09.13", "what the header declares is what is written: the PHYLIP header's sequence count is the number of sequences of the matrix (len(matrix)), not the size of the namespace or of the label map; rows of a matrix are visited in namespace order (its iteration methods walk the namespace, never the row dictionary)")
    with rep.section("R09.13"):
        pw = index.function("dendropy.dataio.phylipwriter.PhylipWriter._write_char_matrix")
        mparam = [p_ for p_ in pw.params if "matrix" in p_]
        hdr = [c for c in calls_in(pw.node) if call_name(c) == "write" and c.args and isinstance(c.args[0], ast.BinOp) and isinstance(c.args[0].left, ast.Constant)
               and isinstance(c.args[0].left.value, str) and c.args[0].left.value.count("%d") == 2]
        if len(hdr) != 1 or not mparam or not isinstance(hdr[0].args[0].right, ast.Tuple):
            raise AnalysisError("R09.13: PHYLIP header write not recognised")
        cnt = hdr[0].args[0].right.elts[0]
        src = cnt
        if isinstance(cnt, ast.Name):
            ds = [a.value for a in walk_no_nested(pw.node) if isinstance(a, ast.Assign) and norm(a.targets[0]) == cnt.id]
            src = ds[0] if len(ds) == 1 else cnt
        okc = isinstance(src, ast.Call) and call_name(src) == "len" and src.args and norm(src.args[0]) == mparam[0]
        rep.check(okc, "R09.13", pw.qualname, "header sequence count is `%s`" % norm(src)[:40], fn_where(pw, hdr[0]), "the PHYLIP header count is len(%s)" % mparam[0],
                  "PhylipWriter writes `%s` as the number of sequences: rows are written only for taxa that have a sequence (suppress_missing_taxa), so for a matrix that covers part of its namespace the header promises more rows than follow and the file cannot be read back" % norm(src)[:60])
        CMq = "dendropy.datamodel.charmatrixmodel.CharacterMatrix"
        nit = 0
        for name in ("__iter__", "items", "values", "sequences", "keys"):
            m = index.find_method(index.klass(CMq), name)
            if m is None or m.cls.qualname != CMq:
                continue
            nit += 1
            loops = [l for l in ast.walk(m.node) if isinstance(l, (ast.For, ast.comprehension))]
            bad = [l for l in loops if "_taxon_sequence_map" in norm(l.iter)]
            rep.check(not bad, "R09.13", m.qualname, "matrix iterated in row-dictionary order: %s" % (norm(bad[0].iter)[:40] if bad else ""), fn_where(m), "%s walks the namespace (or the matrix itself)" % m.qualname,
                      "%s iterates `%s`: rows then come in the order the sequences were inserted, not in namespace order, so a writer built on it (FASTA) no longer writes the taxa in the order of the namespace and the round trip changes the row order" % (m.qualname, norm(bad[0].iter)[:50] if bad else ""))
        rep.floor("R09.13", "iteration methods of CharacterMatrix", 3, nit)
    rep.rule("R09.7", "per-matrix parser state: every accumulator field the NeXML characters parser fills while reading one matrix is re-initialised at the start of the next (the parser object is reused across matrices)")
    nacc = unit_state_rule(index, rep, "R09.7", NXR + "._NexmlCharBlockParser", "parse_char_matrix", NXR + ".NexmlReader._parse_char_matrices")
    rep.floor("R09.7", "accumulator fields of the NeXML characters parser", 5, nacc)
    rep.rule("R09.1", "NEXUS keyword agreement: every statement keyword / FORMAT term / DATATYPE value the writer emits has a branch in the reader")
    rep.rule("R09.2", "label escaping at the matrix sites (same table agreement as R02.1)")
    rep.rule("R09.3", "suppress_* polarity: every read of a suppress flag (directly or through a predicate returning it) gates the emission it governs negatively")
    rep.rule("R09.4", "NeXML column identity: the <char> id recorded for a cell is a function of the column, never minted per cell inside the per-taxon loop")
    rep.rule("R09.5", "NeXML characters vocabulary: tags and data-carrying attributes written for characters/format/states/state/char/matrix/row/cell are read back")
    rep.rule("R09.6", "data-type tables: reader-producible data types are keys of data_type_matrix_map; the NeXML writer's xsi:type values are dispatched by the reader")

    # ---- R09.1
    with rep.section("R09.1"):
        emitted = {}
        for name in WRITER_FUNCS:
            fi = index.function(XW + "." + name)
            for n in ast.walk(fi.node):
                if isinstance(n, ast.Constant) and isinstance(n.value, str):
                    for w in re.findall(r"(?<![A-Za-z_{%])([A-Za-z]{3,})(?![a-z_}])", n.value):
                        if w.isupper() or w in ("Translate", "charset"):
                            emitted.setdefault(w.upper(), (fi, n))
        rep.floor("R09.1", "keywords emitted by NexusWriter", 25, len(emitted))
        known = set()
        for modname in ("dendropy.dataio.nexusreader", "dendropy.dataio.nexusyielder"):
            for fi in index.functions_in_module(modname):
                for n in ast.walk(fi.node):
                    if isinstance(n, ast.Compare):
                        for c in [n.left] + list(n.comparators):
                            if isinstance(c, ast.Constant) and isinstance(c.value, str):
                                known.add(c.value.upper().lstrip("#"))
                            elif isinstance(c, (ast.List, ast.Tuple, ast.Set)):
                                known |= {e.value.upper() for e in c.elts if isinstance(e, ast.Constant) and isinstance(e.value, str)}
        rep.floor("R09.1", "keywords the NEXUS reader compares tokens with", 30, len(known))
        for w, (fi, node) in sorted(emitted.items()):
            if w in KEYWORD_EXEMPT:
                rep.ob("R09.1", fn_where(fi, node), "keyword %s: exempt - %s" % (w, KEYWORD_EXEMPT[w]), True, nontrivial=False)
                continue
            rep.check(w in known, "R09.1", fi.qualname, "keyword %s has no reader branch" % w, fn_where(fi, node), "keyword %s emitted by %s is compared by the reader" % (w, fi.name),
                      "NexusWriter.%s emits the keyword %s but no branch of the NEXUS reader compares a token with it: that part of the FORMAT/statement is skipped on re-reading" % (fi.name, w))
        # %-formatting a set/dict into the output
        cf = index.function(XW + "._compose_format_terms")
        setvars = {norm(n.targets[0]) for n in walk_no_nested(cf.node) if isinstance(n, ast.Assign) and isinstance(n.value, ast.Call) and call_name(n.value) in ("set", "dict", "list")
                   and not n.value.args}
        for n in walk_no_nested(cf.node):
            if isinstance(n, ast.BinOp) and isinstance(n.op, ast.Mod) and isinstance(n.left, ast.Constant) and isinstance(n.left.value, str) and isinstance(n.right, ast.Name) and n.right.id in setvars:
                rep.check(False, "R09.1", cf.qualname, "container formatted with %%s: %s" % norm(n)[:60], fn_where(cf, n), "container repr written into FORMAT",
                          "_compose_format_terms formats the container `%s` directly with %%s (`%s`): the Python repr of a set ends up in the FORMAT statement" % (n.right.id, norm(n)[:60]))

    # ---- R09.2
    with rep.section("R09.2"):
        c02.protect_rule(index, rep, "R09.2", ("dendropy.dataio.nexuswriter",), 7)

    # ---- R09.3
    with rep.section("R09.3"):
        n = polarity_rule(index, rep, "R09.3")
        rep.floor("R09.3", "suppress-flag gated branches", 15, n)

    # ---- R09.4
    with rep.section("R09.4"):
        ws = index.function(NXW + "._write_format_section")
        minters = {}
        for m in index.methods_of(NXW):
            for c in calls_in(m.node):
                if call_name(c) == "_get_nexml_id" and c.args and isinstance(c.args[0], ast.Call) and call_name(c.args[0]) == "object":
                    minters[m.name] = m
        rep.floor("R09.4", "NeXML writer methods that can mint a fresh <char> id", 2, len(minters))
        taxon_loops = [f for f in walk_no_nested(ws.node) if isinstance(f, ast.For) and norm(f.iter) == "char_matrix"]
        if not taxon_loops:
            raise AnalysisError("R09.4: per-taxon loop in _write_format_section not recognised")
        tl = taxon_loops[0]
        tvars = names_in(tl.target)
        ncall = 0
        for c in ast.walk(tl):
            if isinstance(c, ast.Call) and call_name(c) in minters:
                ncall += 1
                v = get_kwarg(c, "char_type_id")
                ok = False
                why = "no char_type_id is passed, so a fresh id is minted for every cell"
                if v is not None and not is_none(v):
                    defs = [d for d in ast.walk(tl) if isinstance(d, ast.Assign) and norm(d.targets[0]) == norm(v)]
                    keyed = []
                    for d in defs:
                        val = d.value
                        key = None
                        if isinstance(val, ast.Call) and call_name(val) in ("get", "setdefault") and val.args:
                            key = val.args[0]
                        elif isinstance(val, ast.Subscript):
                            key = val.slice
                        keyed.append(key)
                    ok = bool(keyed) and all(k is not None and not (names_in(k) & tvars) for k in keyed)
                    why = "the id passed (`%s`) is not looked up by a key independent of the taxon" % norm(v)
                rep.check(ok, "R09.4", ws.qualname, "per-cell id minted via %s" % call_name(c), fn_where(ws, c),
                          "_write_format_section: %s(...) inside the per-taxon loop receives a column-keyed char_type_id" % call_name(c),
                          "_write_format_section calls %s inside the per-taxon loop and %s: cells of the same column in different rows get different <char> ids and the matrix reads back with later rows shifted by None padding" % (call_name(c), why))
        rep.floor("R09.4", "calls to id-minting composers in the per-taxon loop", 2, ncall)

    # ---- R09.5
    with rep.section("R09.5"):
        rtags = reader_tags(index)
        pairs = [
            ("_write_char_matrix", [NXR + "._NexmlCharBlockParser.parse_char_matrix"], {"id": "identifier only; rows/blocks are not referenced by id"}),
            ("_compose_state_definition", [NXR + "._NexmlCharBlockParser.parse_state_alphabet", NXR + "._NexmlCharBlockParser.parse_ambiguous_state",
                                           NXR + "._NexmlCharBlockParser.parse_polymorphic_state", NXR + "._NexmlCharBlockParser.parse_characters_format"], {}),
            ("_write_format_section", [NXR + "._NexmlCharBlockParser.parse_characters_format", NXR + "._NexmlCharBlockParser.parse_state_alphabet"], {}),
            ("_compose_char_type_xml_for_state_alphabet", [NXR + "._NexmlCharBlockParser.parse_characters_format"], {}),
            ("_compose_char_type_xml_for_continuous_type", [NXR + "._NexmlCharBlockParser.parse_characters_format"], {}),
        ]
        nattr = 0
        for wname, rnames, exempt in pairs:
            wfi = index.function(NXW + "." + wname)
            tags, attrs, values = written_vocab(wfi)
            rattrs = set()
            for rn in rnames:
                rattrs |= read_attrs(index.function(rn))
            for t in sorted(tags):
                rep.check(t in rtags, "R09.5", wfi.qualname, "tag <%s> not looked up by the reader" % t, fn_where(wfi), "tag <%s> written by %s is looked up by the reader" % (t, wname),
                          "NexmlWriter.%s writes the element <%s>, which the NeXML reader never looks up" % (wname, t))
            for a in sorted(attrs):
                nattr += 1
                if a in exempt:
                    rep.ob("R09.5", fn_where(wfi), "attribute %s in %s: exempt - %s" % (a, wname, exempt[a]), True, nontrivial=False)
                    continue
                rep.check(a in rattrs, "R09.5", wfi.qualname, "attribute %s not read back" % a, fn_where(wfi), "attribute %s written by %s is read back" % (a, wname),
                          "NexmlWriter.%s writes the attribute `%s` but the reader functions %s read only %s" % (wname, a, [r.rsplit(".", 1)[1] for r in rnames], sorted(rattrs)))
        rep.floor("R09.5", "attributes written for characters-side NeXML elements", 12, nattr)

    # ---- R09.6
    with rep.section("R09.6"):
        cm = index.module("dendropy.datamodel.charmatrixmodel")
        tbl = cm.assigns.get("data_type_matrix_map")
        if not isinstance(tbl, ast.Dict):
            raise AnalysisError("R09.6: data_type_matrix_map is not a dict literal")
        keys = {const_value(k) for k in tbl.keys}
        produced = {}
        for q in (XR + "._parse_format_statement", XR + "._parse_characters_data_block", NXR + "._NexmlCharBlockParser.parse_char_matrix"):
            fi = index.function(q)
            for n in walk_no_nested(fi.node):
                if isinstance(n, ast.Assign) and "data_type" in norm(n.targets[0]) and isinstance(n.value, ast.Constant) and isinstance(n.value.value, str):
                    produced.setdefault(n.value.value, (fi, n))
        rep.floor("R09.6", "data types the readers can produce", 7, len(produced))
        for dt, (fi, node) in sorted(produced.items()):
            rep.check(dt in keys, "R09.6", fi.qualname, "data type %r" % dt, fn_where(fi, node), "reader data type %r is a key of data_type_matrix_map" % dt,
                      "%s produces the data type %r, for which data_type_matrix_map has no matrix class (keys: %s)" % (fi.qualname, dt, sorted(keys)))
        wcm = index.function(NXW + "._write_char_matrix")
        wtypes = {m.group(1) for n in ast.walk(wcm.node) if isinstance(n, ast.Constant) and isinstance(n.value, str) for m in [re.match(r"^nex:([A-Za-z]+)$", n.value)] if m}
        markups = {n.value for n in ast.walk(wcm.node) if isinstance(n, ast.Constant) and n.value in ("Seqs", "Cells")}
        pcm = index.function(NXR + "._NexmlCharBlockParser.parse_char_matrix")
        rtypes = {const_value(c.args[0]) for c in calls_in(pcm.node) if call_name(c) == "startswith" and c.args}
        rmark = {const_value(c.args[0]) for c in calls_in(pcm.node) if call_name(c) == "endswith" and c.args}
        rep.floor("R09.6", "xsi:type values written", 6, len(wtypes))
        for t in sorted(wtypes):
            rep.check(any(t.startswith(rt) for rt in rtypes if rt), "R09.6", wcm.qualname, "xsi:type nex:%s*" % t, fn_where(wcm), "xsi:type nex:%s* is dispatched by the reader" % t,
                      "the NeXML writer marks a matrix as nex:%s... but the reader dispatches only on %s" % (t, sorted(x for x in rtypes if x)))
        rep.check("Seqs" in markups and "Seqs" in rmark and "Cells" in markups, "R09.6", wcm.qualname, "markup suffixes %s / reader %s" % (sorted(markups), sorted(x for x in rmark if x)), fn_where(wcm),
                  "markup suffixes Seqs/Cells agree (reader treats non-Seqs as Cells)", "the Seqs/Cells markup suffixes of writer and reader disagree")

    # ---- R09.14 a cell that is zero is still a cell
    with rep.section("R09.14"):
        rep.rule("R09.14", "a cell that is zero is still a cell: in the matrix writers a value obtained by iterating a sequence (directly, through enumerate() or cell_iter()) is never tested by truthiness - a continuous value of 0 / 0.0 is data")
        ncell = 0
        for m in (DIO + "nexmlwriter", DIO + "nexuswriter", DIO + "phylipwriter", DIO + "fastawriter"):
            for f in index.functions_in_module(m):
                # sequences: <x>[taxon] of a matrix, loop targets of matrix.items()/values()
                seqs = set()
                for a in walk_no_nested(f.node):
                    if isinstance(a, ast.Assign) and isinstance(a.targets[0], ast.Name) and isinstance(a.value, ast.Subscript) and "matrix" in norm(a.value.value):
                        seqs.add(a.targets[0].id)
                    if isinstance(a, ast.For) and isinstance(a.iter, ast.Call) and isinstance(a.iter.func, ast.Attribute) and "matrix" in norm(a.iter.func.value):
                        if a.iter.func.attr == "items" and isinstance(a.target, ast.Tuple) and len(a.target.elts) == 2 and isinstance(a.target.elts[1], ast.Name):
                            seqs.add(a.target.elts[1].id)
                        elif a.iter.func.attr in ("values", "sequences", "vectors", "sequence_iter") and isinstance(a.target, ast.Name):
                            seqs.add(a.target.id)
                cells = set()
                loops = [x for x in ast.walk(f.node) if isinstance(x, (ast.For, ast.comprehension))]
                for l in loops:
                    it, tg = l.iter, l.target
                    en = isinstance(it, ast.Call) and isinstance(it.func, ast.Name) and it.func.id == "enumerate" and it.args
                    if en:
                        it = it.args[0]
                        tg = tg.elts[1] if isinstance(tg, ast.Tuple) and len(tg.elts) == 2 else None
                    if tg is None:
                        continue
                    base = it.func.value if isinstance(it, ast.Call) and isinstance(it.func, ast.Attribute) and it.func.attr in ("cell_iter", "values", "__iter__") else it
                    if not (isinstance(base, ast.Name) and base.id in seqs):
                        continue
                    if isinstance(it, ast.Call) and it.func.attr == "cell_iter":
                        tg = tg.elts[0] if isinstance(tg, ast.Tuple) and tg.elts else None
                    if isinstance(tg, ast.Name):
                        cells.add(tg.id)
                if not cells:
                    continue
                g = cfg_of(f)
                for t in g.nodes:
                    if t.kind == "test" and isinstance(t.ast, ast.Name) and t.ast.id in cells:
                        rep.check(False, "R09.14", f.qualname, "matrix cell tested by truthiness", fn_where(f, t.stmt), "",
                                  "%s tests the cell value `%s` by truthiness (`%s`): state identities are always true, but a continuous matrix holds numbers and a cell of exactly 0 / 0.0 is then skipped - the row is written one cell short and every later value moves one column to the left on read-back" % (f.qualname, t.ast.id, norm_stmt(t.stmt)[:50]))
                ncell += len(cells)
        rep.floor("R09.14", "cell variables in the matrix writers", 3, ncell)

    # ---- R09.15 the smallest PHYLIP matrix the writer emits is accepted by the reader
    with rep.section("R09.15"):
        rep.rule("R09.15", "a 1xN matrix survives PHYLIP: the writer emits header + one newline-terminated row, and the number of items the reader's line splitter makes of that text passes the reader's minimum-lines guard")
        pw = index.function(DIO + "phylipwriter.PhylipWriter._write_char_matrix")
        writes = [c for c in calls_in(pw.node) if isinstance(c.func, ast.Attribute) and c.func.attr == "write" and c.args]
        fmts = []
        for c in writes:
            a0 = c.args[0]
            lit = a0.left if isinstance(a0, ast.BinOp) and isinstance(a0.op, ast.Mod) else (a0.func.value if isinstance(a0, ast.Call) and isinstance(a0.func, ast.Attribute) and a0.func.attr == "format" else a0)
            if not (isinstance(lit, ast.Constant) and isinstance(lit.value, str)):
                raise AnalysisError("R09.15: a PHYLIP row is written from a non-literal template")
            fmts.append(lit.value)
        if len(fmts) < 2 or not all(x.endswith("\n") and x.count("\n") == 1 for x in fmts):
            raise AnalysisError("R09.15: PHYLIP writer rows are not single newline-terminated lines (%s)" % fmts)
        k = 2       # header + one row, each newline-terminated
        gl = index.function("dendropy.utility.filesys.get_lines")
        rets = [r for r in walk_no_nested(gl.node) if isinstance(r, ast.Return) and r.value is not None]
        if len(rets) != 1:
            raise AnalysisError("R09.15: get_lines return not recognised")
        rv = rets[0].value
        if isinstance(rv, ast.Name):
            ds = [a for a in walk_no_nested(gl.node) if isinstance(a, ast.Assign) and norm(a.targets[0]) == rv.id]
            if len(ds) != 1:
                raise AnalysisError("R09.15: get_lines return not recognised")
            rv = ds[0].value
        items = None
        how = norm(rv)[:50]
        if isinstance(rv, ast.Call):
            fn = norm(rv.func)
            if fn == "re.split" and rv.args and isinstance(rv.args[0], ast.Constant) and "\\n" in repr(rv.args[0].value):
                items = k + 1       # the text ends with a terminator: a trailing empty item
            elif isinstance(rv.func, ast.Attribute) and rv.func.attr == "split" and rv.args and isinstance(rv.args[0], ast.Constant) and rv.args[0].value in ("\n", "\r\n"):
                items = k + 1
            elif isinstance(rv.func, ast.Attribute) and rv.func.attr in ("splitlines", "readlines"):
                items = k
            elif fn == "list":
                items = k
        if items is None:
            raise AnalysisError("R09.15: line splitting `%s` in get_lines is not one of the modelled forms" % how)
        pr = index.function(DIO + "phylipreader.PhylipReader._read")
        g = cfg_of(pr)
        lv = [norm(a.targets[0]) for a in walk_no_nested(pr.node) if isinstance(a, ast.Assign) and isinstance(a.value, ast.Call) and call_name(a.value) == "get_lines"]
        # ... or through a comprehension that drops empty / blank items: then only the k written lines remain
        filt = [a for a in walk_no_nested(pr.node) if isinstance(a, ast.Assign) and isinstance(a.value, ast.ListComp) and len(a.value.generators) == 1 and isinstance(a.value.generators[0].iter, ast.Call) and call_name(a.value.generators[0].iter) == "get_lines"]
        if not lv and len(filt) == 1:
            gen = filt[0].value.generators[0]
            tv = norm(gen.target)
            drops_blank = any(norm(c) in (tv, tv + ".strip()", "len(%s)" % tv, "%s != ''" % tv) for c in gen.ifs)
            if not drops_blank or norm(filt[0].value.elt) not in (tv, tv + ".strip()", tv + ".rstrip()"):
                raise AnalysisError("R09.15: the filter applied to get_lines(...) in PhylipReader._read is not modelled")
            lv = [norm(filt[0].targets[0])]
            items = k
            how = norm(filt[0].value)[:60]
        if len(lv) != 1:
            raise AnalysisError("R09.15: PhylipReader._read no longer obtains its lines from get_lines")
        lenexpr = "len(%s)" % lv[0]
        nguard = 0
        for t in g.nodes:
            if t.kind == "test" and isinstance(t.ast, ast.Compare) and len(t.ast.ops) == 1 and norm(t.ast.left) == lenexpr and isinstance(t.ast.comparators[0], ast.Constant) and isinstance(t.ast.comparators[0].value, int):
                c = t.ast.comparators[0].value
                op = type(t.ast.ops[0]).__name__
                holds = {"Eq": items == c, "NotEq": items != c, "Lt": items < c, "LtE": items <= c, "Gt": items > c, "GtE": items >= c}.get(op)
                if holds is None:
                    continue
                nguard += 1
                r_ = raises_in_branch(g, t, "t") if holds else None
                rep.check(r_ is None, "R09.15", pr.qualname, "a one-row PHYLIP file fails the line-count guard `%s`" % norm(t.ast), fn_where(pr, t.stmt), "guard `%s` admits the %d items get_lines makes of header + one row" % (norm(t.ast), items),
                          "the PHYLIP writer emits header + one newline-terminated row for a 1xN matrix; get_lines (`%s`) turns that text into %d items, and PhylipReader._read refuses under `%s`: every single-sequence matrix written to PHYLIP fails to read back" % (how, items, norm(t.ast)))
        rep.floor("R09.15", "line-count guards in PhylipReader._read", 1, nguard)

    # ---- R09.16 a multistate cell is written the way it is read
    with rep.section("R09.16"):
        rep.rule("R09.16", "a symbol-less multistate cell is written the way it is read: whatever string StateIdentity.member_states_str puts between the member symbols ({0,1} / (1,2)) is skipped by the NEXUS reader's multistate loop, which otherwise takes every token between the brackets for a state symbol")
        ms = index.function("dendropy.datamodel.charstatemodel.StateIdentity._get_member_states_str")
        joins = [c for c in calls_in(ms.node) if isinstance(c.func, ast.Attribute) and c.func.attr == "join" and isinstance(c.func.value, ast.Constant) and isinstance(c.func.value.value, str)]
        if not joins:
            raise AnalysisError("R09.16: member_states_str no longer joins the member symbols with a literal")
        seps = sorted({c.func.value.value for c in joins})
        rd = index.function(XR + "._read_character_states")
        inner = [w for w in ast.walk(rd.node) if isinstance(w, ast.While) and any(isinstance(c, ast.Call) and call_name(c) == "append" and "multistate" in norm(c.func.value) for c in ast.walk(w)) and not any(isinstance(x, ast.While) and x is not w for x in ast.walk(w))]
        if len(inner) != 1:
            raise AnalysisError("R09.16: multistate token loop of _read_character_states not recognised")
        skipped = set()
        for t in ast.walk(inner[0]):
            if isinstance(t, ast.Compare) and len(t.ops) == 1 and "token" in norm(t.left):
                if isinstance(t.ops[0], (ast.Eq, ast.NotEq)) and isinstance(t.comparators[0], ast.Constant):
                    skipped.add(t.comparators[0].value)
                if isinstance(t.ops[0], (ast.In, ast.NotIn)) and isinstance(t.comparators[0], (ast.Tuple, ast.List, ast.Set, ast.Constant)):
                    c0 = t.comparators[0]
                    skipped |= set(c0.value) if isinstance(c0, ast.Constant) and isinstance(c0.value, str) else {const_value(e) for e in getattr(c0, "elts", [])}
        for sep in seps:
            ok = sep == "" or sep.strip() == "" or sep in skipped
            rep.check(ok, "R09.16", rd.qualname, "separator %r between member symbols is read as a state symbol" % sep, fn_where(rd, inner[0]), "separator %r of member_states_str is skipped by the reader" % sep,
                      "StateIdentity.member_states_str renders a symbol-less ambiguous / polymorphic state as its members joined by %r (`{0,1}`), and that is what the NEXUS writer puts into the matrix; NexusReader._read_character_states joins every token between the brackets and looks the result up symbol by symbol, so %r is an unknown state symbol: a standard matrix with an uncoded multistate cell cannot be read back from the NEXUS the library wrote" % (sep, sep))
        rep.floor("R09.16", "separators in member_states_str", 1, len(seps))

    # ---- R09.17 rules owned by other properties that this one rests on
    with rep.section("R09.17"):
        rep.rule("R09.17", "a matrix obtained by copying or exporting keeps its state alphabets (C12 R12.8), and NeXML attribute values - taxon and matrix labels - are escaped as XML (C02 R02.9)")
        rep.floor("R09.17", "borrowed obligations", 2, borrow(index, rep, "C12", {"R12.8"}, "R09.17") + borrow(index, rep, "C02", {"R02.9"}, "R09.17"))

    # ---- R09.18 the symbols of a standard alphabet keep their case
    with rep.section("R09.18"):
        rep.rule("R09.18", "state symbols keep their case: in the FORMAT statement the members of the SYMBOLS list are data, read with the case-preserving token reader - only keywords go through the upper-casing one")
        pf = index.function(XR + "._parse_format_statement")
        grows = [a for a in ast.walk(pf.node) if isinstance(a, ast.Assign) and norm(a.targets[0]) == "self._symbols" and isinstance(a.value, ast.BinOp)]
        if len(grows) != 1:
            raise AnalysisError("R09.18: growth of self._symbols in _parse_format_statement not recognised")
        src = [x.id for x in ast.walk(grows[0].value) if isinstance(x, ast.Name) and x.id != "self"]
        if len(src) != 1:
            raise AnalysisError("R09.18: the token appended to self._symbols was not recognised")
        tok = src[0]
        pm = parent_map(pf.node)
        loop = pm.get(grows[0])
        while loop is not None and not isinstance(loop, ast.While):
            loop = pm.get(loop)
        if loop is None:
            raise AnalysisError("R09.18: SYMBOLS loop not recognised")
        # definitions of the token that reach the append: the one just before the loop and the one at the end of its body
        defs = [a for a in ast.walk(loop) if isinstance(a, ast.Assign) and norm(a.targets[0]) == tok and isinstance(a.value, ast.Call)]
        blk = pm.get(loop)
        for fld in ("body", "orelse"):
            lst = getattr(blk, fld, None)
            if isinstance(lst, list) and loop in lst:
                k = lst.index(loop)
                if k > 0 and isinstance(lst[k - 1], ast.Assign) and norm(lst[k - 1].targets[0]) == tok:
                    defs.append(lst[k - 1])
        if not defs:
            raise AnalysisError("R09.18: token reads of the SYMBOLS loop not recognised")
        for d in defs:
            nm_ = call_name(d.value)
            rep.check(not nm_.endswith("ucase"), "R09.18", pf.qualname, "SYMBOLS member read through the upper-casing token reader", fn_where(pf, d), "SYMBOLS members are read with %s" % nm_,
                      "_parse_format_statement reads the members of the SYMBOLS list with `%s`: a standard alphabet over lower-case symbols (a, b, c) is rebuilt over A, B, C, so the rows read back carry other symbols than the ones written (abca -> ABCA)" % nm_)
        rep.floor("R09.18", "token reads feeding the SYMBOLS list", 2, len(defs))

    # ---- R09.19 titles are unique the way the reader compares them
    with rep.section("R09.19"):
        rep.rule("R09.19", "block titles are unique the way the reader compares them: the NEXUS reader matches LINK / TITLE values after upper-casing both sides, so the writer's uniqueness probe and the key it records are case-folded too (two namespaces labelled `taxa` and `TAXA` must not get the same title)")
        folded_reads = 0
        for q in ("_get_taxon_namespace", "_get_char_matrix", "_get_tree_list"):
            f = index.functions.get(XR + "." + q)
            if f is None:
                continue
            for c in ast.walk(f.node):
                if isinstance(c, ast.Compare) and len(c.ops) == 1 and isinstance(c.ops[0], ast.Eq) and all(isinstance(x, ast.Call) and isinstance(x.func, ast.Attribute) and x.func.attr in ("upper", "lower", "casefold") for x in (c.left, c.comparators[0])):
                    folded_reads += 1
        if folded_reads == 0:
            raise AnalysisError("R09.19: the reader's case-insensitive title comparison was not recognised")
        gt = index.function(XW + "._get_block_title")
        probes = [t for t in ast.walk(gt.node) if isinstance(t, ast.Compare) and len(t.ops) == 1 and isinstance(t.ops[0], (ast.In, ast.NotIn)) and norm(t.comparators[0]) == "self._title_block_map"]
        stores = [a for a in ast.walk(gt.node) if isinstance(a, ast.Assign) and isinstance(a.targets[0], ast.Subscript) and norm(a.targets[0].value) == "self._title_block_map"]
        if not probes or not stores:
            raise AnalysisError("R09.19: uniqueness probe / record in _get_block_title not recognised")

        def is_folded(e):
            return isinstance(e, ast.Call) and isinstance(e.func, ast.Attribute) and e.func.attr in ("upper", "lower", "casefold") and not e.args
        for pr in probes:
            rep.check(is_folded(pr.left), "R09.19", gt.qualname, "title probed case-sensitively: %s" % norm(pr)[:50], fn_where(gt, pr), "the uniqueness probe folds the title",
                      "NexusWriter._get_block_title tests `%s` with the title as spelled, while the reader compares titles after .upper(): the labels `taxa` and `TAXA` pass as distinct titles, and reading the file back fails with MultipleBlockWithSameTitleError (or links a block to the wrong namespace)" % norm(pr)[:60])
        for st in stores:
            rep.check(is_folded(st.targets[0].slice), "R09.19", gt.qualname, "title recorded case-sensitively: %s" % norm(st.targets[0])[:50], fn_where(gt, st), "the recorded key is the folded title",
                      "NexusWriter._get_block_title records the title under `%s`: the probe for the next block must find titles that differ only in case" % norm(st.targets[0])[:60])
        rep.floor("R09.19", "case-folding title comparisons in the reader", 2, folded_reads)

    # ---- R09.20 the FORMAT statement is composed for the matrix at hand
    with rep.section("R09.20"):
        rep.rule("R09.20", "what the NEXUS writer composes for a matrix is a function of that matrix: the _compose_* methods store nothing on the writer (a FORMAT string remembered per data type would give the second STANDARD matrix of a document the first one's SYMBOLS)")
        ncomp = 0
        for m in index.klass(XW).methods.values():
            if not m.name.startswith("_compose"):
                continue
            ncomp += 1
            ws = [w for w in writes_in(m.node) if w.base is not None and (norm(w.base) == "self" or norm(w.base).startswith("self."))]
            rep.check(not ws, "R09.20", m.qualname, "compose method stores on the writer: %s" % (norm_stmt(ws[0].stmt)[:50] if ws else ""), fn_where(m, ws[0].stmt if ws else None), "%s stores nothing on the writer" % m.name,
                      "NexusWriter.%s keeps state on the writer (`%s`): what it composes depends on the matrix it is given - for standard data on that matrix's own state alphabets - so anything remembered from one matrix is wrong for the next block of the same kind in the same document" % (m.name, norm_stmt(ws[0].stmt)[:60] if ws else ""))
        rep.floor("R09.20", "compose methods of the NEXUS writer", 1, ncomp)

    # ---- R09.21 a tokenizer mode setter undoes what it does
    with rep.section("R09.21"):
        rep.rule("R09.21", "a tokenizer mode setter undoes exactly what it does: for set_capture_eol and set_hyphens_as_captured_delimiters every character the on-branch adds to a delimiter set is discarded from that same set by the off-branch, and every character the on-branch discards is added back by the off-branch or was never a member to begin with")
        nt = index.klass("dendropy.dataio.nexusprocessing.NexusTokenizer")
        nset = 0
        for name in ("set_capture_eol", "set_hyphens_as_captured_delimiters"):
            m = nt.methods[name]
            top = [st for st in m.node.body if isinstance(st, ast.If)]
            if len(top) != 1 or not top[0].orelse:
                raise AnalysisError("R09.21: %s is not a single on/off conditional" % m.qualname)
            def ops(block):
                add, dis = set(), set()
                for st in block:
                    for c in ast.walk(st):
                        if isinstance(c, ast.Call) and isinstance(c.func, ast.Attribute) and norm(c.func.value).startswith("self.") and c.args:
                            a0 = c.args[0]
                            if isinstance(a0, ast.Constant):
                                items = [a0.value] if c.func.attr in ("add", "discard", "remove") else (list(a0.value) if isinstance(a0.value, str) else None)
                            elif isinstance(a0, (ast.List, ast.Tuple, ast.Set)) and all(isinstance(e, ast.Constant) for e in a0.elts):
                                items = [e.value for e in a0.elts]
                            else:
                                items = None
                            if items is None:
                                if c.func.attr in ("add", "discard", "remove", "update", "difference_update"):
                                    raise AnalysisError("R09.21: %s: `%s` changes a delimiter set by something that is not a constant" % (m.qualname, norm(c)[:50]))
                                continue
                            if c.func.attr in ("add", "update"):
                                add.update((norm(c.func.value), i_) for i_ in items)
                            elif c.func.attr in ("discard", "remove", "difference_update"):
                                dis.update((norm(c.func.value), i_) for i_ in items)
                return add, dis
            _t, on_body, off_body = pos_if(top[0])
            on_add, on_dis = ops(on_body)
            off_add, off_dis = ops(off_body)
            nset += 1
            rep.check(on_dis <= off_add or not on_dis, "R09.21", m.qualname, "off-branch does not add back what the on-branch discards", fn_where(m), "%s: on discards %s, off adds them back" % (name, sorted(on_dis)),
                      "%s discards %s when switched on but adds back only %s when switched off: after an interleaved matrix (or a CHARSET statement) the missing character is no delimiter of any kind any more - a carriage return then sticks to the token before it, so a CR-LF document that reads from a path (universal newlines) is refused when it arrives as a string" % (m.qualname, sorted(on_dis), sorted(off_add)))
            rep.check(on_add == off_dis and bool(on_add), "R09.21", m.qualname, "off-branch does not discard what the on-branch adds", fn_where(m), "%s: on adds %s, off discards the same" % (name, sorted(on_add)),
                      "%s adds %s when switched on but discards %s when switched off: the mode cannot be switched back, so once a CHARSET statement has made `-` a token (or an interleaved matrix has made line ends tokens) it stays one for the rest of the document - a later negative number is read as two tokens" % (m.qualname, sorted(on_add), sorted(off_dis)))
        rep.floor("R09.21", "mode setters of the NEXUS tokenizer", 2, nset)

    # ---- R09.22 data written into an XML attribute is escaped
    with rep.section("R09.22"):
        rep.rule("R09.22", "data written into an XML attribute is escaped: in the NeXML writer a quoted placeholder of an attribute (`name=\"%s\"`) is filled from identifiers the writer generates itself (id maps, _get_nexml_id) or constants; a value that comes from the data (a state's symbol, a label, a value) goes through _protect_attr instead, which quotes and escapes it - a state symbol `<` or `&` written raw makes the document ill-formed and the matrix unreadable")
        DATA_ATTRS = {"symbol", "label", "value", "description", "name", "symbol_synonyms"}
        n22 = 0
        for fi in index.functions_in_module(DIO + "nexmlwriter"):
            for b in ast.walk(fi.node):
                if not (isinstance(b, ast.BinOp) and isinstance(b.op, ast.Mod) and isinstance(b.left, ast.Constant) and isinstance(b.left.value, str)):
                    continue
                tmpl = b.left.value
                args = list(b.right.elts) if isinstance(b.right, ast.Tuple) else [b.right]
                import re as _re
                phs = [m_ for m_ in _re.finditer(r"%(?:\([^)]*\))?[-#0 +]*\d*(?:\.\d+)?[sdrfg%]", tmpl)]
                phs = [m_ for m_ in phs if not m_.group(0).endswith("%%") and m_.group(0) != "%%"]
                if len(phs) != len(args):
                    continue
                for m_, a in zip(phs, args):
                    quoted = tmpl[max(0, m_.start() - 2):m_.start()] == '="'
                    if not quoted:
                        continue
                    n22 += 1
                    data = [x for x in ast.walk(a) if isinstance(x, ast.Attribute) and x.attr in DATA_ATTRS and isinstance(x.ctx, ast.Load)]
                    # inside a call of _protect_attr the value is escaped (and brings its own quotes: then the template must not quote again - other rule)
                    prot = [c for c in ast.walk(a) if isinstance(c, ast.Call) and call_name(c) in ("_protect_attr", "escape", "quoteattr")]
                    inside = lambda x: any(any(y is x for y in ast.walk(c)) for c in prot)
                    bad = [x for x in data if not inside(x)]
                    rep.check(not bad, "R09.22", fi.qualname, "`%s` written raw into the attribute `%s`" % (norm(bad[0]) if bad else "", tmpl[max(0, m_.start() - 12):m_.start()].split()[-1] if bad else ""), fn_where(fi, b), "%s: attribute placeholders filled with identifiers or escaped values" % fi.name,
                              "%s fills the attribute `%s%s` from `%s` without escaping: a value that contains `<`, `&` or a double quote (a state symbol of a standard alphabet, say) makes the NeXML document ill-formed - the reader fails with an XML ParseError and the matrix does not come back" % (fi.qualname, tmpl[max(0, m_.start() - 12):m_.start()].split()[-1] if bad else "", "%s", norm(bad[0]) if bad else ""))
        rep.floor("R09.22", "quoted attribute placeholders in the NeXML writer", 10, n22)

    # ---- R09.24 generated ids are keyed by the object, which keeps it alive
    with rep.section("R09.24"):
        rep.rule("R09.24", "generated identifiers are keyed by the object they were generated for: the id tables of the NeXML writer (`_object_xml_id`, `_*_id_map`) are subscripted with the object itself - a table keyed by `id(obj)` does not keep the object alive, and the writer asks for ids of throw-away objects (one per column without a character type) whose addresses are reused at once, so every such column would receive the same `<char>` id and every row would collapse into one cell")
        n24 = 0
        for fi in index.functions_in_module(DIO + "nexmlwriter"):
            ids = {norm(st.targets[0]) for st in walk_no_nested(fi.node) if isinstance(st, ast.Assign) and len(st.targets) == 1 and isinstance(st.value, ast.Call) and call_name(st.value) == "id" and isinstance(st.value.func, ast.Name)}
            for x in ast.walk(fi.node):
                if isinstance(x, ast.Subscript) and isinstance(x.value, ast.Attribute) and (x.value.attr == "_object_xml_id" or x.value.attr.endswith("_id_map")):
                    n24 += 1
                    k = x.slice
                    by_id = any(isinstance(c, ast.Call) and isinstance(c.func, ast.Name) and c.func.id == "id" for c in ast.walk(k)) or norm(k) in ids
                    rep.check(not by_id, "R09.24", fi.qualname, "`%s` keyed by id()" % norm(x.value), fn_where(fi, x), "%s: %s keyed by the object" % (fi.name, norm(x.value)),
                              "%s keys `%s` by `%s`, an id(): the table then holds no reference to the object, and the writer requests ids for temporary objects (one fresh object() per column that has no character type) - CPython hands the freed address to the next one, so all those columns get ONE id and a matrix built from a dictionary, NEXUS, FASTA or PHYLIP comes back from NeXML with a single state per row" % (fi.qualname, norm(x.value), norm(k)))
        rep.floor("R09.24", "subscripts of the NeXML writer's id tables", 8, n24)

    # ---- R09.25 a quoted `;` is a label in the NEXUS label lists too
    with rep.section("R09.25"):
        rep.rule("R09.25", "a quoted `;` is a label: where the NEXUS reader loops `while token != ';'` over tokens that it takes for taxon labels (TAXLABELS, the rows of a MATRIX) the loop test also consults the tokenizer's is_token_quoted flag - the writer quotes a label that is exactly `;`, the tokenizer hands it back bare, and the list or the matrix would end at that taxon (a truncated or empty matrix, no error)")
        n25 = 0
        for fi in index.functions_in_module(DIO + "nexusreader"):
            for lp in walk_no_nested(fi.node):
                if not isinstance(lp, ast.While):
                    continue
                cmps = [x for x in ast.walk(lp.test) if isinstance(x, ast.Compare) and len(x.ops) == 1 and isinstance(x.ops[0], (ast.Eq, ast.NotEq)) and isinstance(x.comparators[0], ast.Constant) and x.comparators[0].value == ";" and isinstance(x.left, ast.Name)]
                if not cmps:
                    continue
                tv = cmps[0].left.id
                as_label = any((isinstance(c, ast.Call) and any(k.arg == "label" and norm(k.value) == tv for k in c.keywords)) for st in lp.body for c in ast.walk(st)) \
                    or any(isinstance(a, ast.Assign) and norm(a.value) == tv and any("label" in norm(t) for t in a.targets) for st in lp.body for a in ast.walk(st))
                if not as_label:
                    continue
                n25 += 1
                ok = any(isinstance(y, ast.Attribute) and y.attr == "is_token_quoted" for y in ast.walk(lp.test))
                rep.check(ok, "R09.25", fi.qualname, "label list ended by a bare comparison with `;`", fn_where(fi, lp), "%s: the loop test consults is_token_quoted" % fi.name,
                          "%s reads taxon labels in a loop that stops at `%s == ';'` without asking whether the token was quoted: a taxon whose label is exactly `;` is written `';'` and read back as the end of the statement - the TAXLABELS list (or the matrix) stops there, later rows are lost or attached to the wrong statement, and nothing is reported" % (fi.qualname, tv))
        rep.floor("R09.25", "label-reading loops of the NEXUS reader", 4, n25)

    # ---- R09.26 the NTAX yardstick belongs to the block that declared it
    with rep.section("R09.26"):
        rep.rule("R09.26", "the NTAX yardstick belongs to the block that declared it: the reader keeps ONE `_file_specified_ntax`, overwritten by every DIMENSIONS statement, and the CHARACTERS blocks this library writes carry NCHAR only - so in a document with several TAXA blocks the value a matrix sees is the LAST TAXA block's, not the linked one's. A matrix's row count is therefore refused against it (a raising comparison in the matrix statement or the two data routines) only if the characters-block routine gives the field a value of its own before its DIMENSIONS statement is read")
        nrq = "dendropy.dataio.nexusreader.NexusReader."
        fns26 = [index.function(nrq + x) for x in ("_parse_matrix_statement", "_process_discrete_matrix_data", "_process_continuous_matrix_data")]
        cdb = index.function(nrq + "_parse_characters_data_block")
        gcdb = cfg_of(cdb)
        dim_nodes = [n for n in gcdb.nodes if any(call_name(c) == "_parse_dimensions_statement" for c in node_calls(n))]
        if not dim_nodes:
            raise AnalysisError("R09.26: _parse_characters_data_block no longer calls _parse_dimensions_statement")
        scoped = all(gcdb.dominated_by(dn, lambda n: n.kind == "stmt" and isinstance(n.ast, ast.Assign) and any(norm(t) == "self._file_specified_ntax" for t in n.ast.targets)) for dn in dim_nodes)
        n26 = 0
        for f_ in fns26:
            g_ = cfg_of(f_)
            for n_ in g_.nodes:
                if n_.kind == "test" and isinstance(n_.ast, ast.Compare) and "self._file_specified_ntax" in norm(n_.ast) and "len(" in norm(n_.ast) and (raises_in_branch(g_, n_, "t") is not None or raises_in_branch(g_, n_, "f") is not None):
                    n26 += 1
                    rep.check(scoped, "R09.26", f_.qualname, "row count refused against a stale NTAX", fn_where(f_, n_.stmt), "%s: `%s` - the field is set afresh per characters block" % (f_.name, norm(n_.ast)[:60]),
                              "%s refuses a matrix on `%s`, but _parse_characters_data_block never gives `_file_specified_ntax` a value of its own: a CHARACTERS block as this library writes it declares NCHAR only, so the NTAX compared is the one of the most recent TAXA block - a data set with namespaces of 4 and 2 taxa, each with a matrix, is written and then refused on reading back ('2 taxa declared, 4 rows found')" % (f_.qualname, norm(n_.ast)[:70]))
        rep.ob("R09.26", cdb.qualname, "%d raising row-count comparisons against _file_specified_ntax; field %s per characters block" % (n26, "reset" if scoped else "NOT reset"), fn_where(cdb))

    # ---- R09.27 the command word of a block loop is not overwritten with the document's data
    with rep.section("R09.27"):
        rep.rule("R09.27", "the command word of a block loop is not overwritten with the document's data: in the NEXUS block parsers the variable the loop dispatches on (compared with END / TITLE / DIMENSIONS / TAXLABELS ...) is assigned from the tokenizer only, never from the result of a statement parser such as _parse_title_statement() - a block titled `END` or `TAXLABELS` (the label of a taxon namespace, written as TITLE when a data set has several) would end the block, or be taken for the command, on reading back")
        n27 = 0
        for mname, mf in sorted(index.klass("dendropy.dataio.nexusreader.NexusReader").methods.items()):
            if not (mname.startswith("_parse_") and mname.endswith("_block")):
                continue
            for loop in [l for l in walk_no_nested(mf.node) if isinstance(l, ast.While)]:
                dispatch = {x.left.id for x in ast.walk(loop.test) if isinstance(x, ast.Compare) and isinstance(x.left, ast.Name) and any(isinstance(c, ast.Constant) and c.value in ("END", "ENDBLOCK") for c in x.comparators)}
                if not dispatch:
                    continue
                n27 += 1
                for st in ast.walk(loop):
                    if isinstance(st, ast.Assign) and any(isinstance(t, ast.Name) and t.id in dispatch for t in st.targets) and isinstance(st.value, ast.Call) \
                            and isinstance(st.value.func, ast.Attribute) and norm(st.value.func.value) == "self" and st.value.func.attr.startswith("_parse_"):
                        rep.check(False, "R09.27", mf.qualname, "command word overwritten by a statement's result", fn_where(mf, st), "",
                                  "NexusReader.%s assigns `%s` to the variable its loop dispatches on: the result is text from the document (a block title), and the tests that follow - and the loop's own END test - take it for a command. A data set with two namespaces, the first labelled `END`, is written with `TITLE END;` and read back with a namespace that lost every taxon without a sequence; labelled `TAXLABELS`, its `DIMENSIONS NTAX=3;` is read as three taxon labels" % (mname, norm_stmt(st)[:60]))
        rep.floor("R09.27", "block loops dispatching on a command word", 2, n27)

    # ---- R09.28 a block is titled exactly when it is linked to
    with rep.section("R09.28"):
        rep.rule("R09.28", "a block is titled exactly when it is linked to: NexusWriter._write_block_title and _write_link_to_taxa_block leave early on the same conditions (whether blocks are linked at all, and whether _get_block_title gives a title for the block) - a TITLE that is left out for an unlabelled namespace while the CHARACTERS / TREES blocks still write `LINK TAXA = <generated title>` produces a document that the reader refuses (UndefinedBlockError)")
        sib = {}
        for nm in ("_write_block_title", "_write_link_to_taxa_block"):
            f = index.function("dendropy.dataio.nexuswriter.NexusWriter." + nm)
            prm = [p_ for p_ in f.params if p_ not in ("self", "stream")]
            if len(prm) != 1:
                raise AnalysisError("R09.28: %s: the block parameter not recognised" % nm)
            loc = {t.id: norm(a.value) for a in walk_no_nested(f.node) if isinstance(a, ast.Assign) for t in a.targets if isinstance(t, ast.Name)}
            guards = set()
            for st in walk_no_nested(f.node):
                if isinstance(st, ast.If) and any(isinstance(x, ast.Return) for x in st.body):
                    for atom in (st.test.values if isinstance(st.test, ast.BoolOp) and isinstance(st.test.op, ast.Or) else [st.test]):
                        txt = norm(atom)
                        for k, v in loc.items():
                            txt = re.sub(r"\b%s\b" % re.escape(k), "(%s)" % v, txt)
                        txt = re.sub(r"\b%s\b" % re.escape(prm[0]), "$block", txt)
                        guards.add(txt)
            sib[nm] = (f, guards)
        (f1, g1), (f2, g2) = sib["_write_block_title"], sib["_write_link_to_taxa_block"]
        rep.check(g1 == g2, "R09.28", f1.qualname, "TITLE and LINK written on different conditions", fn_where(f1), "TITLE and LINK TAXA are written on the same conditions (%d early-return conditions each)" % len(g1),
                  "NexusWriter._write_block_title returns early on %s, _write_link_to_taxa_block on %s: the two must agree, or a block is referred to by a title it was never given - a data set with two unlabelled namespaces is written with `LINK TAXA = <id>` lines and no matching TITLE, and reading it back raises UndefinedBlockError" % (sorted(g1), sorted(g2)))

    # ---- R09.29 a state without a symbol is still written as a state
    with rep.section("R09.29"):
        rep.rule("R09.29", "a state without a symbol is still written as a state: a multistate parsed from `{01}` / `(12)` has the symbol None and is rendered through str(state) (`{0,1}`, `(1,2)`). In the writers a read of `<state>.symbol` is either compared with something or made behind `<state>.symbol is not None`; used as the text of the cell or of an attribute unguarded, it writes the word None into the document")
        n29 = 0
        for mod in ("dendropy.dataio.nexuswriter", "dendropy.dataio.phylipwriter", "dendropy.dataio.fastawriter", "dendropy.dataio.nexmlwriter"):
            for f in index.functions_in_module(mod):
                reads = [x for x in ast.walk(f.node) if isinstance(x, ast.Attribute) and x.attr == "symbol" and isinstance(x.ctx, ast.Load)]
                if not reads:
                    continue
                pm29 = parent_map(f.node)
                g29 = cfg_of(f)
                for x in reads:
                    n29 += 1
                    par = pm29.get(x)
                    if isinstance(par, ast.Compare):
                        continue
                    xt = norm(x)

                    def unknown(s, l, d, xt=xt):
                        if s.kind == "test" and isinstance(s.ast, ast.Compare) and len(s.ast.ops) == 1 and norm(s.ast.left) == xt and is_none(s.ast.comparators[0]):
                            if isinstance(s.ast.ops[0], ast.IsNot):
                                return l != "t"
                            if isinstance(s.ast.ops[0], ast.Is):
                                return l != "f"
                        if s.kind == "test" and norm(s.ast) == xt:
                            return l != "t"
                        return True
                    nd = node_of_ast(g29, x)
                    seen = g29.reach([g29.entry], follow_exc=False, edge_ok=unknown)
                    rep.check(nd is not None and nd not in seen, "R09.29", f.qualname, "`%s` written without a None test" % xt, fn_where(f, x), "%s: `%s` used only where it is set" % (f.name, xt),
                              "%s uses `%s` as text on a path that has not established that the state HAS a symbol: an ambiguous or polymorphic state parsed from `{01}` / `(12)` has the symbol None, so the document gets the word `None` - a NEXUS cell `None` is read back as the states N, o, n, e (InvalidCharacterStateSymbolError), a NeXML state `symbol=\"None\"` as a state called None (and two of them collide)" % (f.qualname, xt))
        rep.floor("R09.29", "reads of a state's symbol in the writers", 5, n29)

    # ---- R09.30 / R09.31 labels survive the sequence-only formats as written
    with rep.section("R09.30"):
        rep.rule("R09.30", "a FASTA label is the whole definition line: in FastaReader._read the name taken from a `>` line is the rest of the line with surrounding blanks stripped - it is not cut at the first blank (split / partition / a constant index), because the writer puts labels with blanks there unquoted and they are the taxon's label")
        fr = index.function("dendropy.dataio.fastareader.FastaReader._read")
        nm = [a for a in ast.walk(fr.node) if isinstance(a, ast.Assign) and len(a.targets) == 1 and isinstance(a.targets[0], ast.Name) and a.targets[0].id == "name" and not is_none(a.value)]
        if not nm:
            raise AnalysisError("R09.30: the label assignment in FastaReader._read not recognised")
        for a in nm:
            cuts = [x for x in ast.walk(a.value) if (isinstance(x, ast.Call) and call_name(x) in ("split", "rsplit", "partition", "rpartition")) or (isinstance(x, ast.Subscript) and isinstance(x.slice, ast.Constant))]
            rep.check(not cuts, "R09.30", fr.qualname, "label cut short", fn_where(fr, a), "FastaReader._read: `%s` keeps the whole line" % norm_stmt(a)[:50],
                      "FastaReader._read computes the label as `%s`: only part of the definition line is kept - `Homo sapiens` reads back as `Homo`, and two labels with the same first word are refused as a repeated sequence name" % norm(a.value)[:60])
    with rep.section("R09.31"):
        rep.rule("R09.31", "the underscore option of the PHYLIP reader applies to both label conventions: in PhylipReader._parse_taxon_from_line the `underscores_to_spaces` test lies on every path from the entry to the normal return - it follows the strict / relaxed alternative, it is not part of one arm - so a label written with spaces_to_underscores under strict=True comes back with its blanks")
        ptl = index.function("dendropy.dataio.phylipreader.PhylipReader._parse_taxon_from_line")
        g31 = cfg_of(ptl)
        tests31 = [nd for nd in g31.nodes if nd.kind == "test" and "underscores_to_spaces" in norm(nd.ast)]
        if not tests31:
            raise AnalysisError("R09.31: the underscores_to_spaces test in _parse_taxon_from_line not recognised")
        ids31 = {id(t) for t in tests31}
        ok31 = g31.must_pass(g31.entry, lambda nd: id(nd) in ids31, skip_src=False)[0]
        rep.check(ok31, "R09.31", ptl.qualname, "underscore option applied on one label convention only", fn_where(ptl, tests31[0].stmt), "_parse_taxon_from_line consults underscores_to_spaces on every path",
                  "PhylipReader._parse_taxon_from_line has a path to its return that never consults `underscores_to_spaces`: under that label convention (strict 10-character labels, or relaxed ones) the option is ignored and `Homo_sap` comes back with the underscore where the writer had put a blank")
