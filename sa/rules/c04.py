"""C04 Tree-to-tree distances equal their split-set definitions and are true metrics."""
import ast

from .common import *  # noqa

TC = "dendropy.calculate.treecompare"
TREE = "dendropy.datamodel.treemodel._tree.Tree"
ENC_ATTRS = ("bipartition_encoding", "bipartition_edge_map", "split_bitmask_edge_map", "split_edges")
FLAG = "is_bipartitions_updated"
EDGE_ATTRS = ("split_bitmask", "leafset_bitmask", "bipartition")
PUBLIC = ["symmetric_difference", "unweighted_robinson_foulds_distance", "weighted_robinson_foulds_distance",
          "false_positives_and_negatives", "euclidean_distance", "find_missing_bipartitions", "robinson_foulds_distance"]
KERNELS = ["false_positives_and_negatives", "find_missing_bipartitions", "_get_length_diffs"]


def tree_params(fi):
    return [p for p in fi.params if p != "self" and ("tree" in p) and not p.startswith("is_")]


def freshness_rule(index, rep, rid, fi, trees=None):
    """On every path on which the flag is falsy (including the default), a call
    T.encode_bipartitions() dominates each read of T's encoding, for each tree
    parameter T.  Returns number of reads examined."""
    cfg = cfg_of(fi)
    trees = trees if trees is not None else tree_params(fi)

    def flag_true_edge(s, l, d):
        return not (s.kind == "test" and norm(s.ast) == FLAG and l == "t")
    nreads = 0
    for T in trees:
        def encodes(n, T=T):
            return any(call_name(c) in ("encode_bipartitions", "update_bipartitions", "encode_splits", "update_splits")
                       and isinstance(c.func, ast.Attribute) and norm(c.func.value) == T for c in node_calls(n))
        reach = cfg.reach([cfg.entry], avoid=encodes, follow_exc=False, edge_ok=flag_true_edge)
        for n in reach:
            for e in node_exprs(n) + ([n.ast] if n.kind == "forinit" else []):
                if e is None:
                    continue
                for a, base, node in attr_reads(e):
                    if a in ENC_ATTRS and norm(base) == T:
                        rep.check(False, rid, fi.qualname, "stale read of %s.%s" % (T, a), fn_where(fi, node),
                                  "%s: %s.%s read with the flag falsy" % (fi.name, T, a),
                                  "%s reads `%s.%s` on a path where %s is falsy (the default) and `%s.encode_bipartitions()` has not run: the result reflects bipartitions cached before the tree was last modified"
                                  % (fi.qualname, T, a, FLAG, T))
        # count reads (for the evidence) and record discharge
        total = 0
        for n in cfg.nodes:
            for e in node_exprs(n) + ([n.ast] if n.kind == "forinit" else []):
                if e is None:
                    continue
                total += sum(1 for a, base, node in attr_reads(e) if a in ENC_ATTRS and norm(base) == T)
        nreads += total
        if total:
            rep.ob(rid, fn_where(fi), "%s: %d reads of %s's encoding each dominated by %s.encode_bipartitions() when the flag is falsy" % (fi.name, total, T, T), True)
    # edge-level reads (x.edge.split_bitmask, x.bipartition ...) need SOME subject tree encoded first
    if trees:
        def encodes_any(n):
            for c in node_calls(n):
                if call_name(c) in ("encode_bipartitions", "update_bipartitions", "encode_splits", "update_splits") and isinstance(c.func, ast.Attribute) and norm(c.func.value) in trees:
                    return True
                kw = get_kwarg(c, FLAG)
                if kw is not None and norm(kw) == FLAG:
                    return True   # the flag is forwarded: the callee re-encodes when it is falsy
            return False
        reach = cfg.reach([cfg.entry], avoid=encodes_any, follow_exc=False, edge_ok=flag_true_edge)
        total = 0
        for n in cfg.nodes:
            hit = False
            for e in node_exprs(n) + ([n.ast] if n.kind == "forinit" else []):
                if e is None:
                    continue
                for a, base, node in attr_reads(e):
                    if a in EDGE_ATTRS and "edge" in norm(base) and not norm(base).startswith("kwargs"):
                        hit = True
                        total += 1
                        if n in reach:
                            rep.check(False, rid, fi.qualname, "stale edge-level read .%s" % a, fn_where(fi, node), "%s: edge-level read .%s with the flag falsy" % (fi.name, a),
                                      "%s reads `%s.%s` on a path where %s is falsy (the default) and none of %s has been re-encoded: per-edge bipartition data cached before the tree was last modified is used"
                                      % (fi.qualname, norm(base), a, FLAG, trees))
        if total:
            nreads += total
            rep.ob(rid, fn_where(fi), "%s: %d edge-level bipartition reads each dominated by an encode of %s when the flag is falsy" % (fi.name, total, trees), True)
    return nreads


def flagged_subjects(index, fi):
    """tree-valued names of a function that takes / uses the freshness flag."""
    subj = set(p for p in fi.all_params if "tree" in p and not p.startswith("is_") and p not in ("trees", "tree_list", "tree_iterator", "tree_factory", "tree_type", "use_tree_weights"))
    if fi.cls is not None and index.is_subclass(fi.cls, TREE):
        subj.add("self")
    for n in walk_no_nested(fi.node):
        if isinstance(n, ast.For) and isinstance(n.target, ast.Name) and "tree" in n.target.id:
            subj.add(n.target.id)
    return sorted(subj)


def freshness_everywhere(index, rep, rid, modules):
    """apply the freshness and forwarding rules to every function of `modules` that mentions the flag."""
    nf = 0
    for m in modules:
        for fi in index.functions_in_module(m):
            uses = FLAG in fi.all_params or any(isinstance(n, ast.Name) and n.id == FLAG for n in ast.walk(fi.node))
            if not uses:
                continue
            nf += 1
            freshness_rule(index, rep, rid, fi, flagged_subjects(index, fi))
            forwarding_rule(index, rep, rid, fi)
    return nf


def forwarding_rule(index, rep, rid, fi):
    """Calls to functions that have the flag parameter forward the caller's own
    flag unchanged, pass nothing, or pass literal False; never a literal True."""
    n = 0
    for c in calls_in(fi.node):
        grade, cands = index.resolve_call(c, fi)
        cands = [x for x in cands if hasattr(x, "all_params") and FLAG in x.all_params]
        if not cands or grade == "name" and len(cands) > 3:
            if get_kwarg(c, FLAG) is None:
                continue
        v = get_kwarg(c, FLAG)
        if v is None and cands and grade in ("static", "self"):
            callee = cands[0]
            params = [p for p in callee.params if p not in ("self", "cls")] if callee.cls else list(callee.params)
            if FLAG in params:
                i = params.index(FLAG)
                if i < len(c.args):
                    v = c.args[i]
        n += 1
        if v is None:
            rep.ob(rid, fn_where(fi, c), "%s -> %s: flag omitted (safe default)" % (fi.name, call_name(c)), True)
            continue
        own = FLAG in fi.all_params
        ok = (isinstance(v, ast.Constant) and v.value is False) or (own and norm(v) == FLAG)
        # a literal True is acceptable only when the caller itself just encoded the tree it passes
        if isinstance(v, ast.Constant) and v.value is True:
            cfg = cfg_of(fi)
            cn = node_of_ast(cfg, c)
            targs = [norm(a) for a in c.args] + [norm(k.value) for k in c.keywords if k.arg and "tree" in k.arg]

            def enc(nn):
                return any(call_name(x) in ("encode_bipartitions", "update_bipartitions") for x in node_calls(nn))
            ok = cn is not None and cfg.dominated_by(cn, enc)
        rep.check(ok, rid, fi.qualname, "%s(%s=%s)" % (call_name(c), FLAG, norm(v)), fn_where(fi, c),
                  "%s -> %s passes %s=%s" % (fi.name, call_name(c), FLAG, norm(v)),
                  "%s calls %s with %s=%s instead of forwarding its own flag: with default arguments the callee skips re-encoding and uses bipartitions cached before a modification"
                  % (fi.qualname, call_name(c), FLAG, norm(v)))
    return n


def run(index, rep, tier):
    rep.rule("R04.1", "freshness: with is_bipartitions_updated falsy (default) T.encode_bipartitions() dominates every read of T's encoding for both tree parameters; wrappers forward the flag unchanged and never pass a literal True")
    rep.rule("R04.2", "a namespace identity test with raise dominates the first use of either tree's encoding in every kernel")
    rep.rule("R04.3", "argument symmetry of the length kernel: for a shared split the None-length handling of the tree1 edge equals that of the tree2 edge")
    rep.rule("R04.4", "every treecompare.<name> referenced in the repository exists")
    rep.rule("R04.5", "split-set kernels: false positives/negatives are the two one-sided set differences of the trees' own encodings and symmetric_difference is their sum")
    mod = index.module(TC)

    # ---- R04.1
    with rep.section("R04.1"):
        nflag = 0
        nreads = 0
        for fi in index.functions_in_module(TC, include_methods=False):
            if FLAG in fi.all_params:
                nflag += 1
                nreads += freshness_rule(index, rep, "R04.1", fi)
            forwarding_rule(index, rep, "R04.1", fi)
        rep.floor("R04.1", "treecompare functions with the flag", 9, nflag)
        rep.floor("R04.1", "encoding reads in flagged functions", 10, nreads)
        # deprecated Tree aliases and other callers of the public functions
        for fi in index.methods_of(TREE):
            if any(isinstance(c.func, ast.Attribute) and norm(c.func.value) == "treecompare" for c in calls_in(fi.node)):
                forwarding_rule(index, rep, "R04.1", fi)

    # ---- R04.2
    with rep.section("R04.2"):
        for name in KERNELS:
            fi = index.function(TC + "." + name)
            cfg = cfg_of(fi)
            trees = tree_params(fi)[:2]
            guards = [(n, r) for n, r in find_namespace_guards(cfg) if set(r) == set(trees)]
            gids = {g.id for g, _ in guards}
            uses = []
            for n in cfg.nodes:
                es = node_exprs(n) + ([n.ast] if n.kind == "forinit" else [])
                hit = False
                for e in es:
                    if e is None:
                        continue
                    for a, base, node in attr_reads(e):
                        if (a in ENC_ATTRS or a == "encode_bipartitions") and norm(base) in trees:
                            hit = True
                if hit:
                    uses.append(n)
            ok = bool(guards) and bool(uses) and all(cfg.dominated_by(u, lambda n: n.id in gids) for u in uses)
            rep.check(ok, "R04.2", fi.qualname, "namespace guard", fn_where(fi),
                      "%s: `%s.taxon_namespace is not %s.taxon_namespace` -> raise dominates %d uses of the encodings" % (name, trees[0], trees[1], len(uses)),
                      "%s uses a tree's bipartition encoding on a path that has not compared the two trees' namespaces (bitmasks of different namespaces are not comparable; such trees must be refused)" % fi.qualname)

    # ---- R04.3
    with rep.section("R04.3"):
        fi = index.function(TC + "._get_length_diffs")
        _length_symmetry(rep, fi)

    # ---- R04.4
    with rep.section("R04.4"):
        nref = 0
        for f2 in list(index.functions.values()):
            m = f2.module
            for n in walk_no_nested(f2.node):
                if isinstance(n, ast.Attribute) and isinstance(n.value, ast.Name) and n.value.id == "treecompare":
                    tgt = index.resolve_expr(m, n.value)
                    if tgt is not mod:
                        continue
                    nref += 1
                    ok = n.attr in mod.functions or n.attr in mod.classes or n.attr in mod.assigns
                    rep.check(ok, "R04.4", f2.qualname, "treecompare.%s" % n.attr, fn_where(f2, n),
                              "%s references treecompare.%s" % (f2.qualname, n.attr),
                              "%s references `treecompare.%s`, which does not exist in dendropy.calculate.treecompare: the call raises AttributeError" % (f2.qualname, n.attr))
        rep.floor("R04.4", "references to treecompare.<name>", 5, nref)

    # ---- R04.7
    with rep.section("R04.7"):
        rep.rule("R04.7", "the edge maps the weighted kernels read through are dropped by every re-encode (shared with R01.5): results reflect the current structure, never edges cached before a modification")
        from . import c01
        c01.edge_map_reset_rule(index, rep, "R04.7")

    # ---- R04.8
    with rep.section("R04.8"):
        rep.rule("R04.8", "what the weighted distances read is right: the split normalisation bit is derived from the tree's own leaf set on every encode (C01 R01.3) and a spliced-out unifurcation's edge length is merged into its child's in all None-ness cases (C08 R08.6), including the basal bifurcation every unrooted encode collapses (C07 R07.4, R07.6), the bit of a taxon is stable and unique, and bipartitions are compared and hashed by value symmetrically (C01 R01.1, R01.4, R01.8), a re-drawing made by extraction or copying carries the rooting state over (C12 R12.3) - all of these decide the lengths the distance kernels pair up")
        nb = borrow(index, rep, "C01", {"R01.3"}, "R04.8") + borrow(index, rep, "C08", {"R08.6"}, "R04.8") + borrow(index, rep, "C07", {"R07.4", "R07.6"}, "R04.8") + borrow(index, rep, "C01", {"R01.1", "R01.4", "R01.8"}, "R04.8") + borrow(index, rep, "C12", {"R12.3"}, "R04.8")
        rep.floor("R04.8", "borrowed obligations", 6, nb)

    # ---- R04.6
    with rep.section("R04.6"):
        rep.rule("R04.6", "distance kernels never mutate a tree's cached bipartition data: no store/mutator call through a name aliased (without copying) to a tree parameter's encoding or edge maps")
        nk = 0
        for f6 in index.functions_in_module(TC, include_methods=False):
            tp = tree_params(f6)
            if not tp:
                continue
            nk += 1
            t = tainted_names(f6, tp)
            bad = [b for b in writes_rooted_at(f6, t, ()) if not (isinstance(b, ast.Call) and b.func.attr in ("encode_bipartitions",))]
            rep.check(not bad, "R04.6", f6.qualname, "mutates tree-derived data: %s" % (norm(bad[0])[:60] if bad else ""), fn_where(f6, bad[0] if bad else None),
                      "%s: nothing aliased to %s's cached data is mutated (names derived from the trees: %s)" % (f6.name, tp, sorted(t - set(tp))[:6]),
                      "%s mutates `%s`, which is (an alias of) cached bipartition data of one of its tree arguments: a distance call empties/changes the tree's own edge map, so later calls - or the same call on (t, t) - give wrong results" % (f6.qualname, norm(bad[0])[:70] if bad else ""))
        rep.floor("R04.6", "treecompare functions with tree parameters", 8, nk)

    # ---- R04.5
    with rep.section("R04.5"):
        fi = index.function(TC + ".false_positives_and_negatives")
        t1, t2 = tree_params(fi)[:2]
        sets = {}
        for n in walk_no_nested(fi.node):
            if isinstance(n, ast.Assign) and isinstance(n.value, ast.Call) and call_name(n.value) in ("set", "frozenset") and n.value.args:
                a = n.value.args[0]
                if isinstance(a, ast.Attribute) and a.attr == "bipartition_encoding":
                    sets[norm(n.targets[0])] = norm(a.value)
        diffs = {}
        for n in walk_no_nested(fi.node):
            if isinstance(n, ast.Assign):
                v = n.value
                if isinstance(v, ast.Call) and call_name(v) == "difference" and isinstance(v.func, ast.Attribute) and v.args:
                    diffs[norm(n.targets[0])] = (sets.get(norm(v.func.value)), sets.get(norm(v.args[0])))
                elif isinstance(v, ast.BinOp) and isinstance(v.op, ast.Sub):
                    diffs[norm(n.targets[0])] = (sets.get(norm(v.left)), sets.get(norm(v.right)))
        ret = [n for n in walk_no_nested(fi.node) if isinstance(n, ast.Return)]
        ok = False
        got = None
        if len(ret) == 1 and isinstance(ret[0].value, ast.Tuple) and len(ret[0].value.elts) == 2:
            parts = []
            for e in ret[0].value.elts:
                if isinstance(e, ast.Call) and call_name(e) == "len" and e.args:
                    parts.append(diffs.get(norm(e.args[0])))
                else:
                    parts.append(None)
            got = parts
            ok = parts == [(t2, t1), (t1, t2)]
        rep.check(ok, "R04.5", fi.qualname, "returned differences %s" % (got,), fn_where(fi),
                  "false_positives_and_negatives returns (|enc(%s) - enc(%s)|, |enc(%s) - enc(%s)|)" % (t2, t1, t1, t2),
                  "false_positives_and_negatives no longer returns (len(comparison - reference), len(reference - comparison)) of the two trees' own encodings: got %s" % (got,))
        fi = index.function(TC + ".symmetric_difference")
        ret = [n for n in walk_no_nested(fi.node) if isinstance(n, ast.Return)]
        ok = False
        if len(ret) == 1 and isinstance(ret[0].value, ast.BinOp) and isinstance(ret[0].value.op, ast.Add):
            l, r = ret[0].value.left, ret[0].value.right
            if isinstance(l, ast.Subscript) and isinstance(r, ast.Subscript) and norm(l.value) == norm(r.value) and {const_value(l.slice), const_value(r.slice)} == {0, 1}:
                src = [n for n in walk_no_nested(fi.node) if isinstance(n, ast.Assign) and norm(n.targets[0]) == norm(l.value)]
                ok = bool(src) and isinstance(src[0].value, ast.Call) and call_name(src[0].value) == "false_positives_and_negatives"
        rep.check(ok, "R04.5", fi.qualname, "sum of the two one-sided differences", fn_where(fi),
                  "symmetric_difference = false positives + false negatives", "symmetric_difference is no longer the sum of the two one-sided differences")

    # ---- R04.9 the flag is the caller's word
    with rep.section("R04.9"):
        rep.rule("R04.9", "the freshness flag is the caller's statement: a function binds the name only as its parameter or from the caller's keyword arguments (kwargs.pop/get with a False default) - it is never recomputed from the state of the trees, which cannot tell a stale encoding from a fresh one")
        n9 = 0
        for m in sorted(index.modules):
            if not m.startswith("dendropy.") or ".test" in m or ".legacy" in m:
                continue
            for fi in index.functions_in_module(m):
                for st in walk_no_nested(fi.node):
                    tg = []
                    if isinstance(st, ast.Assign):
                        tg = st.targets
                    elif isinstance(st, (ast.AugAssign, ast.AnnAssign)):
                        tg = [st.target]
                    elif isinstance(st, ast.NamedExpr):
                        tg = [st.target]
                    for t in tg:
                        for nm in ast.walk(t):
                            if isinstance(nm, ast.Name) and nm.id == FLAG:
                                n9 += 1
                                v = getattr(st, "value", None)
                                ok = False
                                if isinstance(v, ast.Call) and call_name(v) in ("pop", "get") and v.args and isinstance(v.args[0], ast.Constant) and v.args[0].value == FLAG:
                                    d = v.args[1] if len(v.args) > 1 else None
                                    ok = d is None or (isinstance(d, ast.Constant) and d.value in (False, None))
                                elif isinstance(v, ast.Constant) and v.value is False:
                                    ok = True
                                rep.check(ok, "R04.9", fi.qualname, "flag rebound", fn_where(fi, st),
                                          "%s binds %s from the caller's keywords" % (fi.name, FLAG),
                                          "%s rebinds `%s` to `%s`: the flag no longer says what the caller said, so with default arguments the comparison can skip the re-encode and answer from bipartitions cached before the trees were modified"
                                          % (fi.qualname, FLAG, norm(v) if v is not None else "?"))
        rep.floor("R04.9", "bindings of the flag examined", 1, n9)

    # ---- R04.10 missing bipartitions are those of the FIRST tree; the freshness flag defaults to False
    with rep.section("R04.10"):
        rep.rule("R04.10", "(a) find_missing_bipartitions returns the bipartitions of its first argument (the reference tree) that the second lacks - whether written as a filtering loop, a comprehension or a set difference, the collection walked / the minuend derives from the first tree parameter and the one tested against / the subtrahend from the second; (b) every function of the library that takes is_bipartitions_updated declares it with the default False - with True a call with default arguments answers from whatever encoding was cached before the tree was last modified")
        fm = index.function(TC + ".find_missing_bipartitions")
        t1, t2 = tree_params(fm)[:2]
        tags = {}
        for st in walk_no_nested(fm.node):
            if isinstance(st, ast.Assign) and len(st.targets) == 1 and isinstance(st.targets[0], ast.Name):
                for x in ast.walk(st.value):
                    if isinstance(x, ast.Attribute) and x.attr == "bipartition_encoding" and norm(x.value) in (t1, t2):
                        tags[st.targets[0].id] = norm(x.value)

        def tag(e):
            for x in ast.walk(e):
                if isinstance(x, ast.Attribute) and x.attr == "bipartition_encoding" and norm(x.value) in (t1, t2):
                    return norm(x.value)
                if isinstance(x, ast.Name) and x.id in tags:
                    return tags[x.id]
            return None
        orient = None
        # filtering loop
        for lp in walk_no_nested(fm.node):
            if isinstance(lp, ast.For) and tag(lp.iter):
                tests = [x for x in ast.walk(lp) if isinstance(x, ast.Compare) and len(x.ops) == 1 and isinstance(x.ops[0], (ast.In, ast.NotIn)) and tag(x.comparators[0])]
                if tests:
                    orient = (tag(lp.iter), tag(tests[0].comparators[0]))
        for r in walk_no_nested(fm.node):
            if isinstance(r, ast.Return) and r.value is not None and orient is None:
                for x in ast.walk(r.value):
                    if isinstance(x, ast.Call) and call_name(x) == "difference" and isinstance(x.func, ast.Attribute) and x.args:
                        orient = (tag(x.func.value), tag(x.args[0]))
                    elif isinstance(x, ast.BinOp) and isinstance(x.op, ast.Sub):
                        orient = (tag(x.left), tag(x.right))
                    elif isinstance(x, (ast.ListComp, ast.SetComp, ast.GeneratorExp)) and x.generators and tag(x.generators[0].iter):
                        tests = [y for g_ in x.generators for i_ in g_.ifs for y in ast.walk(i_) if isinstance(y, ast.Compare) and isinstance(y.ops[0], (ast.In, ast.NotIn)) and tag(y.comparators[0])]
                        if tests:
                            orient = (tag(x.generators[0].iter), tag(tests[0].comparators[0]))
        if orient is None or None in orient:
            raise AnalysisError("R04.10: how find_missing_bipartitions builds its result was not recognised")
        rep.check(orient == (t1, t2), "R04.10", fm.qualname, "difference taken the wrong way round: %s minus %s" % orient, fn_where(fm), "find_missing_bipartitions returns enc(%s) minus enc(%s)" % (t1, t2),
                  "treecompare.find_missing_bipartitions returns the bipartitions of `%s` that `%s` lacks - it is documented (and used by Tree.find_missing_splits) as the bipartitions of the FIRST tree that are not in the second: the false negatives come back as false positives" % orient)
        nflag = 0
        for m in sorted(index.modules):
            if not m.startswith("dendropy.") or ".test" in m or ".legacy" in m:
                continue
            for fi in index.functions_in_module(m):
                a = fi.node.args
                pos = a.posonlyargs + a.args
                defaults = dict(zip([x.arg for x in pos][len(pos) - len(a.defaults):], a.defaults))
                defaults.update({k.arg: v for k, v in zip(a.kwonlyargs, a.kw_defaults) if v is not None})
                if FLAG in [x.arg for x in pos + a.kwonlyargs]:
                    nflag += 1
                    d = defaults.get(FLAG)
                    rep.check(d is not None and isinstance(d, ast.Constant) and d.value is False, "R04.10", fi.qualname, "%s defaults to %s" % (FLAG, norm(d) if d is not None else "nothing"), fn_where(fi), "%s: %s=False" % (fi.name, FLAG),
                              "%s declares `%s=%s`: with default arguments the function then trusts whatever bipartition encoding the trees carry, so after a tree was modified (default update_bipartitions=False everywhere) the answer describes the tree as it was before" % (fi.qualname, FLAG, norm(d) if d is not None else "<required>"))
        rep.floor("R04.10", "functions taking the freshness flag", 20, nflag)

    # ---- R04.11 the trees compared carry the rooting their source states
    with rep.section("R04.11"):
        rep.rule("R04.11", "the trees compared carry the rooting their source states (C02 R02.19): the Newick reader recognises the rooting comment on the stripped text - a rooted tree that comes back 'rooting undefined' is treated as unrooted by the split encoding, and the distances of rooted trees then equal those of their unrooted shadows")
        nb = borrow(index, rep, "C02", {"R02.19"}, "R04.11")
        rep.floor("R04.11", "borrowed obligations", 1, nb)


def _length_symmetry(rep, fi):
    """Classify None handling of edge lengths per tree within each loop."""
    # map var -> tree param
    mapvar = {}
    for n in walk_no_nested(fi.node):
        if isinstance(n, ast.Assign) and len(n.targets) == 1 and isinstance(n.targets[0], ast.Name):
            v = n.value
            if isinstance(v, ast.Call) and call_name(v) == "dict" and v.args:
                v = v.args[0]
            if isinstance(v, ast.Attribute) and v.attr == "bipartition_edge_map":
                mapvar[n.targets[0].id] = norm(v.value)
    if len(mapvar) < 2:
        raise AnalysisError("R04.3: _get_length_diffs edge-map variables not recognised")
    loops = [l for l in fi.node.body if isinstance(l, ast.For) and norm(l.iter) in mapvar]
    if not loops:
        raise AnalysisError("R04.3: _get_length_diffs loops over the edge maps not recognised")
    popped_by = {}   # loop index -> map var popped on hit
    results = []
    for li, loop in enumerate(loops):
        iter_map = norm(loop.iter)
        # edge variables and their source map / role
        edge_src = {}
        for n in ast.walk(loop):
            if isinstance(n, ast.Assign) and len(n.targets) == 1 and isinstance(n.targets[0], ast.Name):
                v = n.value
                if isinstance(v, ast.Subscript) and norm(v.value) in mapvar:
                    edge_src[n.targets[0].id] = (norm(v.value), "iterated" if norm(v.value) == iter_map else "lookup")
                elif isinstance(v, ast.Call) and isinstance(v.func, ast.Attribute) and v.func.attr in ("pop", "get") and norm(v.func.value) in mapvar:
                    mv = norm(v.func.value)
                    edge_src[n.targets[0].id] = (mv, "iterated" if mv == iter_map else "lookup")
                    if v.func.attr == "pop":
                        popped_by[li] = mv
        # length variables: x = getattr(edgevar, edge_weight_attr)
        handling = {}
        for n in ast.walk(loop):
            if isinstance(n, ast.Assign) and isinstance(n.value, ast.Call) and call_name(n.value) == "getattr" and n.value.args \
                    and isinstance(n.value.args[0], ast.Name) and n.value.args[0].id in edge_src:
                lv = norm(n.targets[0])
                ev = n.value.args[0].id
                kind = "none-unhandled"
                for i in ast.walk(loop):
                    if isinstance(i, ast.If):
                        cp = compare_parts(i.test)
                        if cp and norm(cp[0]) == lv and is_none(cp[2]) and cp[1] == "Is":
                            kind = "raise-unless-root" if any(isinstance(x, ast.Raise) for x in ast.walk(i)) else "default-to-zero"
                handling[edge_src[ev][1]] = (mapvar[edge_src[ev][0]], kind, ev)
        results.append((loop, iter_map, handling))
    nob = 0
    for li, (loop, iter_map, handling) in enumerate(results):
        if "iterated" not in handling or "lookup" not in handling:
            continue
        lk_map = [m for m, r in [(handling["lookup"][0], None)]][0]
        # dead hit branch: an earlier loop iterated the map looked up here and popped this loop's iterated map on every hit
        dead = any(norm(results[j][0].iter) in [k for k, v in mapvar.items() if v == handling["lookup"][0]] and popped_by.get(j) == iter_map for j in range(li))
        if dead:
            rep.note("R04.3: in `%s` the shared-split branch is unreachable at run time (shared splits were popped by the earlier loop); not evaluated" % norm_stmt(loop))
            continue
        nob += 1
        (ta, ka, _), (tb, kb, _) = handling["iterated"], handling["lookup"]
        rep.check(ka == kb, "R04.3", fi.qualname, "shared-split None handling in `%s`: %s=%s, %s=%s" % (norm_stmt(loop), ta, ka, tb, kb), fn_where(fi, loop),
                  "shared splits: missing length on %s -> %s; on %s -> %s" % (ta, ka, tb, kb),
                  "_get_length_diffs treats a missing edge length on a shared split asymmetrically: on %s's edge it is '%s', on %s's edge '%s'. "
                  "A pair of trees with lengths missing on one of them is accepted in one argument order and refused (ValueError) in the other" % (ta, ka, tb, kb))
    if nob == 0:
        raise AnalysisError("R04.3: no shared-split handling recognised in _get_length_diffs")
