"""C01 Bipartition encoding is exact, canonical and sufficient to rebuild the topology."""
import ast

from .common import *  # noqa
from . import c04

TREE = "dendropy.datamodel.treemodel._tree.Tree"
BIP = "dendropy.datamodel.treemodel._bipartition.Bipartition"
TNS = "dendropy.datamodel.taxonmodel.TaxonNamespace"
SHIFT_TABLE = {
    TNS + ".taxon_bitmask": "the one taxon -> bit conversion: 1 << accession index",
    TNS + ".all_taxa_bitmask": "(1 << accession counter) - 1",
    "dendropy.utility.bitprocessing.set_bit_index_iter": "local probe bit walking over an existing mask",
}
MAP_WRITERS = {"__init__", "encode_bipartitions", "_get_bipartition_edge_map", "_set_split_edges", "_clone_from", "__deepcopy__"}


def _assign_defs(fn_node, name):
    out = []
    for n in walk_no_nested(fn_node):
        if isinstance(n, ast.Assign) and any(isinstance(t, ast.Name) and t.id == name for t in n.targets):
            out.append(n)
        elif isinstance(n, ast.AugAssign) and isinstance(n.target, ast.Name) and n.target.id == name:
            out.append(n)
    return out


def _resolve_local(fn_node, expr, depth=3):
    """Follow single-assignment locals: returns the defining expression text."""
    while depth > 0 and isinstance(expr, ast.Name):
        defs = [d for d in _assign_defs(fn_node, expr.id) if isinstance(d, ast.Assign)]
        if len(defs) != 1:
            break
        expr = defs[0].value
        depth -= 1
    return expr


def edge_map_reset_rule(index, rep, rid):
    """every re-encode drops the lazily built bipartition->edge / split->edge maps, unconditionally"""
    enc = index.function(TREE + ".encode_bipartitions")
    cfg = cfg_of(enc)
    for attr in ("_split_bitmask_edge_map", "_bipartition_edge_map"):
        resets = [n for n in cfg.nodes if n.kind == "stmt" and isinstance(n.ast, ast.Assign) and norm(n.ast.targets[0]) == "self." + attr and is_none(n.ast.value)]
        ids = {n.id for n in resets}
        ok = bool(resets) and cfg.dominated_by(cfg.exit, lambda n: n.id in ids, follow_exc=False)
        rep.check(ok, rid, enc.qualname, "reset of " + attr, fn_where(enc), "encode_bipartitions: self.%s = None dominates every exit" % attr,
                  "encode_bipartitions can return without resetting the cached `%s` (an equal list of split bitmasks does not mean the same Edge objects): distances and lookups after a re-encode use edges - and edge lengths - of the previous structure" % attr)


def run(index, rep, tier):
    rep.rule("R01.1", "bit source: a taxon -> bit conversion exists only in TaxonNamespace.taxon_bitmask / all_taxa_bitmask (from the accession index); the leaf mask in encode_bipartitions is taxon_namespace.taxon_bitmask(leaf taxon)")
    rep.rule("R01.2", "leafset accumulation: the stored leafset mask is 0, the leaf's taxon bit, or the OR of ALL children's leafset masks")
    rep.rule("R01.3", "normalisation is relative to the tree's own leaf set: lowest relevant bit = LSB of the tree leafset mask; compile passes the seed edge's leafset, not the namespace's all-taxa mask")
    rep.rule("R01.4", "Bipartition identity (hash/eq) reads _split_bitmask and nothing else")
    rep.rule("R01.5", "encode_bipartitions resets the cached edge maps before every exit and assigns bipartition_encoding on every completing path; the lazy maps are rebuilt together")
    rep.rule("R01.6", "predicate wiring: is_trivial / is_compatible_with / is_leafset_nested_within pass this bipartition's split or leafset mask and its own tree leafset mask to the bit-level tests")
    enc = index.function(TREE + ".encode_bipartitions")

    # ---- R01.1
    with rep.section("R01.1"):
        nshift = 0
        for fi in list(index.functions.values()):
            for n in walk_no_nested(fi.node):
                amt = None
                if isinstance(n, ast.BinOp) and isinstance(n.op, ast.LShift):
                    amt = n.right
                elif isinstance(n, ast.AugAssign) and isinstance(n.op, ast.LShift):
                    amt = n.value
                elif isinstance(n, ast.BinOp) and isinstance(n.op, ast.Pow) and const_value(n.left) == 2:
                    amt = n.right
                elif isinstance(n, ast.Call) and call_name(n) == "pow" and n.args and const_value(n.args[0]) == 2 and isinstance(n.func, ast.Name):
                    amt = n.args[1] if len(n.args) > 1 else None
                if amt is None:
                    continue
                if isinstance(amt, ast.Constant):
                    continue
                nshift += 1
                if fi.qualname in SHIFT_TABLE:
                    src = norm(_resolve_local(fi.node, amt))
                    if fi.qualname == TNS + ".taxon_bitmask":
                        ok = src == "self._taxon_accession_index_map[taxon]"
                    elif fi.qualname == TNS + ".all_taxa_bitmask":
                        ok = src == "self._current_accession_count"
                    else:
                        ok = True
                    rep.check(ok, "R01.1", fi.qualname, "shift amount source: " + src, fn_where(fi, n),
                              "%s shifts by `%s` (%s)" % (fi.name, src, SHIFT_TABLE[fi.qualname]),
                              "%s computes a taxon bit from `%s` instead of the accession index: bits change when members are removed, sorted or reversed" % (fi.qualname, src))
                    continue
                # a new power-of-two site: is the exponent positional (enumerate / index / len / range) in taxon-handling code?
                src = _resolve_local(fi.node, amt)
                txt = norm(src)
                loopvars = set()
                for f in walk_no_nested(fi.node):
                    if isinstance(f, (ast.For, ast.comprehension)) and isinstance(f.iter, ast.Call) and call_name(f.iter) in ("enumerate", "range"):
                        loopvars |= names_in(f.target)
                positional = (names_in(amt) & loopvars) or any(k in txt for k in (".index(", "len(", "enumerate(", "range("))
                taxonish = any("tax" in x.lower() or "namespace" in x.lower() for x in names_in(fi.node) | {a for a, b, c in attr_reads(fi.node)})
                bad = bool(positional) and taxonish
                rep.check(not bad, "R01.1", fi.qualname, "positional power of two: " + norm(n)[:80], fn_where(fi, n),
                          "%s: power-of-two `%s` is not a positional taxon bit" % (fi.qualname, norm(n)[:60]),
                          "%s builds a bit from a list position (`%s`) in taxon-handling code: a second taxon -> bit assignment that disagrees with the namespace's accession index after removals/sorting" % (fi.qualname, norm(n)[:80]))
        rep.floor("R01.1", "variable power-of-two sites", 2, nshift)
        # leaf mask in encode_bipartitions
        stores = [w for w in writes_in(enc.node) if w.attr == "_leafset_bitmask" and w.kind == "store"]
        if len(stores) != 1 or not isinstance(stores[0].value, ast.Name):
            raise AnalysisError("R01.2: encode_bipartitions leafset store not recognised")
        L = stores[0].value.id
        defs = _assign_defs(enc.node, L)
        kinds = []
        pm = parent_map(enc.node)
        for d in defs:
            if isinstance(d, ast.Assign) and const_value(d.value, "x") == 0:
                kinds.append(("zero", d))
            elif isinstance(d, ast.Assign) and isinstance(d.value, ast.Call) and call_name(d.value) == "taxon_bitmask":
                kinds.append(("leaf", d))
            elif isinstance(d, ast.AugAssign) and isinstance(d.op, ast.BitOr):
                kinds.append(("or", d))
            elif isinstance(d, ast.Assign) and isinstance(d.value, ast.BinOp) and isinstance(d.value.op, ast.BitOr) and norm(d.value.left) == L:
                kinds.append(("or", d))
            else:
                kinds.append(("other", d))
        for k, d in kinds:
            if k == "leaf":
                recv = _resolve_local(enc.node, d.value.func.value)
                arg = _resolve_local(enc.node, d.value.args[0]) if d.value.args else None
                ok = norm(recv) in ("self._taxon_namespace", "self.taxon_namespace") and arg is not None and norm(arg).endswith("_head_node.taxon") or (arg is not None and norm(arg) == "head_node.taxon")
                rep.check(bool(ok), "R01.1", enc.qualname, "leaf mask source: " + norm(d.value), fn_where(enc, d),
                          "encode_bipartitions: leaf mask = %s.taxon_bitmask(%s)" % (norm(recv), norm(arg) if arg is not None else None),
                          "encode_bipartitions takes a leaf's mask from `%s` rather than from its own namespace's taxon_bitmask(leaf taxon)" % norm(d.value))
            elif k == "or":
                rhs = d.value if isinstance(d, ast.AugAssign) else d.value.right
                ok_rhs = norm(rhs).endswith("bipartition._leafset_bitmask") or norm(rhs).endswith(".leafset_bitmask")
                loop = pm.get(d)
                while loop is not None and not isinstance(loop, ast.For):
                    loop = pm.get(loop)
                it = _resolve_local(enc.node, loop.iter) if loop is not None else None
                ok_iter = it is not None and (norm(it).endswith("._child_nodes") or (isinstance(it, ast.Call) and call_name(it) in ("child_nodes", "child_node_iter")))
                ok_var = loop is not None and names_in(rhs) & names_in(loop.target)
                rep.check(bool(ok_rhs and ok_iter and ok_var), "R01.2", enc.qualname, "OR accumulation: %s over %s" % (norm(d), norm(it) if it is not None else None), fn_where(enc, d),
                          "internal edge mask |= child's leafset mask for every child in %s" % (norm(it) if it is not None else None),
                          "the internal-edge leafset mask is not the OR of ALL children's leafset masks (`%s` iterating `%s`): taxa below the edge are dropped from or added to its bitmask" % (norm(d), norm(it) if it is not None else None))
            elif k == "other":
                rep.check(False, "R01.2", enc.qualname, "leafset definition: " + norm_stmt(d), fn_where(enc, d), "unrecognised definition of the leafset mask",
                          "the stored leafset mask has a definition `%s` that is neither 0, the leaf's taxon bit nor an OR over the children" % norm_stmt(d))
            else:
                rep.ob("R01.2", fn_where(enc, d), "leafset mask starts from 0 for each edge", True)
        rep.floor("R01.2", "definitions of the leafset mask", 3, len(kinds))
        # the zero must be re-established per edge: its definition sits inside the edge loop
        zero = [d for k, d in kinds if k == "zero"]
        loops = [f for f in walk_no_nested(enc.node) if isinstance(f, ast.For) and "postorder_edge_iter" in norm(f.iter)]
        ok = bool(zero) and bool(loops) and all(any(z is x for x in ast.walk(loops[0])) for z in zero)
        rep.check(ok, "R01.2", enc.qualname, "per-edge reset of the accumulator", fn_where(enc), "the accumulator is reset to 0 inside the post-order edge loop",
                  "the leafset accumulator is not reset per edge inside the post-order loop: masks of earlier edges leak into later ones")
        rep.check(bool(loops), "R01.2", enc.qualname, "post-order traversal", fn_where(enc), "edges are visited children-before-parents (postorder_edge_iter)",
                  "encode_bipartitions no longer visits edges in post-order: a parent's mask is computed before its children's")

    # ---- R01.3
    with rep.section("R01.3"):
        nlrb = 0
        for fi in list(index.functions.values()):
            for w in writes_in(fi.node):
                if w.attr != "_lowest_relevant_bit" or w.kind != "store":
                    continue
                nlrb += 1
                v = w.value
                ok = is_none(v) or (isinstance(v, ast.Name) and v.id in fi.all_params) or \
                    (isinstance(v, ast.Call) and call_name(v) == "least_significant_set_bit" and v.args and norm(v.args[0]) == "self._tree_leafset_bitmask")
                rep.check(ok, "R01.3", fi.qualname, norm_stmt(w.stmt), fn_where(fi, w.stmt), "_lowest_relevant_bit := %s" % norm(v),
                          "%s sets the normalisation bit to `%s`: it must be the least significant set bit of the TREE's leafset mask (lowest taxon bit present on the tree), not a constant or a namespace-wide bit" % (fi.qualname, norm(v)))
        rep.floor("R01.3", "assignments of _lowest_relevant_bit", 3, nlrb)
        csb = index.function(BIP + ".compile_split_bitmask")
        nb = [c for c in calls_in(csb.node) if call_name(c) == "normalize_bitmask"]
        if len(nb) != 1:
            raise AnalysisError("R01.3: normalize_bitmask call in compile_split_bitmask not recognised")
        args = {k.arg: norm(k.value) for k in nb[0].keywords}
        for i, a in enumerate(nb[0].args):
            args[["bitmask", "fill_bitmask", "lowest_relevant_bit"][i]] = norm(a)
        want = {"bitmask": "self._leafset_bitmask", "fill_bitmask": "self._tree_leafset_bitmask", "lowest_relevant_bit": "self._lowest_relevant_bit"}
        rep.check(args == want, "R01.3", csb.qualname, "normalize_bitmask(%s)" % args, fn_where(csb, nb[0]), "unrooted split = normalize(leafset, fill=tree leafset, lowest bit of tree leafset)",
                  "compile_split_bitmask normalises with %s instead of %s" % (args, want))
        # rooted branch keeps the leafset
        rooted = [pos_if(n) for n in walk_no_nested(csb.node) if isinstance(n, ast.If) and norm(pos_if(n)[0]) == "self._is_rooted"]
        ok = bool(rooted) and any(isinstance(s, ast.Assign) and norm(s.targets[0]) == "self._split_bitmask" and norm(s.value) == "self._leafset_bitmask" for s in rooted[0][1]) \
            and any(x is nb[0] for s in rooted[0][2] for x in ast.walk(s))
        rep.check(ok, "R01.3", csb.qualname, "rooted: split = leafset; unrooted: normalised", fn_where(csb), "rooted trees keep the leafset mask as split mask, unrooted ones normalise",
                  "compile_split_bitmask no longer sets split = leafset for rooted trees and the normalised mask for unrooted ones")
        for name in ("_compile_mutable_bipartition_for_edge", "_compile_immutable_bipartition_for_edge"):
            fi = index.function(TREE + "." + name)
            cs = [c for c in calls_in(fi.node) if call_name(c) == "compile_split_bitmask"]
            v = get_kwarg(cs[0], "tree_leafset_bitmask") if cs else None
            ok = v is not None and norm(v) in ("self.seed_node.edge.bipartition._leafset_bitmask", "self.seed_node.edge.bipartition.leafset_bitmask",
                                               "self._seed_node.edge.bipartition._leafset_bitmask", "self.seed_node._edge.bipartition._leafset_bitmask")
            rep.check(ok, "R01.3", fi.qualname, "tree_leafset_bitmask=%s" % (norm(v) if v is not None else None), fn_where(fi),
                      "%s passes the seed edge's leafset mask (the tree's own leaf set)" % name,
                      "%s passes `%s` as the tree leafset mask: normalisation must be relative to the tree's own leaf set (the seed edge's leafset mask); the namespace-wide mask differs whenever the namespace is larger than the tree or had taxa removed"
                      % (fi.qualname, norm(v) if v is not None else None))
        # other normalize_bitmask call sites
        for fi in list(index.functions.values()):
            if fi.qualname == csb.qualname:
                continue
            for c in calls_in(fi.node):
                if call_name(c) != "normalize_bitmask" or not isinstance(c.func, ast.Attribute) or "Bipartition" not in norm(c.func.value):
                    continue
                lrb = get_kwarg(c, "lowest_relevant_bit")
                fill = get_kwarg(c, "fill_bitmask")
                lit = lrb is None or isinstance(lrb, ast.Constant)
                rep.check(not lit, "R01.3", fi.qualname, "normalize_bitmask(fill=%s, lowest_relevant_bit=%s)" % (norm(fill) if fill is not None else None, norm(lrb) if lrb is not None else "<default 1>"),
                          fn_where(fi, c), "%s normalises relative to a tree's own lowest bit" % fi.qualname,
                          "%s normalises a split with the literal lowest bit %s and fill `%s`: it disagrees with the trees' own normalisation whenever bit 0 is not on the tree (namespace whose first taxon was removed)"
                          % (fi.qualname, norm(lrb) if lrb is not None else "1 (default)", norm(fill) if fill is not None else None))

    # ---- R01.4
    with rep.section("R01.4"):
        for name, allowed in (("__hash__", {"_split_bitmask", "is_mutable"}), ("__eq__", {"_split_bitmask"})):
            fi = index.function(BIP + "." + name)
            reads = {a for a, b, _ in attr_reads(fi.node) if isinstance(b, ast.Name) and b.id in ("self", "other")}
            ok = reads <= allowed and "_split_bitmask" in reads
            rep.check(ok, "R01.4", fi.qualname, "reads %s" % sorted(reads), fn_where(fi), "Bipartition.%s reads %s" % (name, sorted(reads)),
                      "Bipartition.%s depends on %s: identity must be the split bitmask alone (two edges inducing the same split must be equal and hash alike)" % (name, sorted(reads - allowed) or "nothing"))

    # ---- R01.5
    with rep.section("R01.5"):
        cfg = cfg_of(enc)
        edge_map_reset_rule(index, rep, "R01.5")
        sets = [n for n in cfg.nodes if n.kind == "stmt" and isinstance(n.ast, ast.Assign) and norm(n.ast.targets[0]) == "self.bipartition_encoding"]
        seed_names = {"self.seed_node", "self._seed_node"} | {norm(n.targets[0]) for n in walk_no_nested(enc.node) if isinstance(n, ast.Assign) and norm(n.value) in ("self.seed_node", "self._seed_node")}
        ids = {n.id for n in sets}
        w = cfg.can_reach(cfg.entry, lambda n: n is cfg.exit, avoid=lambda n: n.id in ids, follow_exc=False,
                          edge_ok=lambda s, l, d: not (s.kind == "test" and norm(s.ast) in seed_names and l == "f"))
        rep.check(w is None and bool(sets), "R01.5", enc.qualname, "bipartition_encoding assigned", fn_where(enc), "every completing path (seed node present) assigns self.bipartition_encoding",
                  "encode_bipartitions has a completing path that never assigns self.bipartition_encoding: the encoding list of the previous structure stays in place")
        # who writes the lazy maps
        nmw = 0
        for fi in list(index.functions.values()):
            for w_ in writes_in(fi.node):
                if w_.attr in ("_split_bitmask_edge_map", "_bipartition_edge_map"):
                    nmw += 1
                    ok = fi.cls is not None and index.is_subclass(fi.cls, TREE) and fi.name in MAP_WRITERS
                    rep.check(ok, "R01.5", fi.qualname, "write to " + w_.attr, fn_where(fi, w_.stmt), "%s writes %s" % (fi.qualname, w_.attr),
                              "%s writes the lazily built edge map `%s` outside the encoding functions" % (fi.qualname, w_.attr))
        rep.floor("R01.5", "writes to the cached edge maps", 6, nmw)
        g = index.function(TREE + "._get_bipartition_edge_map")
        fills = [w_ for w_ in writes_in(g.node) if w_.kind == "substore"]
        loops_ = {id(l) for l in walk_no_nested(g.node) if isinstance(l, ast.For)}
        both = {w_.attr for w_ in fills} == {"_bipartition_edge_map", "_split_bitmask_edge_map"}
        rep.check(both, "R01.5", g.qualname, "both maps filled together", fn_where(g), "the bipartition->edge and split->edge maps are rebuilt in the same pass",
                  "_get_bipartition_edge_map no longer fills both edge maps in the same pass: one of them keeps entries of an earlier encoding")
        gl = [l for l in walk_no_nested(g.node) if isinstance(l, ast.For)]
        ev = norm(gl[0].target) if gl else "edge"
        keyok = all((w_.attr == "_bipartition_edge_map" and norm(w_.node.slice) == ev + ".bipartition") or
                    (w_.attr == "_split_bitmask_edge_map" and norm(w_.node.slice) == ev + ".bipartition.split_bitmask") for w_ in fills) and \
            all(norm(w_.value) == ev for w_ in fills)
        rep.check(keyok, "R01.5", g.qualname, "map keys/values", fn_where(g), "maps are keyed by the edge's own bipartition / split bitmask and hold that edge",
                  "the edge maps are keyed or filled with something other than the edge's own bipartition/split bitmask")

    # ---- R01.10
    with rep.section("R01.10"):
        rep.rule("R01.10", "an encode is complete: in encode_bipartitions every edge that goes into the list the encoding is built from gets a NEW bipartition in the same iteration, and the compile step is mapped over that very list on every path (no edge keeps a bipartition compiled against an earlier leaf set)")
        enc = index.function(TREE + ".encode_bipartitions")
        g = cfg_of(enc)
        loops = [l for l in walk_no_nested(enc.node) if isinstance(l, ast.For) and "postorder_edge_iter" in norm(l.iter)]
        if len(loops) != 1 or not isinstance(loops[0].target, ast.Name):
            raise AnalysisError("R01.10: edge loop of encode_bipartitions not recognised")
        ev = loops[0].target.id
        apps = [nd for nd in g.nodes if any(call_name(c) == "append" and c.args and norm(c.args[0]) == ev for c in node_calls(nd)) and any(nd.stmt is x for x in ast.walk(loops[0]))]
        lists = {norm(c.func.value) for nd in apps for c in node_calls(nd) if call_name(c) == "append"}
        stored = [a for a in walk_no_nested(enc.node) if isinstance(a, ast.Assign) and norm(a.targets[0]) == "self.bipartition_encoding" and not is_none(a.value)]
        used = {l for l in lists if any(isinstance(x, ast.Name) and x.id == l for a in stored for x in ast.walk(a.value))}
        if not apps or len(used) != 1:
            raise AnalysisError("R01.10: list of encoded edges not recognised")
        lst = used.pop()
        apps = [nd for nd in apps if any(call_name(c) == "append" and norm(c.func.value) == lst for c in node_calls(nd))]
        head = g.loops.get(loops[0])

        def renews(nd):
            return nd.kind == "stmt" and isinstance(nd.ast, ast.Assign) and norm(nd.ast.targets[0]) in (ev + ".bipartition", ev + "._bipartition") and isinstance(nd.ast.value, ast.Call) and call_name(nd.ast.value) == "Bipartition"
        for nd in apps:
            w = g.can_reach(nd, lambda x: x is head, avoid=renews, follow_exc=False)
            rep.check(w is None, "R01.10", enc.qualname, "an encoded edge can keep its old bipartition", fn_where(enc, nd.stmt), "every edge appended to `%s` gets a new Bipartition before the next edge" % lst,
                      "encode_bipartitions has a path on which an edge is put into `%s` (the edges of the encoding) and the loop moves on without giving it a new Bipartition: that edge keeps the object compiled by an earlier encode - with the tree leaf set, the normalisation bit and the frozen split of the tree as it was before tips were pruned or added - so an update requested after a change of the leaf set leaves stale splits behind" % lst)
        comp = [c for c in calls_in(enc.node) if isinstance(c.func, ast.Name) and c.func.id == "map" and len(c.args) == 2]
        rep.check(bool(comp) and all(norm(c.args[1]) == lst for c in comp), "R01.10", enc.qualname, "compile step not mapped over the list of encoded edges", fn_where(enc, comp[0] if comp else None), "the compile function is mapped over `%s`" % lst,
                  "encode_bipartitions compiles %s instead of `%s`, the list of all encoded edges: edges left out keep uncompiled or stale split bitmasks" % ([norm(c.args[1]) for c in comp], lst))
        after_loop = {x.id for x in g.reach([t for lab, t in head.succ if lab == "done"], follow_exc=False)}
        rets = [nd for nd in g.nodes if nd.kind == "stmt" and isinstance(nd.ast, ast.Return) and nd.id in after_loop]
        for r in rets:
            ok = g.dominated_by(r, lambda x: any(isinstance(c.func, ast.Name) and c.func.id == "map" and len(c.args) == 2 and norm(c.args[1]) == lst for c in node_calls(x)), follow_exc=False)
            rep.check(ok, "R01.10", enc.qualname, "a return not preceded by the compile step", fn_where(enc, r.stmt), "every return of encode_bipartitions follows the compile step over `%s`" % lst,
                      "encode_bipartitions can return without having mapped the compile function over `%s`" % lst)

    # ---- R01.11
    with rep.section("R01.11"):
        rep.rule("R01.11", "compatibility of unrooted splits is decided on one normalisation: Bipartition.is_compatible_with hands is_compatible_bitmasks (a three-cell test, exact only when both masks keep the same taxon on the 0 side) an `other` mask that, for an unrooted bipartition, has been re-normalised against this bipartition's tree leaf set")
        icw = index.function(BIP + ".is_compatible_with")
        g = cfg_of(icw)
        calls = [(nd, c) for nd in g.nodes for c in node_calls(nd) if call_name(c) == "is_compatible_bitmasks"]
        if len(calls) != 1 or len(calls[0][1].args) < 2:
            raise AnalysisError("R01.11: is_compatible_with no longer calls is_compatible_bitmasks(m1, m2, fill) once")
        nd, c = calls[0]
        m2 = c.args[1]
        if not isinstance(m2, ast.Name):
            raise AnalysisError("R01.11: second mask of is_compatible_bitmasks is not a local")

        def renorm(x):
            return x.kind == "stmt" and isinstance(x.ast, ast.Assign) and norm(x.ast.targets[0]) == m2.id and isinstance(x.ast.value, ast.Call) and call_name(x.ast.value) == "normalize_bitmask" \
                and any("_tree_leafset_bitmask" in norm(a) or "fill" in norm(a) for a in list(x.ast.value.args) + [k.value for k in x.ast.value.keywords])
        # on the paths where self._is_rooted is falsy, a re-normalisation of m2 must precede the call
        ok = g.dominated_by(nd, renorm, follow_exc=False, edge_ok=lambda a, lab, b: not (a.kind == "test" and ((norm(a.ast) in ("self._is_rooted", "self.is_rooted") and lab == "t") or (norm(a.ast) in ("self._tree_leafset_bitmask",) and lab == "f"))))
        rep.check(ok, "R01.11", icw.qualname, "other mask compared without bringing it to this tree's normalisation", fn_where(icw, c), "is_compatible_with re-normalises the other mask for unrooted bipartitions",
                  "Bipartition.is_compatible_with passes the other split mask to is_compatible_bitmasks as it is: that test knows three of the four cells (m1&m2, m1&~m2, ~m1&m2) and is exact only when both masks put the same taxon on the 0 side; a query built over the whole namespace (fill = all taxa) is normalised on a taxon that may not be on the tree, so a split that is literally in the tree - {b,c} against ((b,c),(d,e),f) in a namespace a..f - is declared incompatible")

    # ---- R01.12
    with rep.section("R01.12"):
        rep.rule("R01.12", "a bipartition compiled at construction knows its rooting: every Bipartition(...) construction that passes a mask and does not switch compilation off also passes is_rooted (without it the split mask is normalised as for an unrooted tree, i.e. complemented when the first taxon is in the clade)")
        ncon = 0
        for f in list(index.functions.values()):
            if not f.module.name.startswith("dendropy.") or ".legacy" in f.module.name:
                continue
            for c in calls_in(f.node, nested=True):
                if call_name(c) != "Bipartition" or c.args:
                    continue
                kws = {k.arg: k.value for k in c.keywords if k.arg}
                if not ({"leafset_bitmask", "bitmask"} & set(kws)):
                    continue
                cb = kws.get("compile_bipartition")
                if cb is not None and isinstance(cb, ast.Constant) and cb.value is False:
                    continue
                ncon += 1
                rep.check("is_rooted" in kws, "R01.12", f.qualname, "Bipartition compiled without is_rooted", fn_where(f, c), "%s: Bipartition(...) is told the rooting" % f.qualname,
                          "%s constructs and compiles `%s` without is_rooted: the new bipartition's rooting is None, so its split bitmask is normalised as on an unrooted tree - on a rooted tree every clade that contains the namespace's first taxon gets the complement of its leaf set as split, and a lookup of that split in a rooted split distribution (node support, maximum-credibility scores) finds the wrong entry or nothing" % (f.qualname, norm(c)[:70]))
        rep.floor("R01.12", "compiling Bipartition constructions", 3, ncon)

    # ---- R01.13
    with rep.section("R01.13"):
        rep.rule("R01.13", "a suppressed node's bipartition is dropped by identity: bipartitions compare and hash by split value, and a unifurcation has the split of its only child - selecting what to drop from the encoding by value also drops the surviving child's entry (C03 R03.4)")
        rep.floor("R01.13", "borrowed obligations", 3, borrow(index, rep, "C03", {"R03.4"}, "R01.13"))

    # ---- R01.14
    with rep.section("R01.14"):
        rep.rule("R01.14", "the normalisation bit follows the tree leaf set: in Bipartition every store to _tree_leafset_bitmask is followed, on every normal path to the return, by a store to _lowest_relevant_bit (a cached bit survives only if it is re-derived: a leaf set that gains a LOWER taxon must move the bit)")
        bk = index.klass(BIP)
        nstore = 0
        for m in bk.methods.values():
            if m.name == "__init__":
                continue
            g = None
            for w in writes_in(m.node):
                if not (w.kind == "store" and w.attr == "_tree_leafset_bitmask" and w.base is not None and norm(w.base) == "self"):
                    continue
                nstore += 1
                g = g or cfg_of(m)
                ok = all(g.must_pass(nd, lambda x: x.kind == "stmt" and isinstance(x.ast, ast.Assign) and any(norm(t) == "self._lowest_relevant_bit" for t in x.ast.targets))[0] for nd in g.nodes_of_stmt(w.stmt))
                rep.check(ok, "R01.14", m.qualname, "tree leaf set stored without re-deriving the lowest relevant bit on every path", fn_where(m, w.stmt), "%s: _lowest_relevant_bit is assigned on every path after the leaf set changes" % m.name,
                          "%s stores a new `_tree_leafset_bitmask` and can return without assigning `_lowest_relevant_bit`: a bipartition first compiled against a partial leaf set keeps the old bit when the tree leaf set later gains a lower taxon, so its split is normalised on the wrong taxon - the unrooted rule (lowest taxon present is 0) fails and equal splits hash differently" % m.qualname)
        rep.floor("R01.14", "stores of the tree leaf set in Bipartition", 1, nstore)

    # ---- R01.9
    with rep.section("R01.9"):
        rep.rule("R01.9", "bit-level compatibility has the three-cell normal form: is_compatible_bitmasks answers True exactly when one of m1&m2, m1&~m2, ~m1&m2 is empty (within the fill mask) and never on ~m1&~m2; from_bipartition_encoding hands SPLIT masks to from_split_bitmasks")
        f9 = index.function(BIP + ".is_compatible_bitmasks")
        pnames = [p_ for p_ in f9.params if p_ not in ("self", "cls")]
        if len(pnames) != 3:
            raise AnalysisError("R01.9: is_compatible_bitmasks signature not recognised")
        m1, m2, fill = pnames
        defs = {}
        cells_seen = {}
        ntests = 0

        def bit(e, env):
            """per-bit value of a bitwise expression over (m1, m2, fill) bits"""
            if isinstance(e, ast.Name):
                if e.id in env:
                    return env[e.id]
                if e.id in defs:
                    return bit(defs[e.id], env)
                raise AnalysisError("R01.9: unknown name %s in is_compatible_bitmasks" % e.id)
            if isinstance(e, ast.BinOp) and isinstance(e.op, (ast.BitAnd, ast.BitOr, ast.BitXor)):
                a, b = bit(e.left, env), bit(e.right, env)
                return a & b if isinstance(e.op, ast.BitAnd) else (a | b if isinstance(e.op, ast.BitOr) else a ^ b)
            if isinstance(e, ast.UnaryOp) and isinstance(e.op, ast.Invert):
                return 1 - bit(e.operand, env)
            if isinstance(e, ast.Constant) and e.value in (0, 1):
                return e.value
            raise AnalysisError("R01.9: expression `%s` is not a bitwise formula" % norm(e)[:40])
        for st in f9.node.body:
            if isinstance(st, ast.Assign) and isinstance(st.targets[0], ast.Name):
                defs[st.targets[0].id] = st.value
            elif isinstance(st, ast.If) and names_in(st.test) <= {fill} and all(isinstance(x, ast.Assign) for x in st.body):
                continue        # restriction of both masks to the fill mask: inside the fill, m & fill == m
            elif isinstance(st, ast.If) and st.body and isinstance(st.body[0], ast.Return) and const_value(st.body[0].value) is True:
                cp = compare_parts(st.test)
                zero_test = cp and cp[1] == "Eq" and (const_value(cp[0]) == 0 or const_value(cp[2]) == 0)
                if not zero_test:
                    raise AnalysisError("R01.9: test `%s` is not of the form 0 == (a & b)" % norm(st.test)[:40])
                expr = cp[2] if const_value(cp[0]) == 0 else cp[0]
                ntests += 1
                cells = frozenset((a, b) for a in (0, 1) for b in (0, 1) if bit(expr, {m1: a, m2: b, fill: 1}))
                cells_seen[norm(st.test)] = (st, cells)
        allowed = {frozenset({(1, 1)}), frozenset({(1, 0)}), frozenset({(0, 1)})}
        covered = set()
        for txt, (st, cells) in sorted(cells_seen.items()):
            covered |= set(cells) if cells in allowed else set()
            rep.check(cells in allowed, "R01.9", f9.qualname, "test `%s` is empty-cell test for %s" % (txt, sorted(cells)), fn_where(f9, st), "`%s` tests emptiness of the cell %s" % (txt, sorted(cells)),
                      "is_compatible_bitmasks answers True when `%s`, i.e. when no taxon has (in m1, in m2) = %s: two clades are compatible iff they are disjoint or nested, so the only admissible cells are (1,1), (1,0) and (0,1); a test on (0,0) - 'together they cover everything' - declares overlapping, non-nested rooted clades compatible" % (txt, sorted(cells)))
        rep.check(covered == {(1, 1), (1, 0), (0, 1)}, "R01.9", f9.qualname, "cells tested: %s" % sorted(covered), fn_where(f9), "disjointness and both nestings are tested", "is_compatible_bitmasks tests only the cells %s: disjoint / nested pairs of the missing kind are reported incompatible" % sorted(covered))
        rep.floor("R01.9", "emptiness tests in is_compatible_bitmasks", 3, ntests)
        fb = index.function(TREE + ".from_bipartition_encoding")
        cs = [c for c in calls_in(fb.node) if call_name(c) == "from_split_bitmasks"]
        v = get_kwarg(cs[0], "split_bitmasks") if cs else None
        okw = False
        if isinstance(v, ast.Name):
            ds = [d.value for d in _assign_defs(fb.node, v.id) if isinstance(d, ast.Assign)]
            okw = len(ds) == 1 and isinstance(ds[0], (ast.ListComp, ast.GeneratorExp)) and isinstance(ds[0].elt, ast.Attribute) and ds[0].elt.attr in ("split_bitmask", "_split_bitmask")
        rep.check(okw, "R01.9", fb.qualname, "masks handed to from_split_bitmasks", fn_where(fb), "from_bipartition_encoding passes each bipartition's split_bitmask", "from_bipartition_encoding hands from_split_bitmasks something other than the bipartitions' SPLIT masks (a leafset mask of an unrooted tree is not normalised: its complement inside from_split_bitmasks can name a bit no taxon owns, and the clade is dropped as incompatible)")

    # ---- R01.7 / R01.8
    with rep.section("R01.7 / R01.8"):
        rep.rule("R01.7", "Tree-level predicates that take is_bipartitions_updated re-encode before reading the encoding unless told not to (freshness, shared engine with R04.1)")
        nf = c04.freshness_everywhere(index, rep, "R01.7", ["dendropy.datamodel.treemodel._tree"])
        rep.floor("R01.7", "Tree methods using the freshness flag", 2, nf)
        rep.rule("R01.8", "the taxon -> bit assignment is stable: the accession-index state is written only by the namespace's maintaining functions and add_taxon pairs both maps with the monotone counter (shared with R10.1-R10.3)")
        from . import c10
        c10.index_state_rules(index, rep, {"R10.1": "R01.8", "R10.2": "R01.8", "R10.3": "R01.8"})
        c10.remove_release_rule(index, rep, "R01.8")

    # ---- R01.6
    with rep.section("R01.6"):
        def arg_defs(fi, e):
            """set of definition texts of an argument expression (locals resolved one level)."""
            if isinstance(e, ast.Name) and e.id not in fi.all_params:
                ds = {norm(d.value) for d in _assign_defs(fi.node, e.id) if isinstance(d, ast.Assign)}
                return ds or {e.id}
            return {norm(e)}
        fi = index.function(BIP + ".is_trivial")
        cs = [c for c in calls_in(fi.node) if call_name(c) == "is_trivial_bitmask"]
        got = [sorted(arg_defs(fi, a)) for a in cs[0].args] if cs else None
        want = [["self._split_bitmask"], ["self._tree_leafset_bitmask"]]
        rep.check(got == want, "R01.6", fi.qualname, "is_trivial_bitmask(%s)" % got, fn_where(fi), "is_trivial -> is_trivial_bitmask(split mask, tree leafset mask)",
                  "%s calls is_trivial_bitmask(%s); expected (%s): the predicate is evaluated on the wrong masks" % (fi.qualname, got, want))
        fi = index.function(BIP + ".is_compatible_with")
        cs = [c for c in calls_in(fi.node) if call_name(c) == "is_compatible_bitmasks"]
        got = [sorted(arg_defs(fi, a)) for a in cs[0].args] if cs else None
        ok = got is not None and len(got) == 3 and got[0] == ["self._split_bitmask"] and {"other", "other._split_bitmask"} <= set(got[1]) and all(x.startswith("Bipartition.normalize_bitmask(") for x in set(got[1]) - {"other", "other._split_bitmask"}) and got[2] == ["self._tree_leafset_bitmask"]
        rep.check(ok, "R01.6", fi.qualname, "is_compatible_bitmasks(%s)" % got, fn_where(fi), "compatibility compares the two SPLIT masks within this tree's leaf set",
                  "is_compatible_with calls is_compatible_bitmasks(%s) rather than (self split mask, other split mask, tree leafset mask)" % got)
        fi = index.function(BIP + ".is_leafset_nested_within")
        ret = [n for n in walk_no_nested(fi.node) if isinstance(n, ast.Return)]
        ok = False
        if len(ret) == 1 and isinstance(ret[0].value, ast.Compare) and isinstance(ret[0].value.left, ast.BinOp) and isinstance(ret[0].value.left.op, ast.BitAnd):
            cmpn = ret[0].value
            operands = [cmpn.left.left, cmpn.left.right]
            others = [o for o in operands if norm(o) != "self._leafset_bitmask"]
            ok = norm(cmpn.comparators[0]) == "self._leafset_bitmask" and len(others) == 1 and isinstance(others[0], ast.Name)
            if ok:
                ds = {norm(d.value).replace(others[0].id, "$m") for d in _assign_defs(fi.node, others[0].id) if isinstance(d, ast.Assign)}
                ok = "self._tree_leafset_bitmask & $m" in ds and "other._leafset_bitmask" in ds
        rep.check(ok, "R01.6", fi.qualname, "nesting test: " + (norm(ret[0].value) if ret else "?"), fn_where(fi), "leafset nesting: (other.leafset & tree leafset) & self.leafset == self.leafset",
                  "is_leafset_nested_within no longer tests (m2 & self._leafset_bitmask) == self._leafset_bitmask on the other's LEAFSET mask restricted to this tree's leaf set")

    # ---- R01.15 a tree built from splits carries an encoding that matches its edges
    with rep.section("R01.15"):
        rep.rule("R01.15", "a tree built from splits carries an encoding that matches its edges: in Tree.from_split_bitmasks every path from a structural change (add_child / remove_child / new_child) to the return passes a statement that re-derives `bipartition_encoding` from the tree's edges (an assignment from an edge traversal, encode_bipartitions / update_bipartitions) or drops it (None) - entries appended while a node is being assembled describe partial unions of children that are the split of no edge, and callers that trust the stored encoding (is_bipartitions_updated=True) compare against splits the tree does not have")
        fs = index.function(TREE + ".from_split_bitmasks")
        g = cfg_of(fs)

        def structural(n):
            return any(call_name(c) in ("add_child", "remove_child", "new_child", "insert_child") for c in node_calls(n))

        def resync(n):
            a = n.ast
            if any(call_name(c) in ("encode_bipartitions", "update_bipartitions") for c in node_calls(n)):
                return True
            if isinstance(a, ast.Assign) and any(isinstance(t, ast.Attribute) and t.attr == "bipartition_encoding" for t in a.targets):
                v = a.value
                if is_none(v):
                    return True
                return any(isinstance(c, ast.Call) and call_name(c).endswith("edge_iter") for c in ast.walk(v)) or any(isinstance(x, ast.Attribute) and x.attr == "bipartition" for x in ast.walk(v)) and isinstance(v, (ast.ListComp, ast.Call))
            return False
        muts = [n for n in g.nodes if structural(n)]
        if len(muts) < 3:
            raise AnalysisError("R01.15: the node surgery of from_split_bitmasks was not recognised")
        bad = None
        for mnode in muts:
            ok, w = g.must_pass(mnode, resync)
            if not ok:
                bad = mnode
        rep.check(bad is None, "R01.15", fs.qualname, "stored encoding not re-derived after the tree was assembled", fn_where(fs, bad.ast if bad is not None else None), "from_split_bitmasks re-derives the encoding after the last structural change",
                  "Tree.from_split_bitmasks returns after `%s` without re-deriving `bipartition_encoding` from the finished tree: the list it carries was filled while nodes were being assembled (one entry per child folded in, leaf and root entries dropped), so it contains splits of no edge and lacks splits the tree has - symmetric_difference(t, rebuilt, is_bipartitions_updated=True) is non-zero for identical trees" % (norm_stmt(bad.stmt)[:60] if bad is not None else ""))

    # ---- R01.16 a bipartition's masks are set by the bipartition
    with rep.section("R01.16"):
        rep.rule("R01.16", "a bipartition's masks are set by the bipartition: `_split_bitmask`, `_leafset_bitmask` and `_tree_leafset_bitmask` of a Bipartition are stored from outside the class only on an object the same function has just constructed (encode_bipartitions builds its mutable bipartitions by hand); everything else goes through the public properties, whose setters refuse a frozen (hashed) bipartition and recompute the normalisation bit with the tree leaf set - a forwarding setter on Edge / Node that writes the private field leaves `_lowest_relevant_bit` describing the old leaf set")
        BF = {"_split_bitmask", "_leafset_bitmask", "_tree_leafset_bitmask", "_lowest_relevant_bit"}
        n16 = 0
        for m in sorted(index.modules):
            if not m.startswith("dendropy.") or ".test" in m or ".legacy" in m:
                continue
            for fi in index.functions_in_module(m):
                if fi.cls is not None and fi.cls.qualname == BIP:
                    continue
                built = {norm(t) for st in walk_no_nested(fi.node) if isinstance(st, ast.Assign) and isinstance(st.value, ast.Call) and call_name(st.value) == "Bipartition" for t in st.targets}
                for w in writes_in(fi.node):
                    if w.kind == "store" and w.attr in BF and w.base is not None and norm(w.base) != "self":
                        n16 += 1
                        rep.check(norm(w.base) in built, "R01.16", fi.qualname, "`%s.%s` stored from outside the bipartition" % (norm(w.base), w.attr), fn_where(fi, w.stmt), "%s: %s.%s of a bipartition built here" % (fi.name, norm(w.base), w.attr),
                                  "%s stores `%s.%s` directly: the bipartition's own setter for this mask asserts that the object is still mutable (a compiled bipartition is hashed by its split mask and sits in sets and dictionaries) and, for the tree leaf set, recomputes the lowest relevant bit the split is normalised on - written from outside, a frozen bipartition changes under its hash and the next compile normalises against the bit of the OLD leaf set" % (fi.qualname, norm(w.base), w.attr))
        rep.floor("R01.16", "stores of bipartition masks from outside the class", 1, n16)

    # ---- R01.17 the compatibility predicates answer for the tree as it is
    with rep.section("R01.17"):
        rep.rule("R01.17", "the compatibility predicates answer for the tree as it is: every function that takes is_bipartitions_updated - Tree.is_compatible_with_bipartition among them - declares it with the default False (C04 R04.10), so a call with default arguments re-encodes instead of trusting an encoding cached before the tree was edited")
        nb = borrow(index, rep, "C04", {"R04.10"}, "R01.17")
        rep.floor("R01.17", "borrowed obligations", 20, nb)

    # ---- R01.18 the number of members is not the width of a bitmask
    with rep.section("R01.18"):
        rep.rule("R01.18", "the number of members is not the width of a bitmask: in the tree model, the namespace and the tree collections no shift (`x >> n`, `1 << n`) takes its amount from `len(<taxon namespace>)` - bit positions are accession indices, which exceed the member count as soon as a taxon was removed, so a mask of current members would be judged to reference taxa outside the namespace")
        n18 = 0
        for m in ("dendropy.datamodel.treemodel._tree", "dendropy.datamodel.treemodel._bipartition", "dendropy.datamodel.taxonmodel", "dendropy.datamodel.treecollectionmodel", "dendropy.calculate.treecompare"):
            for fi in index.functions_in_module(m):
                sized = {norm(st.targets[0]) for st in walk_no_nested(fi.node) if isinstance(st, ast.Assign) and len(st.targets) == 1 and isinstance(st.value, ast.Call) and call_name(st.value) == "len" and st.value.args
                         and ("taxon_namespace" in norm(st.value.args[0]) or norm(st.value.args[0]) in ("self._taxa", "self"))}
                for x in ast.walk(fi.node):
                    if isinstance(x, ast.BinOp) and isinstance(x.op, (ast.LShift, ast.RShift)):
                        n18 += 1
                        amt = x.right
                        by_len = (isinstance(amt, ast.Name) and amt.id in sized) or any(isinstance(c, ast.Call) and call_name(c) == "len" and c.args and ("taxon_namespace" in norm(c.args[0]) or norm(c.args[0]) in ("self._taxa",)) for c in ast.walk(amt))
                        rep.check(not by_len, "R01.18", fi.qualname, "shift by the number of members: `%s`" % norm(x)[:50], fn_where(fi, x), "%s: `%s`" % (fi.name, norm(x)[:40]),
                                  "%s computes `%s`, shifting by the number of members of the namespace: bit positions are accession indices and are never re-used, so after a removal the bits of the members admitted last lie beyond that width - a valid split over the current members is rejected (or cut off) although every taxon it names is in the namespace" % (fi.qualname, norm(x)[:60]))
        rep.floor("R01.18", "shifts in the bitmask code", 2, n18)

    # ---- R01.19 a bipartition handed in by the caller is compared, not hashed
    with rep.section("R01.19"):
        rep.rule("R01.19", "a bipartition handed in by the caller is compared, not hashed: where a method of Tree tests a bipartition PARAMETER for membership, the container is the encoding list (or another sequence) - not a dictionary / set keyed by bipartitions (`bipartition_edge_map`, `set(...)`): Bipartition.__hash__ asserts that the object is frozen, and query bipartitions built with the default constructor or taxa_bipartition() are mutable, so the predicate would die with AssertionError instead of answering")
        n19 = 0
        for fi in index.methods_of(TREE):
            bp = [p_ for p_ in fi.params if "bipartition" in p_ and p_ != "self" and not p_.startswith("is_")]
            if not bp:
                continue
            for x in ast.walk(fi.node):
                if isinstance(x, ast.Compare) and len(x.ops) == 1 and isinstance(x.ops[0], (ast.In, ast.NotIn)) and isinstance(x.left, ast.Name) and x.left.id in bp:
                    n19 += 1
                    c_ = x.comparators[0]
                    hashed = (isinstance(c_, ast.Attribute) and (c_.attr.endswith("_map") or c_.attr.endswith("_set") or c_.attr.endswith("_dict"))) or (isinstance(c_, ast.Call) and call_name(c_) in ("set", "frozenset", "dict"))
                    rep.check(not hashed, "R01.19", fi.qualname, "`%s` looks the query up by hash" % norm(x)[:60], fn_where(fi, x), "%s: `%s` scans a sequence" % (fi.name, norm(x)[:50]),
                              "%s evaluates `%s`: the container is keyed by bipartitions, so the test hashes the caller's object, and Bipartition.__hash__ asserts `not self.is_mutable` - for a query built with Bipartition(...) defaults or namespace.taxa_bipartition() (both mutable) the compatibility predicate raises AssertionError: Bipartition is mutable" % (fi.qualname, norm(x)[:60]))
        rep.floor("R01.19", "membership tests on a bipartition parameter", 1, n19)

    # ---- R01.20 leafset bits are decoded the way they were encoded
    with rep.section("R01.20"):
        rep.rule("R01.20", "leafset bits are decoded the way they were encoded (C10 R10.18): Bipartition.leafset_taxa() and the bitmask renderers go through TaxonNamespace methods that turn a bit into a taxon by its accession index, never by list position - otherwise, on a sorted or reversed namespace or one with a removed member, the taxa a leafset bitmask is SAID to contain are not the taxa on the leaves below the edge")
        nb = borrow(index, rep, "C10", {"R10.18"}, "R01.20")
        rep.floor("R01.20", "borrowed obligations", 1, nb)
