"""C17 Node ages, the ultrametricity check and tree statistics match their definitions.

Decided here (structure only - see the level note): when the ultrametricity error can and cannot be raised,
which aggregate each forcing option uses, that the age / depth / root-distance recurrences point the right
way and that ages and edge lengths are computed by mutually inverse formulas, the option dispatch of the
normalised statistics, and independence of the statistics from child order.
NOT decided: the numeric value of any age or statistic."""
import ast

from .common import *  # noqa

TREE = "dendropy.datamodel.treemodel._tree.Tree"
TMS = "dendropy.calculate.treemeasure"


def _enclosing_ifs(pm, node, stop):
    out = []
    cur = pm.get(node)
    while cur is not None and cur is not stop:
        if isinstance(cur, ast.If):
            out.append(cur)
        cur = pm.get(cur)
    return out


def _sym_canon(e, a, b):
    """canonical text of e in which the roles of names a and b are interchangeable"""
    def c(x):
        if isinstance(x, ast.BinOp) and isinstance(x.op, ast.Add):
            return "(" + " + ".join(sorted([c(x.left), c(x.right)])) + ")"
        if isinstance(x, ast.BinOp) and isinstance(x.op, ast.Mult):
            return "(" + " * ".join(sorted([c(x.left), c(x.right)])) + ")"
        if isinstance(x, ast.Call) and call_name(x) == "abs" and len(x.args) == 1 and isinstance(x.args[0], ast.BinOp) and isinstance(x.args[0].op, ast.Sub):
            return "absdiff(" + ", ".join(sorted([c(x.args[0].left), c(x.args[0].right)])) + ")"
        if isinstance(x, ast.Call) and call_name(x) in ("max", "min") and len(x.args) >= 2:
            return call_name(x) + "(" + ", ".join(sorted(c(y) for y in x.args)) + ")"
        if isinstance(x, ast.Name):
            return x.id
        if isinstance(x, ast.BinOp):
            return "(%s %s %s)" % (c(x.left), type(x.op).__name__, c(x.right))
        if isinstance(x, ast.Call):
            return "%s(%s)" % (norm(x.func), ", ".join(c(y) for y in x.args))
        return norm(x)
    t = c(e)
    swapped = c(ast.parse(norm(e).replace(a, "\0").replace(b, a).replace("\0", b), mode="eval").body) if (a in names_in(e) or b in names_in(e)) else t
    return t, swapped


def run(index, rep, tier):
    rep.rule("R17.1", "ultrametricity gate in calc_node_ages: the error is unreachable when a forcing option is set or the precision is None/False, reachable otherwise; it compares every remaining child's (age + edge length) with the node's age and rejects only a difference GREATER than the precision")
    rep.rule("R17.2", "forcing options: is_force_max_age takes the max, is_force_min_age the min, over (child.age + child.edge.length) of ALL children; setting both is refused")
    rep.rule("R17.3", "recurrences point the right way and invert each other: age(parent) = age(child) + length(child) / length(child) = age(parent) - age(child); depth and root distance = own edge length + parent's value with 0 at the root; resolve_node_ages = max depth - depth")
    rep.rule("R17.4", "normalisation dispatch of the statistics: every documented option of colless_tree_imbalance / sackin_index has a branch, None and False mean no normalisation, anything else raises TypeError")
    rep.rule("R17.5", "child-order independence: wherever a statistic picks children by position, the positions enter only symmetric expressions")
    rep.rule("R17.6", "treeness = internal / (internal + external): the accumulator fed by non-leaf edges is the numerator and the denominator adds both")

    rep.rule("R17.8", "the statistics see the tree as it is: size, iteration, age and shape queries of Tree / Node / Edge and every function of treemeasure (with what they call inside the tree model) read no cached bipartition-encoding attribute")
    with rep.section("R17.8"):
        rep.floor("R17.8", "structure queries and their callees", 60, structure_query_rule(index, rep, "R17.8"))
    rep.rule("R17.9", "one default precision: every parameter that carries the ultrametricity tolerance (ultrametricity_precision, and pybus_harvey_gamma's prec) defaults to the same number in the tree model, the tree statistics and the coalescent code")
    with rep.section("R17.9"):
        cm = index.module("dendropy.utility.constants")
        cval = None
        for st in cm.tree.body:
            if isinstance(st, ast.Assign) and norm(st.targets[0]) == "DEFAULT_ULTRAMETRICITY_PRECISION":
                try:
                    cval = ast.literal_eval(st.value)
                except Exception:
                    cval = None
        if not isinstance(cval, (int, float)):
            raise AnalysisError("R17.9: constants.DEFAULT_ULTRAMETRICITY_PRECISION is not a numeric literal")
        vals = {}
        for m in (TREE.rsplit(".", 1)[0], TMS, "dendropy.model.coalescent", "dendropy.datamodel.treecollectionmodel"):
            for f in index.functions_in_module(m):
                a = f.node.args
                pos = a.posonlyargs + a.args
                dmap = dict(zip([x.arg for x in pos][len(pos) - len(a.defaults):], a.defaults))
                dmap.update({k.arg: v for k, v in zip(a.kwonlyargs, a.kw_defaults) if v is not None})
                for pn, dv in dmap.items():
                    if pn == "ultrametricity_precision" or (pn == "prec" and "gamma" in f.name):
                        if norm(dv).endswith("DEFAULT_ULTRAMETRICITY_PRECISION"):
                            v = cval
                        else:
                            try:
                                v = ast.literal_eval(dv)
                            except Exception:
                                v = norm(dv)
                        vals.setdefault(v, []).append((f, dv))
        tot = sum(len(v) for v in vals.values())
        rep.floor("R17.9", "defaults of the ultrametricity tolerance", 8, tot)
        major = max(vals, key=lambda k: len(vals[k]))
        for v, sites in sorted(vals.items(), key=lambda kv: str(kv[0])):
            for f, dv in sites:
                rep.check(v == major, "R17.9", f.qualname, "default tolerance %s differs from the other entry points' %s" % (v, major), fn_where(f, dv), "%s defaults the tolerance to %s" % (f.qualname, major),
                          "%s defaults the ultrametricity tolerance to %s while %d other entry points default to %s: the same slightly non-ultrametric tree is then accepted by one statistic and rejected by another with default arguments (the named constant resolves to %s)" % (f.qualname, v, len(vals[major]), major, cval))
    rep.rule("R17.7", "the statistics are functions of the tree alone: no function of the tree-statistics module keeps module-level state between calls")
    with rep.section("R17.7"):
        ng = module_state_rule(index, rep, "R17.7", [TMS])
        fns = [f for f in index.functions_in_module(TMS)]
        rep.ob("R17.7", "src/dendropy/calculate/treemeasure.py:1", "%d functions of treemeasure examined for writes to %d module-level containers" % (len(fns), ng), True)
        rep.floor("R17.7", "functions in the tree-statistics module", 8, len(fns))
    cna = index.function(TREE + ".calc_node_ages")
    pm = parent_map(cna.node)

    # ---- R17.1
    with rep.section("R17.1"):
        raises = [n for n in walk_no_nested(cna.node) if isinstance(n, ast.Raise) and n.exc is not None and "UltrametricityError" in norm(n.exc)]
        if len(raises) != 1:
            raise AnalysisError("R17.1: expected one raise of UltrametricityError in calc_node_ages, found %d" % len(raises))
        r = raises[0]
        gates = _enclosing_ifs(pm, r, cna.node)
        flagnames = ("is_force_max_age", "is_force_min_age", "ultrametricity_precision")
        gate = [g for g in gates if names_in(g.test) & {"is_force_max_age", "is_force_min_age"}]
        if len(gate) != 1:
            raise AnalysisError("R17.1: the option gate around the ultrametricity check was not recognised")
        gate = gate[0]
        in_true = any(any(x is r for x in ast.walk(st)) for st in gate.body)

        def enters(fmax, fmin, prec):
            d = Decision(facts={"is_force_max_age": fmax, "is_force_min_age": fmin}, values={"ultrametricity_precision": prec})
            try:
                v = d.test(gate.test)
            except Undecidable as e:
                raise AnalysisError("R17.1: the option gate `%s` is not decidable (%s)" % (norm(gate.test)[:60], e))
            return v if in_true else not v
        cases = [("is_force_max_age=True", (True, False, 1e-06), False), ("is_force_min_age=True", (False, True, 1e-06), False),
                 ("ultrametricity_precision=None", (False, False, None), False), ("ultrametricity_precision=False", (False, False, False), False),
                 ("default precision, no forcing", (False, False, 1e-06), True), ("precision 0, no forcing", (False, False, 0.0), True)]
        for what, args, want in cases:
            got = enters(*args)
            rep.check(got == want, "R17.1", cna.qualname, "ultrametricity check with %s: %s" % (what, "performed" if got else "skipped"), fn_where(cna, gate),
                      "with %s the ultrametricity check is %s" % (what, "performed" if want else "skipped"),
                      "calc_node_ages %s the ultrametricity check when %s: %s" % ("performs" if got else "skips", what,
                                                                                    "a tree whose root-to-tip paths differ by more than the precision is accepted silently" if want else "the documented way of disabling the check (or of forcing ages) still raises UltrametricityError"))
        # the comparison
        loops = [l for l in ast.walk(gate) if isinstance(l, ast.For) and any(x is r for x in ast.walk(l))]
        if not loops:
            raise AnalysisError("R17.1: the loop over the remaining children was not recognised")
        loop = loops[0]
        kids = {n.targets[0].id for n in walk_no_nested(cna.node) if isinstance(n, ast.Assign) and isinstance(n.targets[0], ast.Name) and isinstance(n.value, ast.Call) and call_name(n.value) == "child_nodes"}
        it = loop.iter
        base = it.value if isinstance(it, ast.Subscript) else it
        ok = isinstance(base, ast.Name) and base.id in kids and (not isinstance(it, ast.Subscript) or (isinstance(it.slice, ast.Slice) and const_value(it.slice.lower, None) in (None, 0, 1) and it.slice.upper is None and it.slice.step is None))
        rep.check(ok, "R17.1", cna.qualname, "children compared: %s" % norm(it), fn_where(cna, loop), "every child after the reference child is compared (%s)" % norm(it),
                  "the ultrametricity loop iterates `%s`, not all the remaining children of the node: a child whose path differs goes unnoticed" % norm(it))
        # the rejection test, on the CFG: which outcome of the comparison with the precision leads to the raise
        cfg = cfg_of(cna)
        rn = stmt_nodes(cfg, r)
        tests = [t for t in cfg.nodes if t.kind == "test" and isinstance(t.ast, ast.Compare) and len(t.ast.ops) == 1 and isinstance(t.ast.ops[0], (ast.Gt, ast.GtE, ast.Lt, ast.LtE))
                 and "ultrametricity_precision" in names_in(t.ast) and any(t.stmt is x for x in ast.walk(loop))]
        if len(tests) != 1 or not rn:
            raise AnalysisError("R17.1: the comparison with the precision was not recognised")
        tn = tests[0]
        need_t = all(x is not rn[0] for x in cfg.reach([cfg.entry], follow_exc=False, edge_ok=lambda s_, l, d_: not (s_ is tn and l == "t")))
        need_f = all(x is not rn[0] for x in cfg.reach([cfg.entry], follow_exc=False, edge_ok=lambda s_, l, d_: not (s_ is tn and l == "f")))
        cp = compare_parts(tn.ast)
        prec_right = norm(cp[2]) == "ultrametricity_precision"
        opn = cp[1]
        if not prec_right:
            opn = {"Gt": "Lt", "Lt": "Gt", "GtE": "LtE", "LtE": "GtE"}[opn]      # read as  <difference> op precision
        strict = (need_t and opn == "Gt") or (need_f and opn == "LtE")
        rep.check(strict, "R17.1", cna.qualname, "rejection test: %s (raise on %s)" % (norm(tn.ast), "true" if need_t else "false" if need_f else "either"), fn_where(cna, tn.stmt), "a difference is rejected only when strictly greater than the precision",
                  "calc_node_ages rejects on `%s` being %s: the property requires paths that agree WITHIN the precision to be accepted and only a difference greater than it to be rejected" % (norm(tn.ast), "true" if need_t else "false"))
        dvar = cp[0] if cp and norm(cp[2]) == "ultrametricity_precision" else (cp[2] if cp else None)
        okd = False
        nodevar = norm(loop.target)
        if isinstance(dvar, ast.Name):
            defs = [n for n in ast.walk(loop) if isinstance(n, ast.Assign) and norm(n.targets[0]) == dvar.id]
            for d_ in defs:
                v = d_.value
                if isinstance(v, ast.Call) and call_name(v) == "abs" and v.args and isinstance(v.args[0], ast.BinOp) and isinstance(v.args[0].op, ast.Sub):
                    sides = {norm(v.args[0].left), norm(v.args[0].right)}
                    other = [s_ for s_ in sides if not s_.endswith(".age")]
                    hasage = any(s_.endswith(".age") and not s_.startswith(nodevar + ".") for s_ in sides)
                    if hasage and len(other) == 1:
                        odefs = [n for n in ast.walk(loop) if isinstance(n, ast.Assign) and norm(n.targets[0]) == other[0]]
                        okd = bool(odefs) and any(norm(o.value) in ("%s.age + %s.edge.length" % (nodevar, nodevar), "%s.edge.length + %s.age" % (nodevar, nodevar)) for o in odefs) and \
                            all(norm(o.value) in ("%s.age + %s.edge.length" % (nodevar, nodevar), "%s.edge.length + %s.age" % (nodevar, nodevar), "%s.age" % nodevar) for o in odefs)
        rep.check(okd, "R17.1", cna.qualname, "compared quantity", fn_where(cna, tn.stmt), "the compared quantity is |age(node) - (age(child) + length(child))|",
                  "the quantity compared with the precision in calc_node_ages is no longer |age(node) - (age(child) + length(child))| for the child being examined")

    # ---- R17.2
    with rep.section("R17.2"):
        prefix = []
        for st in cna.node.body:
            if isinstance(st, (ast.For, ast.While)):
                break
            prefix.append(st)
        d = Decision(facts={"is_force_max_age": True, "is_force_min_age": True})
        d.run(prefix)
        okb = d.result is not None and d.result[0] == "raise"
        rep.check(okb, "R17.2", cna.qualname, "both forcing options refused", fn_where(cna), "setting both forcing options raises", "calc_node_ages no longer refuses is_force_max_age together with is_force_min_age")
        chains = [n for n in ast.walk(cna.node) if isinstance(n, ast.If) and names_in(n.test) == {"is_force_max_age"} and any(isinstance(a, ast.Assign) for a in ast.walk(n))]
        chains = [c for c in chains if not any(c is x for o in chains if o is not c for x in ast.walk(o))]
        if len(chains) != 1:
            raise AnalysisError("R17.2: the forcing chain of calc_node_ages was not recognised")
        for flag, want in (("is_force_max_age", "max"), ("is_force_min_age", "min")):
            d = Decision(facts={"is_force_max_age": flag == "is_force_max_age", "is_force_min_age": flag == "is_force_min_age"})
            try:
                d.run(chains)
            except Undecidable as e:
                raise AnalysisError("R17.2: forcing chain not decidable (%s)" % e)
            vals = [v for v in d.exprs.values() if isinstance(v, ast.Call) and call_name(v) in ("max", "min")]
            got = call_name(vals[0]) if vals else None
            okf = got == want
            elt_ok = False
            if vals:
                a = vals[0].args[0] if vals[0].args else None
                if isinstance(a, (ast.ListComp, ast.GeneratorExp)) and len(a.generators) == 1:
                    v = norm(a.generators[0].target)
                    elt_ok = norm(a.elt) in ("%s.age + %s.edge.length" % (v, v), "%s.edge.length + %s.age" % (v, v)) and not a.generators[0].ifs and isinstance(a.generators[0].iter, ast.Name)
            rep.check(okf and elt_ok, "R17.2", cna.qualname, "%s aggregates with %s" % (flag, got), fn_where(cna, chains[0]), "%s -> %s over (child.age + child.edge.length) of all children" % (flag, want),
                      "with %s set calc_node_ages aggregates the children with `%s`%s: the documented forced age is the %simum over all children of (age + edge length)" % (flag, got, "" if elt_ok else " over something other than (child.age + child.edge.length) of all children", want))

    # ---- R17.3
    with rep.section("R17.3"):
        # default age: first child's age + its edge length
        d = Decision(facts={"is_force_max_age": False, "is_force_min_age": False})
        firsts = {n.targets[0].id for n in walk_no_nested(cna.node) if isinstance(n, ast.Assign) and isinstance(n.targets[0], ast.Name) and isinstance(n.value, ast.Subscript) and const_value(n.value.slice, None) == 0}
        agedefs = [n for n in walk_no_nested(cna.node) if isinstance(n, ast.Assign) and isinstance(n.value, ast.BinOp) and isinstance(n.value.op, ast.Add)
                   and any(norm(n.value) in ("%s.age + %s.edge.length" % (f, f), "%s.edge.length + %s.age" % (f, f)) for f in firsts)]
        rep.check(bool(agedefs), "R17.3", cna.qualname, "age = child age + child length", fn_where(cna, agedefs[0] if agedefs else None), "calc_node_ages: age(node) = age(first child) + length(first child)",
                  "calc_node_ages no longer derives a node's age as its (first) child's age plus that child's edge length")
        se = index.function(TREE + ".set_edge_lengths_from_node_ages")
        subs = [n for n in walk_no_nested(se.node) if isinstance(n, ast.Assign) and isinstance(n.value, ast.BinOp) and isinstance(n.value.op, ast.Sub)]
        loops = [l for l in walk_no_nested(se.node) if isinstance(l, ast.For)]
        nv = norm(loops[0].target) if loops else "nd"
        oks = any(norm(n.value.left) in (nv + "._parent_node.age", nv + ".parent_node.age") and norm(n.value.right) == nv + ".age" for n in subs)
        rep.check(oks, "R17.3", se.qualname, "length = parent age - own age: %s" % [norm(n.value) for n in subs], fn_where(se, subs[0] if subs else None), "set_edge_lengths_from_node_ages: length(node) = age(parent) - age(node)",
                  "set_edge_lengths_from_node_ages computes %s: ages are derived as age(parent) = age(child) + length(child), so restoring the lengths needs age(parent) - age(child); any other orientation does not give back the original lengths" % [norm(n.value) for n in subs])
        stored = [n for n in walk_no_nested(se.node) if isinstance(n, ast.Assign) and norm(n.targets[0]) == nv + ".edge.length"]
        rep.check(bool(stored) and bool(subs) and all(norm(n.value) == norm(subs[0].targets[0]) for n in stored), "R17.3", se.qualname, "the computed difference is what is stored", fn_where(se), "the difference is stored as the node's own edge length", "set_edge_lengths_from_node_ages does not store the computed difference on the node's own edge")
        for q, attr in ((TREE + ".calc_node_root_distances", "root_distance"), (TREE + ".resolve_node_depths", None)):
            f = index.function(q)
            loops = [l for l in walk_no_nested(f.node) if isinstance(l, ast.For) and "preorder" in norm(l.iter)]
            if len(loops) != 1:
                raise AnalysisError("R17.3: %s: pre-order loop not recognised" % q)
            nv = norm(loops[0].target)
            roots = [i for i in ast.walk(loops[0]) if isinstance(i, ast.If) and norm(i.test) in ("%s._parent_node is None" % nv, "%s.parent_node is None" % nv)]
            if len(roots) != 1:
                raise AnalysisError("R17.3: %s: root test not recognised" % q)
            d0 = Decision(facts={norm(roots[0].test): True})
            d1 = Decision(facts={norm(roots[0].test): False})
            d0.lenient = d1.lenient = True    # a test on something else than the root question is not part of the recurrence
            d0.run([roots[0]])
            d1.run([roots[0]])
            zero = [v for v in d0.env.values() if v in (0, 0.0)]
            rec = [v for v in d1.exprs.values() if isinstance(v, ast.BinOp) and isinstance(v.op, ast.Add)]
            okr = False
            if rec:
                def through_local(e_, loop=loops[0]):
                    # a local bound once in the loop stands for what it was bound to
                    if isinstance(e_, ast.Name):
                        ds = [a for a in ast.walk(loop) if isinstance(a, ast.Assign) and any(isinstance(t_, ast.Name) and t_.id == e_.id for t_ in a.targets)]
                        if len(ds) == 1:
                            return norm(ds[0].value)
                    return norm(e_)
                parts = sorted([through_local(rec[0].left), through_local(rec[0].right)])
                own = [p_ for p_ in parts if p_ in (nv + ".edge.length", "node_edge_length_fn(%s)" % nv)]
                par = [p_ for p_ in parts if (nv + "._parent_node") in p_ or (nv + ".parent_node") in p_]
                okr = len(own) == 1 and len(par) == 1 and (attr is None or par[0].endswith("." + attr))
            rep.check(bool(zero) and okr, "R17.3", f.qualname, "recurrence: root %s, other %s" % (list(d0.env.values()), norm(rec[0]) if rec else None), fn_where(f, roots[0]),
                      "%s: 0 at the root, own edge length + the parent's value elsewhere" % f.name,
                      "%s no longer computes the distance from the root as 0 at the root and (own edge length + the parent's distance) elsewhere: %s / %s" % (f.qualname, list(d0.env.values()), norm(rec[0]) if rec else None))
        ra = index.function(TREE + ".resolve_node_ages")
        mx = [n for n in walk_no_nested(ra.node) if isinstance(n, ast.Assign) and isinstance(n.value, ast.Call) and call_name(n.value) == "max"]
        sub = [n for n in walk_no_nested(ra.node) if isinstance(n, ast.Assign) and isinstance(n.value, ast.BinOp) and isinstance(n.value.op, ast.Sub)]
        okm = bool(mx) and bool(sub) and norm(sub[0].value.left) == norm(mx[0].targets[0]) and isinstance(sub[0].value.right, ast.Subscript)
        rep.check(okm, "R17.3", ra.qualname, "age = max depth - depth", fn_where(ra, sub[0] if sub else None), "resolve_node_ages: age = (maximum depth) - depth(node)",
                  "resolve_node_ages no longer computes a node's age as the maximum depth minus the node's depth (%s)" % (norm(sub[0].value) if sub else None))

    # ---- R17.4
    with rep.section("R17.4"):
        for name, opts in (("colless_tree_imbalance", ("yule", "pda", "max", True)), ("sackin_index", ("yule", "pda", True))):
            f = index.function(TMS + "." + name)
            chain = [n for n in f.node.body if isinstance(n, ast.If) and "normalize" in names_in(n.test)]
            if len(chain) != 1:
                raise AnalysisError("R17.4: %s: normalisation chain not recognised" % name)
            for val, want in [(o, "normalised") for o in opts] + [(None, "raw"), (False, "raw"), ("no-such-option", "raise")]:
                d = Decision(values={"normalize": val})
                try:
                    d.run(chain)
                except Undecidable as e:
                    raise AnalysisError("R17.4: %s: chain not decidable for normalize=%r (%s)" % (name, val, e))
                touched = bool(d.exprs) or bool(d.augs)
                got = "raise" if (d.result and d.result[0] == "raise") else ("normalised" if touched else "raw")
                # sackin assigns s in every branch, including the raw one: raw = float(<count>) of the bare accumulator
                if got == "normalised" and want == "raw" and all(isinstance(v, ast.Call) and call_name(v) == "float" and len(v.args) == 1 and isinstance(v.args[0], ast.Name) for v in d.exprs.values()):
                    got = "raw"
                # the value returned must be defined on this path: assigned in the chain or before it
                retn = [n.value.id for n in walk_no_nested(f.node) if isinstance(n, ast.Return) and isinstance(n.value, ast.Name)]
                if retn and got != "raise":
                    before = any(isinstance(n, (ast.Assign, ast.AugAssign)) and norm(n.targets[0] if isinstance(n, ast.Assign) else n.target) == retn[0] and n.lineno < chain[0].lineno for n in walk_no_nested(f.node))
                    if not before and retn[0] not in d.exprs and retn[0] not in d.env:
                        got = "undefined result"
                rep.check(got == want, "R17.4", f.qualname, "normalize=%r -> %s" % (val, got), fn_where(f, chain[0]), "%s(normalize=%r): %s" % (name, val, want),
                          "%s with normalize=%r is %s, the documented behaviour is %s" % (f.qualname, val, {"raise": "refused with an exception", "raw": "returned without normalisation", "normalised": "normalised", "undefined result": "left without a result (the returned variable is never assigned on that path)"}[got],
                                                                                               {"raise": "a TypeError", "raw": "no normalisation", "normalised": "that normalisation"}[want]))

    # ---- R17.5
    with rep.section("R17.5"):
        npos = 0
        for f in index.functions_in_module(TMS):
            pos = {}
            for n in walk_no_nested(f.node):
                if isinstance(n, ast.Assign) and isinstance(n.targets[0], ast.Name):
                    idx = [x for x in ast.walk(n.value) if isinstance(x, ast.Subscript) and isinstance(x.slice, ast.Constant) and isinstance(x.slice.value, int) and "child" in norm(x.value)]
                    if len(idx) == 1 and idx[0].slice.value in (0, 1):
                        pos.setdefault(idx[0].slice.value, []).append(n.targets[0].id)
            if not (pos.get(0) and pos.get(1)):
                continue
            a, b = pos[0][0], pos[1][0]
            for n in walk_no_nested(f.node):
                e = n.value if isinstance(n, (ast.Assign, ast.AugAssign, ast.Return)) and n.value is not None else None
                if e is None or not ({a, b} & names_in(e)) or (isinstance(n, ast.Assign) and n.targets[0].id in (a, b) if isinstance(n, ast.Assign) and isinstance(n.targets[0], ast.Name) else False):
                    continue
                npos += 1
                t, sw = _sym_canon(e, a, b)
                rep.check(t == sw, "R17.5", f.qualname, "children picked by position enter an asymmetric expression: %s" % norm(e)[:60], fn_where(f, n), "%s: `%s` is symmetric in the two children" % (f.name, norm(e)[:50]),
                          "%s combines the first and the second child asymmetrically in `%s`: the statistic changes when the children of a node are listed in the other order (rotation, ladderizing)" % (f.qualname, norm(e)[:80]))
        rep.floor("R17.5", "expressions over positionally selected children in treemeasure", 2, npos)
        # picking children by position presupposes a fixed number of children: such a function refuses other arities
        npick = 0
        for f in index.functions_in_module(TMS):
            picks = [x for x in walk_no_nested(f.node) if isinstance(x, ast.Subscript) and isinstance(x.slice, (ast.Constant, ast.UnaryOp)) and "child" in norm(x.value) and const_value(x.slice, None) is not None or
                     (isinstance(x, ast.Subscript) and isinstance(x.slice, ast.UnaryOp) and isinstance(x.slice.operand, ast.Constant) and "child" in norm(x.value))]
            if not picks:
                continue
            npick += 1
            guards = [r for r in walk_no_nested(f.node) if isinstance(r, ast.Raise)]
            pmf = parent_map(f.node)
            arity_guard = False
            for r in guards:
                cur = pmf.get(r)
                while cur is not None and cur is not f.node:
                    if isinstance(cur, ast.If) and any(isinstance(c, ast.Call) and call_name(c) == "len" and c.args and "child" in norm(c.args[0]) for c in ast.walk(cur.test)):
                        arity_guard = True
                    cur = pmf.get(cur)
            rep.check(arity_guard, "R17.5", f.qualname, "children picked by position without an arity check: %s" % norm(picks[0])[:40], fn_where(f, picks[0]), "%s refuses nodes with another number of children before picking children by position" % f.name,
                      "%s picks children by position (`%s`) without refusing nodes that have a different number of children: on a polytomy the children in between are ignored, so the statistic depends on which child happens to be listed first or last" % (f.qualname, norm(picks[0])[:50]))
        rep.floor("R17.5", "functions of treemeasure picking children by position", 1, npick)

    # ---- R17.6
    with rep.section("R17.6"):
        f = index.function(TMS + ".treeness")
        loops = [l for l in walk_no_nested(f.node) if isinstance(l, ast.For)]
        leafifs = [i for l in loops for i in ast.walk(l) if isinstance(i, ast.If) and "is_leaf" in norm(i.test)]
        # numerator and denominator range over the same edges: Tree.length() counts the seed node's own edge, the internal-edge sum does not
        tl_calls = [c for c in calls_in(f.node) if call_name(c) == "length" and isinstance(c.func, ast.Attribute) and norm(c.func.value) in f.params]
        rep.check(not tl_calls, "R17.6", f.qualname, "denominator taken from Tree.length()", fn_where(f, tl_calls[0] if tl_calls else None), "treeness sums numerator and denominator over the same edges",
                  "treeness divides by `%s`: Tree.length() includes the length of the seed node's own edge, which the sum over internal edges leaves out, so for a tree whose root carries a length - ((A:1,B:1):2,C:3):7 - the statistic is 2/14 instead of 2/7" % (norm(tl_calls[0])[:40] if tl_calls else ""))
        if not tl_calls:
            if len(leafifs) != 1:
                raise AnalysisError("R17.6: treeness: leaf test not recognised")
            key = norm(leafifs[0].test)
            dl, di = Decision(facts={key: True}), Decision(facts={key: False})
            dl.run([leafifs[0]])
            di.run([leafifs[0]])
            if len(dl.augs) != 1 or len(di.augs) != 1:
                raise AnalysisError("R17.6: treeness: accumulators not recognised")
            ext, inte = dl.augs[0][0], di.augs[0][0]
            rets = [n for n in walk_no_nested(f.node) if isinstance(n, ast.Return) and isinstance(n.value, ast.BinOp) and isinstance(n.value.op, ast.Div)]
            ok = bool(rets) and norm(rets[0].value.left) == inte and isinstance(rets[0].value.right, ast.BinOp) and isinstance(rets[0].value.right.op, ast.Add) \
                and sorted([norm(rets[0].value.right.left), norm(rets[0].value.right.right)]) == sorted([ext, inte]) and ext != inte
            rep.check(ok, "R17.6", f.qualname, "treeness = %s" % (norm(rets[0].value) if rets else None), fn_where(f, rets[0] if rets else None), "treeness returns <non-leaf lengths> / (<leaf lengths> + <non-leaf lengths>)",
                      "treeness returns `%s` where `%s` accumulates the leaf edges and `%s` the internal ones: the statistic is the proportion of tree length on INTERNAL branches" % (norm(rets[0].value) if rets else None, ext, inte))

    # ---- R17.10 an edge is crossed on a half-open interval
    with rep.section("R17.10"):
        rep.rule("R17.10", "an edge is crossed on a half-open interval: where num_lineages_at compares the distance with the root distance of a node's PARENT the comparison is strict (parent < d) while the node's own end is inclusive - with both ends inclusive an edge that starts exactly at the distance is counted together with the edge that ends there, so at every branching point the count is too high by the number of children")
        nl = index.function(TREE + ".num_lineages_at")
        prm = [p for p in nl.params if p != "self"]
        if not prm:
            raise AnalysisError("R17.10: num_lineages_at takes no distance")
        dn = prm[0]
        pairs = []
        for c in (x for x in ast.walk(nl.node) if isinstance(x, ast.Compare)):
            seq = [c.left] + list(c.comparators)
            for i, op in enumerate(c.ops):
                a, b = seq[i], seq[i + 1]
                ta, tb = norm(a), norm(b)
                if dn in (ta, tb) and ("_parent_node" in ta + tb or "parent_node" in ta + tb) and "root_distance" in ta + tb:
                    strict = (isinstance(op, ast.Lt) and tb == dn) or (isinstance(op, ast.Gt) and ta == dn)
                    pairs.append((c, "%s %s %s" % (ta, type(op).__name__, tb), strict))
        if not pairs:
            raise AnalysisError("R17.10: num_lineages_at no longer compares the distance with the parent's root distance; the counting scheme was not recognised")
        for c, txt, strict in pairs:
            rep.check(strict, "R17.10", nl.qualname, "closed interval at the parent's end (%s)" % txt, fn_where(nl, c), "num_lineages_at: the parent's end of the edge is exclusive",
                      "Tree.num_lineages_at tests `%s`: an edge whose parent sits exactly at the distance is counted although the edge ending at that parent is counted as well - the number of lineages at the depth of a branching point comes out as 1 + the number of children instead of the number of edges crossing it" % txt)

    # ---- R17.11 a statistic measures the tree it is given, not an earlier state of it
    with rep.section("R17.11"):
        rep.rule("R17.11", "a statistic measures the tree it is given: a function of treemeasure (or Tree.num_lineages_at, or the coalescent interval helpers) that reads the per-node `age` / `root_distance` has, on every path to the read, called calc_node_ages / calc_node_root_distances itself - the attributes are caches of an earlier call, never invalidated by an edit of the edge lengths, and a computation that runs only `if <seed>.age is None` also skips the ultrametricity check the caller asked for")
        n11 = 0
        targets = [f for f in index.functions_in_module("dendropy.calculate.treemeasure") if f.cls is None] + [index.function(TREE + ".num_lineages_at")] + [f for f in index.functions_in_module("dendropy.model.coalescent") if f.cls is None]
        for fi in targets:
            reads = [x for x in ast.walk(fi.node) if isinstance(x, ast.Attribute) and x.attr in ("age", "root_distance") and isinstance(x.ctx, ast.Load)]
            if not reads:
                continue
            g = cfg_of(fi)
            for x in reads:
                nd = node_of_ast(g, x)
                if nd is None:
                    continue
                n11 += 1
                fn = "calc_node_ages" if x.attr == "age" else "calc_node_root_distances"
                ok = g.dominated_by(nd, lambda n, fn=fn: any(call_name(c) == fn for c in node_calls(n)), follow_exc=False)
                # a read inside the very test that decides whether to compute is the stale-cache idiom itself
                rep.check(ok, "R17.11", fi.qualname, "`%s` read without recomputing it" % norm(x), fn_where(fi, x), "%s: %s read after %s()" % (fi.name, norm(x), fn),
                          "%s reads `%s` on a path on which it has not called %s(): the value is whatever an earlier call left on the node, so after the edge lengths were edited the statistic is that of the OLD tree (pybus_harvey_gamma gave 0.1111 instead of -0.5238), and a tree whose ages were once computed with the check disabled is never tested for ultrametricity again" % (fi.qualname, norm(x), fn))
        rep.floor("R17.11", "reads of cached ages / root distances in the statistics", 5, n11)

    # ---- R17.12 a statistic that names children by position has established how many there are
    with rep.section("R17.12"):
        rep.rule("R17.12", "a statistic that picks children by position has established how many there are: in treemeasure a constant subscript `_child_nodes[k]` / `child_nodes()[k]` is reachable only past a test that pins the number of children (len(...) == N on the true side, or len(...) != N / > N-1 / < N with the offending side raising) - a one-sided `> 2` lets a unifurcation through to `[1]` and the documented TypeError for non-bifurcating trees becomes an IndexError")
        n12 = 0
        for fi in [f for f in index.functions_in_module("dendropy.calculate.treemeasure") if f.cls is None]:
            g = cfg_of(fi)
            for n in g.nodes:
                for e in node_exprs(n) + ([n.ast] if n.kind == "forinit" else []):
                    if e is None:
                        continue
                    for sub in ast.walk(e):
                        if not (isinstance(sub, ast.Subscript) and isinstance(sub.slice, ast.Constant) and isinstance(sub.slice.value, int) and sub.slice.value >= 0):
                            continue
                        b = sub.value
                        if not ((isinstance(b, ast.Attribute) and b.attr == "_child_nodes") or (isinstance(b, ast.Call) and call_name(b) == "child_nodes")):
                            continue
                        n12 += 1
                        k = sub.slice.value
                        base = norm(b)

                        def lens(x):
                            return x in ("len(%s)" % base, "len(%s)" % base.replace("._child_nodes", ".child_nodes()"), "len(%s)" % base.replace(".child_nodes()", "._child_nodes"))

                        def consistent_with(v):
                            def ok(s, l, d):
                                if s.kind == "test" and isinstance(s.ast, ast.Compare) and len(s.ast.ops) == 1 and lens(norm(s.ast.left)) and isinstance(s.ast.comparators[0], ast.Constant) and isinstance(s.ast.comparators[0].value, int):
                                    c_ = s.ast.comparators[0].value
                                    r = {ast.Eq: v == c_, ast.NotEq: v != c_, ast.Gt: v > c_, ast.GtE: v >= c_, ast.Lt: v < c_, ast.LtE: v <= c_}.get(type(s.ast.ops[0]))
                                    if r is not None and l in ("t", "f"):
                                        return r if l == "t" else not r
                                if s.kind == "test" and isinstance(s.ast, ast.Call) and call_name(s.ast) == "is_leaf" and isinstance(s.ast.func, ast.Attribute) and norm(s.ast.func.value) == norm(b.value if isinstance(b, ast.Attribute) else b.func.value) and l in ("t", "f"):
                                    return (v == 0) if l == "t" else (v != 0)
                                return True
                            return ok
                        seen = set()
                        for v in range(0, k + 1):
                            seen |= set(g.reach([g.entry], follow_exc=False, edge_ok=consistent_with(v)))
                        # leaves are excluded by an is_leaf() branch: the remaining risk is 1..k children
                        rep.check(n not in seen or False, "R17.12", fi.qualname, "`%s[%d]` reachable with fewer than %d children" % (base, k, k + 1), fn_where(fi, sub), "%s: %s[%d] only with at least %d children" % (fi.name, base, k, k + 1),
                                  "%s reads `%s[%d]` on a path on which no test has excluded a node with fewer than %d children: a unifurcation (out-degree one) reaches the subscript and the statistic fails with IndexError instead of the documented TypeError for trees that are not strictly bifurcating" % (fi.qualname, base, k, k + 1))
        rep.floor("R17.12", "positional child reads in the statistics", 2, n12)

    # ---- R17.13 no age-like quantity is served from a cache nobody invalidates
    with rep.section("R17.13"):
        rep.rule("R17.13", "no distance is served from a cache nobody invalidates: in the node and tree classes a computed value parked on an object under `if not hasattr(obj, '_a')` is also written or deleted by some other function (Node.distance_from_tip used to keep `_distance_from_tip` on every child for ever)")
        rep.floor("R17.13", "functions of the tree model examined", 0, uninvalidated_memo_rule(index, rep, "R17.13", ["dendropy.datamodel.treemodel._node", "dendropy.datamodel.treemodel._tree", "dendropy.datamodel.treemodel._edge"]))
        rep.ob("R17.13", "src/dendropy/datamodel/treemodel", "hasattr-guarded caches of computed values in Node / Tree / Edge: none without a second writer", True)

    # ---- R17.14 one yardstick for depth on a tree
    with rep.section("R17.14"):
        rep.rule("R17.14", "one yardstick for depth on a tree: the Tree-level depth queries that are meant to be used together - max_distance_from_root, minmax_leaf_distance_from_root and num_lineages_at (the lineage-through-time recipe steps num_lineages_at up to max_distance_from_root) - all measure from the seed node at 0 through calc_node_root_distances(); none of them goes through Node.distance_from_root(), which also counts the length of the edge ABOVE the seed, so that on a tree with a root edge (or a clade cut out of a larger tree) the maximum would lie beyond every tip")
        n14 = 0
        for name in ("max_distance_from_root", "minmax_leaf_distance_from_root", "num_lineages_at"):
            f = index.function(TREE + "." + name)
            n14 += 1
            cs = [call_name(c) for c in calls_in(f.node, nested=True)]
            other = [c for c in calls_in(f.node, nested=True) if call_name(c) == "distance_from_root"]
            g14 = cfg_of(f)
            every_call = g14.must_pass(g14.entry, lambda nd: any(call_name(c) == "calc_node_root_distances" for c in node_calls(nd)), skip_src=False)[0]
            rep.check(every_call, "R17.14", f.qualname, "root distances not recomputed on every call", fn_where(f), "%s recomputes the root distances on every call" % name,
                      "Tree.%s has a path to its result that does not call calc_node_root_distances(): the `root_distance` attributes are what an EARLIER call left on the nodes (nothing invalidates them), so after edge lengths were changed - a tip raised, scale_edges(), lengths reset from ages - the answer is that of the old tree, and a tip added since has no attribute at all (AttributeError)" % name)
            rep.check("calc_node_root_distances" in cs and not other, "R17.14", f.qualname, "depth measured by another yardstick", fn_where(f, other[0] if other else None), "%s measures through calc_node_root_distances()" % name,
                      "Tree.%s %s: Node.distance_from_root() adds the seed node's own edge length while calc_node_root_distances() - which num_lineages_at and the stored root_distance use - puts the seed at 0, so with a root edge of 0.5 the 'maximum distance from the root' is 0.5 beyond the deepest tip and num_lineages_at(max_distance_from_root()) finds no lineage there" % (name, "calls `%s`" % norm(other[0])[:50] if other else "no longer calls calc_node_root_distances()"))
        rep.floor("R17.14", "tree-level depth queries", 3, n14)

    # ---- R17.15 each vector is built from the quantity it is named after
    with rep.section("R17.15"):
        rep.rule("R17.15", "each vector is built from the quantity it is named after: in treemeasure, coalescence_ages is the internal-node view of node_ages (time before the present) and divergence_times the internal-node view of node_depths (distance from the root) - the two helpers have the same signature, so calling the wrong sibling type-checks, passes every test, and returns ages where depths are promised")
        want15 = {"coalescence_ages": "node_ages", "divergence_times": "node_depths"}
        n15 = 0
        for fn_, callee in sorted(want15.items()):
            f = index.function("dendropy.calculate.treemeasure." + fn_)
            n15 += 1
            cs = {call_name(c) for c in calls_in(f.node)} & set(want15.values())
            rep.check(cs == {callee}, "R17.15", f.qualname, "built from the sibling quantity", fn_where(f), "%s is built from %s()" % (fn_, callee),
                      "treemeasure.%s calls %s where %s() is the quantity it is documented to return: on `((A:1,B:1):1,C:2)` the depths of the internal nodes are [0, 1] and their ages [2, 1] - the function returns the one for the other" % (fn_, sorted(cs) or "none of the two helpers", callee))
        rep.floor("R17.15", "internal-node views", 2, n15)
