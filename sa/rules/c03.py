"""C03 Trees stay well-formed arborescences under every history of mutating operations."""
import ast

from .common import *  # noqa

TM = "dendropy.datamodel.treemodel."
TREE = TM + "_tree.Tree"
NODE = TM + "_node.Node"
EDGE = TM + "_edge.Edge"
LINK_FIELDS = ("_parent_node", "_child_nodes", "_edge", "_head_node", "_seed_node")

# who may write the link fields: function -> reason
LINK_WRITERS = {
    NODE + ".__init__": (("_edge", "_child_nodes", "_parent_node"), "constructs an isolated node with its own edge"),
    NODE + ".add_child": (("_parent_node", "_child_nodes"), "book-keeping primitive: sets parent, appends if absent"),
    NODE + ".insert_child": (("_parent_node", "_child_nodes"), "book-keeping primitive: sets parent, (re)inserts at index"),
    NODE + ".remove_child": (("_parent_node", "_child_nodes"), "book-keeping primitive: clears parent, removes from list; optional unifurcation suppression"),
    NODE + ".reversible_remove_child": (("_parent_node", "_child_nodes"), "remove_child variant that records what it did"),
    NODE + ".clear_child_nodes": (("_child_nodes",), "empties the child list (callers detach the children)"),
    NODE + "._set_edge": (("_edge", "_head_node", "_child_nodes"), "edge setter: re-targets the edge's head node"),
    NODE + "._set_parent_node": (("_parent_node", "_child_nodes"), "parent setter: moves the node between child lists"),
    EDGE + ".__init__": (("_head_node",), "constructs an edge for a head node"),
    EDGE + ".invert": (("_child_nodes", "_parent_node"), "swaps head and tail of one edge (used by reseed_at)"),
    TREE + ".__init__": (("_seed_node",), "constructs an empty tree"),
    TREE + "._set_seed_node": (("_seed_node",), "seed setter: detaches the new seed from any parent"),
    TREE + ".reseed_at": (("_parent_node",), "detaches the new seed after the inversion chain"),
    TREE + ".suppress_unifurcations": (("_parent_node",), "splices out out-degree-one nodes"),
    TREE + ".encode_bipartitions": (("_parent_node",), "splices out out-degree-one nodes while encoding"),
    TREE + ".ladderize": (("_child_nodes",), "sorts child lists in place (order only)"),
    TREE + ".reorder": (("_child_nodes",), "sorts child lists in place (order only)"),
    "dendropy.model.birthdeath.birth_death_tree": (("_parent_node",), "GSA slice cut: detaches the descendants of the nodes at the chosen slice, then clears their child lists"),
    "dendropy.model.birthdeath.fast_birth_death_tree": (("_parent_node",), "GSA slice cut (same as birth_death_tree)"),
}
STRUCT_CALLS = {"remove_child", "add_child", "insert_child", "new_child", "insert_new_child", "set_child_nodes", "set_children", "clear_child_nodes",
                "collapse", "invert", "reversible_remove_child", "reinsert_nodes", "collapse_clade", "collapse_neighborhood", "collapse_conflicting",
                "collapse_basal_bifurcation", "polytomize_root", "deroot", "suppress_unifurcations", "delete_outdegree_one_nodes",
                "reseed_at", "reroot_at_node", "reroot_at_edge", "reroot_at_midpoint", "to_outgroup_position", "prune_subtree", "prune_taxa",
                "prune_taxa_with_labels", "prune_nodes", "prune_leaves_without_taxa", "filter_leaf_nodes", "retain_taxa", "retain_taxa_with_labels",
                "resolve_polytomies", "collapse_unweighted_edges", "truncate_from_root", "randomly_reorient", "_convert_node_to_root_polytomy"}
ORDER_ONLY = {"ladderize", "reorder", "randomly_rotate"}
INCREMENTAL_ONLY = {"suppress_unifurcations", "delete_outdegree_one_nodes"}
ENCODERS = {"encode_bipartitions", "update_bipartitions", "encode_splits", "update_splits"}
FLAG = "update_bipartitions"


def alias_text(fi):
    """local name -> text of the attribute expression it was loaded from."""
    out = {}
    for n in walk_no_nested(fi.node):
        if isinstance(n, ast.Assign) and len(n.targets) == 1 and isinstance(n.targets[0], ast.Name) and isinstance(n.value, ast.Attribute):
            out.setdefault(n.targets[0].id, set()).add(norm(n.value))
    return {k: list(v)[0] for k, v in out.items() if len(v) == 1}


def subst(text, mapping):
    for k, v in mapping.items():
        if text == k:
            return v
        if text.startswith(k + "."):
            return v + text[len(k):]
    return text


def _canon(text, fi):
    """local names -> $n so that a rename does not change a finding key"""
    params = set(fi.all_params)
    binds = sorted(((n.lineno, n.col_offset, n.id) for n in ast.walk(fi.node) if isinstance(n, ast.Name) and isinstance(n.ctx, ast.Store) and n.id not in params))
    mp = {}
    for _, _, nm in binds:
        mp.setdefault(nm, "$%d" % (len(mp) + 1))
    import re as _re
    return _re.sub(r"[A-Za-z_][A-Za-z_0-9]*", lambda m_: mp.get(m_.group(0), m_.group(0)), text)


def run(index, rep, tier):
    rep.rule("R03.1", "who may write the link fields (_parent_node, _child_nodes, _edge, _head_node, _seed_node): only the book-keeping functions in the frozen table, one reason each")
    rep.rule("R03.2", "pairing inside each writer: P1 `A._parent_node = B` is accompanied by A being placed in B's child list; P2 placing C into X's child list is accompanied by C._parent_node = X; P3 `A._parent_node = None` is accompanied by A's removal from the old list / A becoming the seed / the old list being cleared")
    rep.rule("R03.3", "a test establishing that the head node has children dominates every call of Edge.collapse (which raises on a terminal edge)")
    rep.rule("R03.4", "update_bipartitions is honoured: with the flag truthy every path re-encodes (or forwards the flag) and no structure-changing call follows the last re-encode, order-only operations excepted")
    rep.rule("R03.5", "a node obtained before a call that may collapse/suppress nodes is not handed to remove_child afterwards without a membership test")
    rep.rule("R03.6", "a node's raw child list is not iterated while the loop body restructures that node")

    # ---------------- R03.1
    with rep.section("R03.1"):
        nw = 0
        seen_writers = set()
        for fi in list(index.functions.values()):
            for w in writes_in(fi.node):
                if w.attr not in LINK_FIELDS:
                    continue
                # other classes with same-named private fields of their own (not tree nodes)
                if fi.cls is not None and isinstance(w.base, ast.Name) and w.base.id == "self" and not (
                        index.is_subclass(fi.cls, NODE) or index.is_subclass(fi.cls, EDGE) or index.is_subclass(fi.cls, TREE)):
                    continue
                nw += 1
                seen_writers.add(fi.qualname)
                ok = fi.qualname in LINK_WRITERS and w.attr in LINK_WRITERS[fi.qualname][0]
                if not ok and w.attr == "_child_nodes" and w.kind == "mutcall":
                    # `L.insert(i, L.pop(j))` on ONE child list is a permutation of it: every parent/child pairing is as before
                    call = w.call if getattr(w, "call", None) is not None else None
                    st = w.stmt
                    perm = [c for c in ast.walk(st) if isinstance(c, ast.Call) and isinstance(c.func, ast.Attribute) and c.func.attr == "insert" and len(c.args) == 2
                            and isinstance(c.args[1], ast.Call) and isinstance(c.args[1].func, ast.Attribute) and c.args[1].func.attr == "pop" and norm(c.args[1].func.value) == norm(c.func.value)]
                    if perm and all(norm(c.func.value).endswith("._child_nodes") for c in perm):
                        ok = True
                if ok and w.attr == "_child_nodes" and fi.qualname in (TREE + ".ladderize", TREE + ".reorder"):
                    ok = w.kind == "mutcall" and w.method in ("sort", "reverse")   # order-only
                rep.check(ok, "R03.1", fi.qualname, "%s of %s.%s" % (w.kind if w.kind != "mutcall" else w.method, w.base_text, w.attr), fn_where(fi, w.stmt),
                          "%s writes %s (%s)" % (fi.qualname, w.attr, LINK_WRITERS[fi.qualname][1] if fi.qualname in LINK_WRITERS else "NOT in the writer table"),
                          "%s writes the link field `%s` directly (`%s`): only the book-keeping functions may, because each of them keeps parent/child/edge links paired; a direct write leaves a node listed under a parent it does not point to (or the reverse)"
                          % (fi.qualname, w.attr, norm_stmt(w.stmt)))
            for c in calls_in(fi.node):
                if isinstance(c.func, ast.Name) and c.func.id == "setattr" and len(c.args) >= 2 and const_value(c.args[1]) in LINK_FIELDS:
                    rep.check(False, "R03.1", fi.qualname, norm(c), fn_where(fi, c), "setattr on a link field", "%s sets a link field through setattr" % fi.qualname)
        rep.floor("R03.1", "writes to link fields", 35, nw)
        for q in LINK_WRITERS:
            index.function(q)

    # ---------------- R03.4 identity selection
    with rep.section("R03.4 identity selection"):
        rep.floor("R03.4", "membership filters over a stored bipartition encoding", 1, identity_selection_rule(index, rep, "R03.4", [TM + "_tree"]))

    # ---------------- R03.2 raise after restructuring
    with rep.section("R03.2 raise after restructuring"):
        rep.floor("R03.2", "explicit raises in tree-model methods that restructure", 8, raise_after_restructure_rule(index, rep, "R03.2", [TM + "_tree", TM + "_node", TM + "_edge"]))

    # ---------------- R03.2 single placement
    with rep.section("R03.2 single placement"):
        rep.floor("R03.2", "placements of a node into a child list by add_child / insert_child", 2, single_placement_rule(index, rep, "R03.2"))

    # ---------------- R03.2 failure atomicity
    with rep.section("R03.2 failure atomicity"):
        rep.floor("R03.2", "explicit raises in the link book-keeping functions", 4, failure_atomicity_rule(index, rep, "R03.2", sorted(LINK_WRITERS)))

    # ---------------- R03.2
    with rep.section("R03.2"):
        npair = 0
        for q in sorted(seen_writers & set(LINK_WRITERS)):
            fi = index.function(q)
            npair += _pairing(rep, fi)
        rep.floor("R03.2", "pairing obligations", 12, npair)

    # ---------------- R03.3
    with rep.section("R03.3"):
        ncol = 0
        for fi in list(index.functions.values()):
            for c in calls_in(fi.node):
                if call_name(c) != "collapse" or not isinstance(c.func, ast.Attribute):
                    continue
                ncol += 1
                _collapse_guard(rep, fi, c)
        rep.floor("R03.3", "Edge.collapse call sites", 6, ncol)
        col = index.function(EDGE + ".collapse")
        has_pre = any(isinstance(n, ast.Raise) for n in walk_no_nested(col.node))
        rep.check(has_pre, "R03.3", col.qualname, "terminal-edge precondition", fn_where(col), "Edge.collapse refuses a terminal edge by raising ValueError (the precondition the callers must establish)",
                  "Edge.collapse no longer raises on a terminal edge; R03.3's premise changed")

    # ---------------- R03.4
    with rep.section("R03.4"):
        nflag = 0
        for cq in (TREE, NODE, EDGE):
            for fi in index.methods_of(cq):
                if FLAG in fi.all_params and not body_is_stub(fi):
                    nflag += 1
                    _honours_flag(index, rep, fi)
        rep.floor("R03.4", "methods with an update_bipartitions parameter", 14, nflag)

    # ---------------- R03.5
    with rep.section("R03.5"):
        nstale = 0
        for fi in index.methods_of(TREE):
            cfg = None
            for c in calls_in(fi.node):
                if call_name(c) not in ("remove_child", "insert_child", "add_child") or not c.args or not isinstance(c.args[-1], ast.Name):
                    continue
                arg = c.args[-1].id
                if arg not in fi.params:
                    continue
                cfg = cfg or cfg_of(fi)
                cn = node_of_ast(cfg, c)
                # is there a call that may delete nodes between entry and this remove_child?
                def may_delete(x):
                    # reseed_at / encode_bipartitions / update_bipartitions remove nodes only through the unifurcation
                    # suppression and the basal collapse: with both switched off by literal False they cannot
                    if call_name(x) in ("reseed_at", "encode_bipartitions", "update_bipartitions"):
                        su, cb = get_kwarg(x, "suppress_unifurcations"), get_kwarg(x, "collapse_unrooted_basal_bifurcation")
                        if su is not None and cb is not None and const_value(su, None) is False and const_value(cb, None) is False:
                            return False
                    return True
                deleters = [n for n in cfg.nodes if any(call_name(x) in ("reseed_at", "suppress_unifurcations", "collapse_basal_bifurcation", "encode_bipartitions", "update_bipartitions")
                                                       and isinstance(x.func, ast.Attribute) and norm(x.func.value) == "self" and may_delete(x) for x in node_calls(n))]
                before = [d for d in deleters if cfg.can_reach(d, lambda n: n is cn) is not None]
                restruct = [n for n in cfg.nodes if any(call_name(x) in ("reseed_at", "suppress_unifurcations", "collapse_basal_bifurcation", "encode_bipartitions", "update_bipartitions")
                                                       and isinstance(x.func, ast.Attribute) and norm(x.func.value) == "self" for x in node_calls(n)) and cfg.can_reach(n, lambda m: m is cn) is not None]
                if restruct:
                    nstale += 1
                if not before:
                    if restruct:
                        rep.ob("R03.5", fn_where(fi, c), "%s: `%s` follows only restructuring calls that cannot remove a node (suppression and basal collapse switched off)" % (fi.name, norm(c)), True)
                    continue

                def membership(n, c=c):
                    if n.kind == "test" and arg in names_in(n.ast) and any(isinstance(x, ast.Compare) and type(x.ops[0]).__name__ in ("In", "NotIn", "Is", "IsNot") for x in ast.walk(n.ast)):
                        return True
                    # an earlier remove_child(arg) on the same parent raises unless arg is still its child
                    return any(call_name(x) == "remove_child" and x is not c and x.args and norm(x.args[-1]) == arg and norm(x.func.value) == norm(c.func.value) for x in node_calls(n))
                ok = all(cfg.can_reach(d, lambda n: n is cn, avoid=membership) is None for d in before)
                rep.check(ok, "R03.5", fi.qualname, "%s after %s" % (norm(c), sorted({call_name(x) for d in before for x in node_calls(d) if call_name(x)})), fn_where(fi, c),
                          "%s: `%s` re-checks that %s still hangs where it was" % (fi.name, norm(c), arg),
                          "%s calls a node-deleting operation and afterwards `%s` on the node it was given, without checking that the node is still a child: when the operation collapsed/suppressed that very node the call raises 'not listed as a child'"
                          % (fi.qualname, norm(c)))
        rep.floor("R03.5", "child-list operations on a parameter node after a node-deleting call", 0, nstale)

    # ---------------- R03.6
    with rep.section("R03.6"):
        nloops = 0
        for modname in ("dendropy.datamodel.treemodel._tree", "dendropy.datamodel.treemodel._node", "dendropy.datamodel.treemodel._edge"):
            for fi in index.functions_in_module(modname):
                al = alias_text(fi)
                for loop in walk_no_nested(fi.node):
                    if not isinstance(loop, ast.For):
                        continue
                    it = subst(norm(loop.iter), al) if isinstance(loop.iter, (ast.Name, ast.Attribute)) else None
                    if it is None or not it.endswith("._child_nodes"):
                        continue
                    owner = it[: -len("._child_nodes")]
                    nloops += 1
                    bad = None
                    for s in loop.body:
                        for c in calls_in(s):
                            if isinstance(c.func, ast.Attribute) and call_name(c) in ("remove_child", "insert_child", "clear_child_nodes", "set_child_nodes", "reversible_remove_child") \
                                    and subst(norm(c.func.value), al) == owner:
                                bad = c
                            if isinstance(c.func, ast.Attribute) and call_name(c) in ("remove", "insert", "pop", "clear", "append") and subst(norm(c.func.value), al) == it:
                                bad = c
                            if isinstance(c.func, ast.Attribute) and call_name(c) == "collapse" and norm(loop.target) in norm(c.func.value):
                                # collapsing a child's edge re-inserts grandchildren into the list being iterated
                                bad = c
                    rep.check(bad is None, "R03.6", fi.qualname, "loop over %s mutating it: %s" % (it, norm(bad) if bad is not None else ""), fn_where(fi, loop),
                              "%s iterates %s without restructuring %s in the body" % (fi.qualname, it, owner),
                              "%s iterates the raw child list `%s` while the loop body calls `%s` on the same node: children are skipped or visited twice" % (fi.qualname, it, norm(bad) if bad is not None else ""))
        rep.floor("R03.6", "loops over raw child lists", 8, nloops)


    # -------------------------------------------------------------------------

    # ---- R03.7 an update leaves what a fresh encoding would
    with rep.section("R03.7"):
        rep.rule("R03.7", "an operation asked to update bipartitions leaves what a fresh encoding would produce: every encode renews every edge's bipartition and compiles all of them against the tree's current leaf set (C01 R01.10, R01.3)")
        rep.floor("R03.7", "borrowed obligations", 4, borrow(index, rep, "C01", {"R01.10", "R01.3"}, "R03.7"))

    # ---- R03.8 a parent is dereferenced only where it is known to exist
    with rep.section("R03.8"):
        rep.rule("R03.8", "a parent is dereferenced only where it is known to exist: in the restructuring methods of Tree / Node every `<x>.tail_node.<member>` / `<x>._parent_node.<member>` / `<x>.parent_node.<member>` is dominated by a test on that very expression (the seed node has no parent: an unguarded dereference turns 'remove the last leaf' into an AttributeError instead of the documented SeedNodeDeletionException)")
        PAR = ("_parent_node", "parent_node", "tail_node")
        nder = 0
        for m in (TM + "_tree", TM + "_node"):
            for f in index.functions_in_module(m):
                g = None
                for x in walk_no_nested(f.node):
                    if not (isinstance(x, ast.Attribute) and isinstance(x.value, ast.Attribute) and x.value.attr in PAR and isinstance(x.ctx, ast.Load)):
                        continue
                    g = g or cfg_of(f)
                    base = norm(x.value)
                    nds = [n_ for n_ in g.nodes if any(x is y for e in node_exprs(n_) for y in ast.walk(e))]
                    if not nds:
                        continue
                    nder += 1
                    ok = g.dominated_by(nds[0], lambda n_: n_.kind == "test" and base in norm(n_.ast), follow_exc=False)
                    rep.check(ok, "R03.8", f.qualname, "`%s` dereferenced without a test" % _canon(base, f), fn_where(f, x), "%s: `%s` follows a test on `%s`" % (f.qualname, norm(x)[:40], base),
                              "%s evaluates `%s` without ever testing `%s`: for the seed node (or a detached node) that is None, so removing the last remaining leaf - prune_taxa(all taxa), retain_taxa([]) - dies with AttributeError: 'NoneType' object has no attribute ... instead of completing or raising the documented SeedNodeDeletionException" % (f.qualname, norm(x)[:50], base))
        rep.floor("R03.8", "dereferences of a parent in the tree model", 15, nder)

    # ---- R03.9 a node is the child of one node
    with rep.section("R03.9"):
        rep.rule("R03.9", "a node is the child of one node: Node.add_child / insert_child, which store `node._parent_node = self` directly, take the node out of its previous parent's child list first (the parent_node property setter does) - otherwise re-parenting without an explicit remove_child leaves the node under two parents")
        npl = 0
        for q in (NODE + ".add_child", NODE + ".insert_child"):
            f = index.function(q)
            g = cfg_of(f)
            p_ = [x for x in f.params if x not in ("self", "index")]
            if not p_:
                raise AnalysisError("R03.9: %s: node parameter not recognised" % q)
            nodep = p_[-1]
            stores = [nd for nd in g.nodes if nd.kind == "stmt" and isinstance(nd.ast, ast.Assign) and norm(nd.ast.targets[0]) == nodep + "._parent_node" and norm(nd.ast.value) == "self"]
            prop_store = [nd for nd in g.nodes if nd.kind == "stmt" and isinstance(nd.ast, ast.Assign) and norm(nd.ast.targets[0]) == nodep + ".parent_node"]
            if not stores and not prop_store:
                raise AnalysisError("R03.9: %s: parent link store not recognised" % q)
            for st in stores:
                npl += 1

                def detaches(nd):
                    for c in node_calls(nd):
                        if call_name(c) == "remove" and "_child_nodes" in norm(c.func.value) and "_parent_node" in norm(c.func.value) and c.args and norm(c.args[0]) == nodep:
                            return True
                        if call_name(c) == "remove_child" and "_parent_node" in norm(c.func.value) or (call_name(c) == "remove_child" and "parent_node" in norm(c.func.value)):
                            return True
                        grade, cands = index.resolve_call(c, f)
                        for k in cands:
                            if hasattr(k, "node") and isinstance(k.node, ast.FunctionDef) and any(call_name(cc) == "remove" and "_child_nodes" in norm(cc.func.value) for cc in calls_in(k.node)) and norm(c.func.value) == nodep:
                                return True
                    return False
                ok = g.dominated_by(st, detaches, follow_exc=False)
                rep.check(ok, "R03.9", f.qualname, "parent link stored without detaching from the previous parent", fn_where(f, st.stmt), "%s detaches the node from its previous parent" % f.name,
                          "%s stores `%s._parent_node = self` without removing the node from the child list of the parent it had: re-parenting a node that is still attached elsewhere (y.add_child(A) with A under x) leaves A among the children of BOTH nodes - every traversal then visits A twice and the tree is no longer an arborescence" % (f.qualname, nodep))
        rep.floor("R03.9", "direct parent-link stores in add_child / insert_child", 2, npl)

    # ---- R03.10 replacing the children by a view of themselves
    with rep.section("R03.10"):
        rep.rule("R03.10", "set_child_nodes reads its argument before it empties the node: the child list is cleared in place, so an argument that is a lazy view of the node's own children (child_node_iter(), reversed(...), a generator) must be materialised first - otherwise reordering a node's children through it silently drops them all")
        f = index.function(NODE + ".set_child_nodes")
        g = cfg_of(f)
        p_ = [x for x in f.params if x != "self"][0]
        clears = [nd for nd in g.nodes if any(call_name(c) in ("clear_child_nodes", "clear") for c in node_calls(nd)) or (nd.kind == "stmt" and isinstance(nd.ast, ast.Assign) and norm(nd.ast.targets[0]) == "self._child_nodes")]
        in_place = [nd for nd in clears if any(call_name(c) in ("clear_child_nodes", "clear") for c in node_calls(nd))]
        if not clears:
            raise AnalysisError("R03.10: set_child_nodes no longer empties the node first")
        for cl in in_place:
            mat = lambda nd: nd.kind == "stmt" and isinstance(nd.ast, ast.Assign) and isinstance(nd.ast.value, ast.Call) and isinstance(nd.ast.value.func, ast.Name) and nd.ast.value.func.id in ("list", "tuple") and nd.ast.value.args and norm(nd.ast.value.args[0]) == p_
            ok = g.dominated_by(cl, mat, follow_exc=False)
            rep.check(ok, "R03.10", f.qualname, "children cleared in place before the argument is read", fn_where(f, cl.stmt), "set_child_nodes materialises `%s` before clearing" % p_,
                      "Node.set_child_nodes empties self._child_nodes in place and only then iterates `%s`: when the caller passes a lazy view of this node's own children (nd.set_child_nodes(nd.child_node_iter()), reversed(nd._child_nodes)) the view is empty by then and the node loses all its children - leaves and their taxa vanish from the tree" % p_)
        rep.floor("R03.10", "in-place clears in set_child_nodes", 1, len(in_place))

    # ---- R03.11 rules owned by other properties that this one rests on
    with rep.section("R03.11"):
        rep.rule("R03.11", "an update requested by a re-rooting is done under the new rooting state (C07 R07.1: the flag is set before the re-encode); the pruning loops either remove what they selected or raise, so they terminate (C08 R08.3); label-based pruning finds the taxa that carry the labels, also after relabelling (C10 R10.9)")
        nb = borrow(index, rep, "C07", {"R07.1"}, "R03.11") + borrow(index, rep, "C08", {"R08.3"}, "R03.11") + borrow(index, rep, "C10", {"R10.9"}, "R03.11")
        rep.floor("R03.11", "borrowed obligations", 8, nb)

    # ---- R03.12 taxa are dealt out of a snapshot
    with rep.section("R03.12"):
        rep.rule("R03.12", "taxa are dealt out of a snapshot: where a loop of the tree model gives nodes new taxa (`x.taxon = ...`), the value is never read off ANOTHER node visited by the same loop (`y.taxon`, x and y both targets of that loop) - that node may already have been given its new taxon, so one taxon is handed out twice and another is lost (the leaf taxa are no longer a permutation); Tree.shuffle_taxa collects the taxa into a list first and deals from that")
        n12 = 0
        for f in index.functions_in_module("dendropy.datamodel.treemodel._tree"):
            for loop in [l for l in ast.walk(f.node) if isinstance(l, ast.For)]:
                tnames = {x.id for x in ast.walk(loop.target) if isinstance(x, ast.Name)}
                for st in ast.walk(loop):
                    if isinstance(st, ast.Assign) and any(isinstance(t, ast.Attribute) and t.attr == "taxon" and isinstance(t.value, ast.Name) and t.value.id in tnames for t in st.targets):
                        n12 += 1
                        tgt = [t for t in st.targets if isinstance(t, ast.Attribute) and t.attr == "taxon"][0]
                        others = [x for y in loop.body for x in ast.walk(y) if isinstance(x, ast.Attribute) and x.attr == "taxon" and isinstance(x.ctx, ast.Load) and isinstance(x.value, ast.Name) and x.value.id in tnames and x.value.id != tgt.value.id]
                        rep.check(not others, "R03.12", f.qualname, "taxon read off another node of the same loop", fn_where(f, st), "%s: `%s` deals from a snapshot" % (f.name, norm_stmt(st)[:50]),
                                  "%s assigns `%s` in a loop that also reads `%s`: both nodes are visited by this loop, so the donor may already carry its NEW taxon - after the loop one taxon sits on several leaves and another on none (shuffle_taxa on `(a,b,c,d)` gave `c,c,c,d`), and the returned old-to-new map is not a bijection" % (f.qualname, norm_stmt(st)[:50], norm(others[0]) if others else ""))
        if "shuffle_taxa" not in index.klass("dendropy.datamodel.treemodel._tree.Tree").methods:
            raise AnalysisError("R03.12: Tree.shuffle_taxa is gone")
        rep.floor("R03.12", "loops that re-assign taxa", 1, n12)


def _pairing(rep, fi):
    cfg = cfg_of(fi)
    al = alias_text(fi)
    n_ob = 0

    def txt(e):
        return subst(norm(e), al)

    def node_places(n, A, X):
        """does CFG node n place A into X's child list (or probe membership)?"""
        for e in node_exprs(n):
            for c in walk_no_nested(e):
                if isinstance(c, ast.Call) and isinstance(c.func, ast.Attribute):
                    recv = txt(c.func.value)
                    m = c.func.attr
                    args = [txt(a) for a in c.args] + [txt(k.value) for k in c.keywords]
                    if recv == X + "._child_nodes" and m in ("append", "insert", "index", "__contains__") and A in args:
                        return True
                    if recv == X and m in ("add_child", "insert_child") and A in args:
                        return True
                if isinstance(c, ast.Compare) and type(c.ops[0]).__name__ in ("In", "NotIn") and txt(c.left) == A and txt(c.comparators[0]) == X + "._child_nodes":
                    return True
                if isinstance(c, ast.Subscript) and isinstance(c.ctx, ast.Store) and txt(c.value) == X + "._child_nodes":
                    return True
        if n.kind == "stmt" and isinstance(n.ast, ast.Assign):
            t = n.ast.targets[0]
            if isinstance(t, ast.Attribute) and t.attr == "parent_node" and txt(t.value) == A and txt(n.ast.value) == X:
                return True
        return False

    def node_sets_parent(n, C, X):
        if n.kind == "stmt" and isinstance(n.ast, ast.Assign):
            for t in n.ast.targets:
                if isinstance(t, ast.Attribute) and t.attr in ("_parent_node", "parent_node") and txt(t.value) == C and txt(n.ast.value) == X:
                    return True
        for c in node_calls(n):
            if isinstance(c.func, ast.Attribute) and c.func.attr in ("add_child", "insert_child") and txt(c.func.value) == X and C in [txt(a) for a in c.args] + [txt(k.value) for k in c.keywords]:
                return True
        return False

    def node_detaches(n, A):
        for c in node_calls(n):
            if isinstance(c.func, ast.Attribute):
                m = c.func.attr
                args = [txt(a) for a in c.args] + [txt(k.value) for k in c.keywords]
                if m in ("remove", "remove_child", "reversible_remove_child") and A in args:
                    return True
                if m in ("clear_child_nodes", "clear"):
                    return True
        if n.kind == "stmt" and isinstance(n.ast, ast.Assign):
            t = n.ast.targets[0]
            if isinstance(t, ast.Attribute) and t.attr in ("seed_node", "_seed_node") and txt(n.ast.value) == A:
                return True
            if isinstance(t, ast.Attribute) and t.attr == "_child_nodes":
                return True
        return False

    def accompanied(node, pred, edge_ok=None):
        eo = cfg.consistent_with(node, edge_ok)
        if cfg.dominated_by(node, pred, follow_exc=False, edge_ok=eo):
            return True
        okp, _ = cfg.must_pass(node, pred, edge_ok=eo)
        return okp

    for n in cfg.live_nodes(follow_exc=False):
        if n.kind != "stmt":
            continue
        a = n.ast
        # P1 / P3
        if isinstance(a, ast.Assign) and len(a.targets) == 1 and isinstance(a.targets[0], ast.Attribute) and a.targets[0].attr == "_parent_node":
            A = txt(a.targets[0].value)
            if is_none(a.value):
                n_ob += 1
                ok = accompanied(n, lambda m: node_detaches(m, A))
                rep.check(ok, "R03.2", fi.qualname, "P3 " + norm_stmt(a), fn_where(fi, a), "P3 %s: `%s` is paired with a removal of %s from the old child list (or %s becomes the seed)" % (fi.name, norm_stmt(a), A, A),
                          "%s sets `%s` without, on every path, removing %s from its old parent's child list (or making it the seed / clearing that list): the old parent still lists a child that no longer points back" % (fi.qualname, norm_stmt(a), A))
            else:
                B = txt(a.value)
                n_ob += 1

                def none_ok(s, l, d, B=B, tgt=norm(a.targets[0])):
                    if s.kind == "test":
                        cp = compare_parts(s.ast)
                        if cp and is_none(cp[2]) and norm(cp[0]) in (B, tgt):
                            if (cp[1] in ("IsNot", "NotEq") and l == "f") or (cp[1] in ("Is", "Eq") and l == "t"):
                                return False
                    return True
                al2 = dict(al)
                al2[norm(a.targets[0])] = B
                eo = cfg.consistent_with(n, none_ok)
                ok = cfg.dominated_by(n, lambda m: node_places(m, A, B), follow_exc=False, edge_ok=eo) or \
                    cfg.must_pass(n, lambda m, al2=al2: _places_subst(m, A, B, al2), edge_ok=eo)[0]
                rep.check(ok, "R03.2", fi.qualname, "P1 " + norm_stmt(a), fn_where(fi, a), "P1 %s: `%s` is paired with placing %s in %s's child list" % (fi.name, norm_stmt(a), A, B),
                          "%s sets `%s` without, on every path, placing %s in %s's child list: a node points to a parent that does not list it" % (fi.qualname, norm_stmt(a), A, B))
        # P2: placing into a child list
        places = []
        for c in node_calls(n):
            if isinstance(c.func, ast.Attribute) and c.func.attr in ("append", "insert") and txt(c.func.value).endswith("._child_nodes") and c.args:
                places.append((txt(c.func.value)[: -len("._child_nodes")], txt(c.args[-1]), c))
        if isinstance(a, ast.Assign) and isinstance(a.targets[0], ast.Subscript) and txt(a.targets[0].value).endswith("._child_nodes"):
            places.append((txt(a.targets[0].value)[: -len("._child_nodes")], txt(a.value), a))
        for X, C, site in places:
            n_ob += 1
            Xs = {X}
            # `self._parent_node._child_nodes.append(self)` after `self._parent_node = parent`
            ok = accompanied(n, lambda m: any(node_sets_parent(m, C, x) for x in Xs)) or \
                (X == C + "._parent_node")
            rep.check(ok, "R03.2", fi.qualname, "P2 " + norm(site)[:100], fn_where(fi, site), "P2 %s: placing %s into %s's child list is paired with %s._parent_node = %s" % (fi.name, C, X, C, X),
                      "%s places %s into %s's child list (`%s`) but on some path never sets %s._parent_node = %s: the child is listed under a parent it does not point to (its parent link is None or stale)" % (fi.qualname, C, X, norm(site)[:80], C, X))
    return n_ob


def _places_subst(m, A, B, al2):
    """node_places with an extended alias map (X.f assigned v  =>  X.f == v)."""
    def txt(e):
        return subst(norm(e), al2)
    for e in node_exprs(m):
        for c in walk_no_nested(e):
            if isinstance(c, ast.Call) and isinstance(c.func, ast.Attribute):
                recv = txt(c.func.value)
                args = [txt(a) for a in c.args] + [txt(k.value) for k in c.keywords]
                if recv == B + "._child_nodes" and c.func.attr in ("append", "insert", "index") and A in args:
                    return True
                if recv == B and c.func.attr in ("add_child", "insert_child") and A in args:
                    return True
            if isinstance(c, ast.Compare) and type(c.ops[0]).__name__ in ("In", "NotIn") and txt(c.left) == A and txt(c.comparators[0]) == B + "._child_nodes":
                return True
    return False


# -------------------------------------------------------------------------
COLLAPSE_EXEMPT = {
    "dendropy.datamodel.treecollectionmodel.SplitDistribution.collapse_edges_with_less_than_minimum_support":
        "collects nodes whose split frequency is below the threshold; under C05's precondition (every tree carries exactly the namespace's taxa) every trivial (leaf) split has frequency 1 >= min_freq, and Edge.collapse returns early for the seed edge",
}


def _guard_edge(test, subjects_node, subjects_edge):
    """edge label on which `test` establishes 'the head node has children', or None."""
    t = test
    if isinstance(t, ast.Call) and isinstance(t.func, ast.Attribute):
        s = norm(t.func.value)
        if t.func.attr == "is_internal" and (s in subjects_node or s in subjects_edge):
            return "t"
        if t.func.attr in ("is_leaf", "is_terminal") and (s in subjects_node or s in subjects_edge):
            return "f"
        if t.func.attr == "child_nodes" and s in subjects_node:
            return "t"
        if call_name(t) == "len":
            pass
    if isinstance(t, ast.Call) and isinstance(t.func, ast.Name) and t.func.id == "len" and t.args:
        return _guard_edge(t.args[0], subjects_node, subjects_edge)
    if isinstance(t, ast.Attribute) and t.attr == "_child_nodes" and norm(t.value) in subjects_node:
        return "t"
    if isinstance(t, ast.Name) and t.id in subjects_node and False:
        return None
    cp = compare_parts(t)
    if cp and isinstance(cp[0], ast.Call) and call_name(cp[0]) == "len" and cp[0].args and isinstance(cp[2], ast.Constant):
        inner = _guard_edge(cp[0].args[0], subjects_node, subjects_edge)
        if inner == "t":
            v = cp[2].value
            if (cp[1] == "GtE" and v >= 1) or (cp[1] == "Gt" and v >= 0) or (cp[1] == "Eq" and v >= 1) or (cp[1] == "NotEq" and v == 0):
                return "t"
            if (cp[1] == "Eq" and v == 0) or (cp[1] == "Lt" and v == 1):
                return "f"
    return None


def _collapse_guard(rep, fi, call):
    cfg = cfg_of(fi)
    recv = call.func.value
    key = "unguarded " + norm(call)
    if fi.qualname in COLLAPSE_EXEMPT:
        rep.ob("R03.3", fn_where(fi, call), "%s: exempt - %s" % (norm(call), COLLAPSE_EXEMPT[fi.qualname]), True, nontrivial=False)
        return
    # subjects
    al = alias_text(fi)
    rtxt = subst(norm(recv), al)
    subj_edge = {norm(recv), rtxt}
    subj_node = set()
    if rtxt.endswith(".edge") or rtxt.endswith("._edge"):
        subj_node.add(rtxt.rsplit(".", 1)[0])
    site = node_of_ast(cfg, call)
    if site is None:
        return  # dead code
    obligations = [(site, subj_node, subj_edge)]
    # loop variable over a locally collected list: shift the obligation to the append sites
    root = None
    for s in list(subj_node) + list(subj_edge):
        root = root or s.split(".")[0]
    pm = parent_map(fi.node)
    loop = pm.get(call)
    while loop is not None and not (isinstance(loop, ast.For) and root in names_in(loop.target)):
        loop = pm.get(loop)
    if loop is not None and isinstance(loop.iter, ast.Name):
        L = loop.iter.id
        apps = [c for c in calls_in(fi.node) if isinstance(c.func, ast.Attribute) and c.func.attr == "append" and norm(c.func.value) == L and c.args]
        if apps:
            obligations = []
            for a in apps:
                v = norm(a.args[0])
                sn, se = set(), set()
                # the collected object plays the role the loop variable plays at the collapse site
                if root in subj_node or any(x.split(".")[0] == root and x in subj_node for x in subj_node):
                    sn.add(v)
                    se.add(v + ".edge")
                else:
                    se.add(v)
                obligations.append((node_of_ast(cfg, a), sn, se))
    # tuple-unpacked subject with several definitions (collapse_basal_bifurcation)
    defs = [n for n in walk_no_nested(fi.node) if isinstance(n, ast.Assign) and isinstance(n.targets[0], ast.Tuple)
            and any(isinstance(e, ast.Name) and e.id in {x.split(".")[0] for x in subj_node} for e in n.targets[0].elts) and isinstance(n.value, ast.Name)]
    if defs and subj_node:
        obligations = []
        for d in defs:
            names = [norm(e) for e in d.targets[0].elts]
            sn = set()
            for s in subj_node:
                r0 = s.split(".")[0]
                if r0 in names:
                    sn.add("%s[%d]" % (d.value.id, names.index(r0)))
            obligations.append((stmt_nodes(cfg, d)[0], sn, set()))
    ok_all = True
    for node, sn, se in obligations:
        if node is None:
            continue

        def edge_ok(s, l, d, sn=sn, se=se):
            if s.kind == "test":
                g = _guard_edge(s.ast, sn, se)
                if g is not None and l == g:
                    return False
            return True
        reach = cfg.reach([cfg.entry], follow_exc=False, edge_ok=edge_ok)
        if node in reach:
            ok_all = False
    rep.check(ok_all, "R03.3", fi.qualname, key, fn_where(fi, call), "%s: `%s` is dominated by a test that the head node has children" % (fi.name, norm(call)),
              "%s can reach `%s` on a path with no test that the edge's head node has children (is_internal / not is_leaf / non-empty child list): on a leaf edge Edge.collapse raises ValueError('collapse_self called with a terminal.') from inside the operation"
              % (fi.qualname, norm(call)))


# -------------------------------------------------------------------------
FLAG_EXEMPT = {}


def _honours_flag(index, rep, fi):
    cfg = cfg_of(fi)
    if FLAG in unused_params(fi):
        rep.check(False, "R03.4", fi.qualname, "parameter update_bipartitions never read", fn_where(fi), "%s reads its update_bipartitions parameter" % fi.name,
                  "%s accepts update_bipartitions but never reads it: the caller's request to refresh the encoding is silently dropped" % fi.qualname)
        return

    def is_flag_test(n):
        return n.kind == "test" and FLAG in names_in(n.ast) and norm(n.ast) in (FLAG, "%s and self.bipartition_encoding" % FLAG)

    def honours(n):
        for c in node_calls(n):
            if call_name(c) in ENCODERS and isinstance(c.func, ast.Attribute):
                return True
            kw = get_kwarg(c, FLAG)
            # forwarding the flag discharges the obligation only when the callee re-encodes the whole tree; suppress_unifurcations
            # merely drops the bipartitions of the nodes IT removes (incremental) and leaves every other leafset as it was
            if kw is not None and norm(kw) == FLAG and call_name(c) not in INCREMENTAL_ONLY:
                return True
        return False
    truthy = lambda s, l, d: not (s.kind == "test" and norm(s.ast) == FLAG and l == "f")

    def structural(n):
        for c in node_calls(n):
            nm = call_name(c)
            if nm in STRUCT_CALLS and nm not in ORDER_ONLY and isinstance(c.func, ast.Attribute):
                kw = get_kwarg(c, FLAG)
                if kw is not None and norm(kw) == FLAG:
                    continue
                return True
        if n.kind == "stmt" and isinstance(n.ast, (ast.Assign, ast.AugAssign)):
            tg = n.ast.targets if isinstance(n.ast, ast.Assign) else [n.ast.target]
            for t in tg:
                if isinstance(t, ast.Attribute) and t.attr in LINK_FIELDS + ("seed_node", "parent_node"):
                    return True
                if isinstance(t, ast.Subscript) and isinstance(t.value, ast.Attribute) and t.value.attr == "_child_nodes":
                    return True
        return False
    live = cfg.reach([cfg.entry], follow_exc=False, edge_ok=truthy)
    snodes = [n for n in live if structural(n) and not honours(n)]
    # order-only pair: X.remove_child(Y) together with X.insert_child(k, Y) re-positions one child
    pairs = set()
    for n in snodes:
        for c in node_calls(n):
            if call_name(c) in ("remove_child", "insert_child") and c.args:
                X, Y = norm(c.func.value), norm(c.args[-1])
                other = "insert_child" if call_name(c) == "remove_child" else "remove_child"
                for n2 in snodes:
                    for c2 in node_calls(n2):
                        if call_name(c2) == other and norm(c2.func.value) == X and c2.args and norm(c2.args[-1]) == Y and n2 is not n:
                            if cfg.can_reach(n, lambda m: m is n2) is not None or cfg.can_reach(n2, lambda m: m is n) is not None:
                                pairs.add(n.id)
    bad = []
    for n in snodes:
        if n.id in pairs:
            continue
        w = cfg.can_reach(n, lambda m: m is cfg.exit, avoid=honours, follow_exc=False, edge_ok=truthy)
        if w is not None:
            bad.append(n)
    ok = not bad
    if fi.name == "suppress_unifurcations":
        # incremental maintenance: filters the stored encoding by the deleted edges instead of re-encoding;
        # every splice (with the set present) must record the spliced-out edge's bipartition for deletion
        ok = any(isinstance(n, ast.Assign) and norm(n.targets[0]) == "self.bipartition_encoding" for n in walk_no_nested(fi.node))
        recs = [n for n in cfg.nodes if any(call_name(c) in ("add", "append") and "to_delete" in norm(c.func.value) for c in node_calls(n))]
        rid = {n.id for n in recs}
        present = lambda s_, l_, d_: not (s_.kind == "test" and "to_delete" in norm(s_.ast) and ((compare_parts(s_.ast) or (None, "", None))[1] in ("IsNot", "NotEq") and l_ == "f"))
        first = None
        for sn in snodes:
            eo = cfg.consistent_with(sn, present)
            if not (cfg.dominated_by(sn, lambda n: n.id in rid, follow_exc=False, edge_ok=eo) or cfg.must_pass(sn, lambda n: n.id in rid, edge_ok=eo)[0]):
                ok = False
                first = first or sn
        bad = [first] if first is not None else []
    first = bad[0] if bad else None
    rep.check(ok, "R03.4", fi.qualname, "structure changed and not re-encoded although requested: %s" % (norm_stmt(first.stmt)[:70] if first is not None else ""),
              fn_where(fi, first.stmt if first is not None else None),
              "%s: with update_bipartitions truthy every structural change (%d sites) is followed on every path by a re-encode or a call forwarding the flag" % (fi.name, len(snodes)),
              "%s changes the structure (`%s`) and can then return, with update_bipartitions truthy, without re-encoding or forwarding the flag: the caller asked for current bipartitions and gets those of the previous structure"
              % (fi.qualname, norm_stmt(first.stmt)[:70] if first is not None else ""))


def failure_atomicity_rule(index, rep, rid, quals):
    """An operation that raises its documented error must leave the tree as it was: in the book-keeping
    functions no link field has been written on any path that reaches an explicit `raise`."""
    n = 0
    for q in quals:
        fi = index.functions.get(q)
        if fi is None or fi.name == "__init__":     # an object under construction is not yet part of any tree
            continue
        cfg = cfg_of(fi)
        raises = [x for x in cfg.nodes if x.kind == "stmt" and isinstance(x.ast, ast.Raise) and x.ast.exc is not None]
        if not raises:
            continue
        wnodes = {}
        for w in writes_in(fi.node):
            if w.attr in LINK_FIELDS or w.attr in ("tail_node", "head_node"):
                for x in stmt_nodes(cfg, w.stmt):
                    wnodes[x.id] = w
        for r in raises:
            n += 1
            # backwards: is there a link write from which this raise is reachable?
            bad = None
            for x in cfg.nodes:
                if x.id not in wnodes:
                    continue
                # the write has completed: continue from its normal successors only (its own failure has written nothing)
                after = [t for lab, t in x.succ if lab != "e"]
                if any(y is r for y in cfg.reach(after, follow_exc=True)):
                    bad = x
                    break
            rep.check(bad is None, rid, fi.qualname, "link field written before `%s`" % norm_stmt(r.stmt)[:60], fn_where(fi, bad.stmt if bad is not None else r.stmt),
                      "%s: `%s` is reached before any link field is written" % (fi.name, norm_stmt(r.stmt)[:50]),
                      "%s writes `%s` and can then raise `%s`: the caller gets the documented error but the tree is left half-edited (a node still listed under its parent with its parent pointer / edge tail cleared), so a refused operation does not leave the tree well formed"
                      % (fi.qualname, norm_stmt(bad.stmt)[:60] if bad is not None else "", norm_stmt(r.stmt)[:70]))
    return n


def raise_after_restructure_rule(index, rep, rid, modules):
    """An explicit `raise` in a method of the tree model must not come after that method has already changed the
    structure (directly or by calling a structure-changing method): the documented error would be raised on a
    tree that is no longer what it was."""
    n = 0
    for m in modules:
        for fi in index.functions_in_module(m):
            if fi.cls is None or fi.name == "__init__":
                continue
            raises = [x for x in walk_no_nested(fi.node) if isinstance(x, ast.Raise) and x.exc is not None]
            if not raises:
                continue
            has_struct = any(isinstance(c.func, ast.Attribute) and c.func.attr in STRUCT_CALLS for c in calls_in(fi.node))
            if not has_struct:
                continue
            cfg = cfg_of(fi)
            changes = [x for x in cfg.nodes if any(isinstance(c.func, ast.Attribute) and c.func.attr in STRUCT_CALLS for c in node_calls(x))]
            for r in raises:
                rn = stmt_nodes(cfg, r)
                if not rn:
                    continue
                n += 1
                bad = None
                for x in changes:
                    # same pass only: a later iteration of a pruning loop refusing to go on is a different matter
                    after = [t for lab, t in x.succ if lab != "e"]
                    if any(y is rn[0] for y in cfg.reach(after, follow_exc=True, avoid=lambda y: y.kind in ("for", "join"))):
                        # ... and on an object that existed before the call (not a node this function has just created)
                        recv = [c.func.value for c in node_calls(x) if isinstance(c.func, ast.Attribute) and c.func.attr in STRUCT_CALLS]
                        root = recv[0] if recv else None
                        while isinstance(root, (ast.Attribute, ast.Subscript)):
                            root = root.value
                        fresh = isinstance(root, ast.Name) and any(isinstance(a, ast.Assign) and norm(a.targets[0]) == root.id and isinstance(a.value, ast.Call)
                                                                     and (call_name(a.value) or "").lower().endswith(("factory", "node", "tree", "new_node")) for a in walk_no_nested(fi.node))
                        if not fresh:
                            bad = x
                            break
                rep.check(bad is None, rid, fi.qualname, "`%s` can follow the structural change `%s`" % (norm_stmt(r)[:50], norm_stmt(bad.stmt)[:40] if bad is not None else ""), fn_where(fi, r),
                          "%s: `%s` is raised before any structural change" % (fi.name, norm_stmt(r)[:50]),
                          "%s can raise `%s` after it has already executed `%s`: the caller gets the documented error, but the tree has been changed (a node detached, a taxon lost, a unifurcation left behind) - an operation that refuses must leave the tree well formed and as it was" % (fi.qualname, norm_stmt(r)[:70], norm_stmt(bad.stmt)[:60] if bad is not None else ""))
    return n


def single_placement_rule(index, rep, rid):
    """A node is listed once among its parent's children: add_child / insert_child place `node` into the child list only
    after looking it up there (membership test or .index()), on every path."""
    n = 0
    for q in (NODE + ".add_child", NODE + ".insert_child"):
        f = index.function(q)
        nodep = [p_ for p_ in f.params if p_ not in ("self", "index")][-1]
        cfg = cfg_of(f)
        def looks_up(x, nodep=nodep):
            if x.kind == "test" and isinstance(x.ast, ast.Compare) and isinstance(x.ast.ops[0], (ast.In, ast.NotIn)) and norm(x.ast.left) == nodep and norm(x.ast.comparators[0]).endswith("_child_nodes"):
                return True
            return any(isinstance(c.func, ast.Attribute) and c.func.attr == "index" and norm(c.func.value).endswith("_child_nodes") and c.args and norm(c.args[0]) == nodep for c in node_calls(x))
        places = [x for x in cfg.nodes if any(isinstance(c.func, ast.Attribute) and c.func.attr in ("append", "insert") and norm(c.func.value).endswith("_child_nodes")
                                               and c.args and norm(c.args[-1]) == nodep for c in node_calls(x))]
        if not places:
            raise AnalysisError("%s: %s places its node nowhere recognisable" % (rid, q))
        for pl in places:
            n += 1
            ok = cfg.dominated_by(pl, looks_up, follow_exc=True)
            rep.check(ok, rid, f.qualname, "node placed in the child list without looking it up first: %s" % norm_stmt(pl.stmt)[:50], fn_where(f, pl.stmt), "%s: `%s` comes after the look-up of `%s` in the child list" % (f.name, norm_stmt(pl.stmt)[:40], nodep),
                      "%s can execute `%s` without first checking whether `%s` is already among the children: moving an existing child (e.g. to the end) then lists it twice - a node with two entries in one child list, visited twice by every traversal" % (f.qualname, norm_stmt(pl.stmt)[:60], nodep))
    return n


def identity_selection_rule(index, rep, rid, modules):
    """Bipartition hashes and compares by split bitmask, and a unifurcation's edge carries the same split as
    its child's: picking particular objects out of a stored encoding must go by id(), never by value."""
    n = 0
    for m in modules:
        for fi in index.functions_in_module(m):
            enc = {"self.bipartition_encoding"}
            for a in walk_no_nested(fi.node):
                if isinstance(a, ast.Assign) and isinstance(a.targets[0], ast.Name) and norm(a.value).endswith(".bipartition_encoding"):
                    enc.add(a.targets[0].id)
            for c in ast.walk(fi.node):
                gens = c.generators if isinstance(c, (ast.ListComp, ast.SetComp, ast.GeneratorExp)) else []
                for g in gens:
                    if not (norm(g.iter) in enc or norm(g.iter).endswith(".bipartition_encoding")) or not isinstance(g.target, ast.Name):
                        continue
                    for cond in g.ifs:
                        for t in ast.walk(cond):
                            if isinstance(t, ast.Compare) and len(t.ops) == 1 and isinstance(t.ops[0], (ast.In, ast.NotIn)):
                                n += 1
                                by_id = isinstance(t.left, ast.Call) and call_name(t.left) == "id" and t.left.args and norm(t.left.args[0]) == g.target.id
                                by_value = isinstance(t.left, ast.Name) and t.left.id == g.target.id
                                rep.check(by_id or not by_value, rid, fi.qualname, "bipartitions selected out of the encoding by value: %s" % norm(t)[:60], fn_where(fi, t),
                                          "%s: members of the stored encoding are selected by id()" % fi.name,
                                          "%s filters the stored bipartition encoding with `%s`: Bipartition objects hash and compare by their split bitmask, and a spliced-out unifurcation's edge has the same split as the surviving child's edge, so selecting by value also drops (or keeps) the survivor's bipartition - the encoding list no longer equals a fresh encoding" % (fi.qualname, norm(t)[:80]))
    return n


def _in_loop(fn_node, stmt):
    for l in ast.walk(fn_node):
        if isinstance(l, (ast.While, ast.For)):
            for s in l.body:
                if any(x is stmt for x in ast.walk(s)):
                    return True
    return False
