"""C20 Readers terminate on every input and report bad data as a parse error."""
import ast

from .common import *  # noqa
from .common import _exc_ancestors

DIO = "dendropy.dataio."
READER_MODULES = [DIO + m for m in ("tokenizer", "nexusprocessing", "newickreader", "newickyielder", "nexusreader", "nexusyielder", "phylipreader", "fastareader")]
OPTIONAL_SOURCES = {"next_token", "next_token_ucase", "cast_current_token_to_ucase"}
RAISING_SOURCES = {"require_next_token", "require_next_token_ucase"}
ADV_PRIMS = {"next_token", "next_token_ucase", "require_next_token", "require_next_token_ucase", "skip_to_semicolon",
             "__next__", "_get_next_char", "_skip_to_significant_char", "_handle_comment", "read", "readline", "next"}
ENTRY_POINTS = ["_read", "tree_iter", "_yield_items_from_stream", "_parse_nexus_stream"]
DPE = "dendropy.utility.error.DataParseError"
INTERNAL_CONTROL = {"StopIteration", "BlockTerminatedException"}
RAISE_EXEMPT = {
    "dendropy.dataio.nexusprocessing.NexusTaxonSymbolMapper.__init__": "conflict between a reader option and the namespace's case sensitivity: a configuration error, independent of the input text",
    "dendropy.dataio.newickreader.NewickReader._parse_tree_rooting_state": "unrecognised `rooting` directive: a configuration error raised as TypeError by design",
    "dendropy.dataio.phylipreader.PhylipReader._read": "TypeError when no data_type was configured: bad keyword arguments, independent of the input text",
    "dendropy.dataio.fastareader.FastaReader._read": "TypeError when no data_type was configured: bad keyword arguments, independent of the input text",
}


# ---------------------------------------------------------------- summaries
class Summaries(object):
    def __init__(self, index):
        self.index = index
        self.fns = []
        for m in READER_MODULES:
            self.fns.extend(index.functions_in_module(m))
        self.byq = {f.qualname: f for f in self.fns}
        self.must_advance = {}
        self.may_advance = {}
        self.raises_at_eof = {}
        self.may_none = {}
        self._compute()
        self._compute_may_advance()
        self.propagate_may_none()

    RECEIVER_HINTS = {"newick_reader": "NewickReader", "_newick_reader": "NewickReader",
                      "_nexus_tokenizer": "NexusTokenizer", "nexus_tokenizer": "NexusTokenizer"}

    def callees(self, fi, call):
        grade, cands = self.index.resolve_call(call, fi)
        if grade in ("self", "static"):
            out = []
            for c in cands:
                if hasattr(c, "node") and isinstance(c.node, ast.FunctionDef):
                    out.append(c)
            return out
        if grade == "name" and isinstance(call.func, ast.Attribute):
            recv = call.func.value
            last = recv.attr if isinstance(recv, ast.Attribute) else (recv.id if isinstance(recv, ast.Name) else None)
            hint = self.RECEIVER_HINTS.get(last)
            cands = [c for c in cands if c.module.name in READER_MODULES]
            if hint:
                sel = [c for c in cands if c.cls is not None and any(k.name == hint for k in self.index.mro(c.cls))]
                if not sel:
                    # method inherited from a base of the hinted class
                    sel = [c for c in cands if c.cls is not None and any(c.cls.qualname == b.qualname for k in self.index.classes.values() if k.name == hint for b in self.index.mro(k))]
                return sel
            if len(cands) == 1 and len(self.index.methods_by_name.get(call_name(call), [])) == 1:
                return cands   # the only method of that name in the whole repository
        return []

    def node_advances(self, fi, n):
        for c in node_calls(n):
            nm = call_name(c)
            if nm in ADV_PRIMS and isinstance(c.func, ast.Attribute):
                return True
            if nm == "next" and isinstance(c.func, ast.Name):
                return True
            for cal in self.callees(fi, c):
                if self.must_advance.get(cal.qualname):
                    return True
        return False

    def propagate_may_none(self):
        """a function that returns, unguarded, a value obtained from an optional source is itself optional."""
        changed = True
        rounds = 0
        while changed and rounds < 6:
            changed = False
            rounds += 1
            for f in self.fns:
                if self.may_none[f.qualname]:
                    continue
                if any(isinstance(n, (ast.Yield, ast.YieldFrom)) for n in walk_no_nested(f.node)):
                    continue
                if not any(isinstance(r, ast.Return) and r.value is not None for r in walk_no_nested(f.node)):
                    continue
                rets = []
                nullness_rule(None, self, f, quiet=True, returns_out=rets)
                if any(v in (MAYBE, ISNONE, ("fresh",)) for v in rets):
                    self.may_none[f.qualname] = True
                    changed = True

    def _compute_may_advance(self):
        for f in self.fns:
            self.may_advance[f.qualname] = any(call_name(c) in ADV_PRIMS and isinstance(c.func, ast.Attribute) for c in calls_in(f.node))
        changed = True
        while changed:
            changed = False
            for f in self.fns:
                if self.may_advance[f.qualname]:
                    continue
                for c in calls_in(f.node):
                    if any(self.may_advance.get(cal.qualname) for cal in self.callees(f, c)):
                        self.may_advance[f.qualname] = True
                        changed = True
                        break

    def node_may_advance(self, fi, n):
        if self.node_advances(fi, n):
            return True
        for c in node_calls(n):
            for cal in self.callees(fi, c):
                if self.may_advance.get(cal.qualname):
                    return True
        return False

    def node_raises_at_eof(self, fi, n):
        for c in node_calls(n):
            nm = call_name(c)
            if nm in RAISING_SOURCES and isinstance(c.func, ast.Attribute):
                return True
            for cal in self.callees(fi, c):
                if self.raises_at_eof.get(cal.qualname):
                    return True
        return False

    def _compute(self):
        # may-return-None: an explicit `return None` / bare return, and also a value return
        for f in self.fns:
            rets = [n for n in walk_no_nested(f.node) if isinstance(n, ast.Return)]
            has_none = any(r.value is None or is_none(r.value) for r in rets)
            has_val = any(r.value is not None and not is_none(r.value) for r in rets)
            is_gen = any(isinstance(n, (ast.Yield, ast.YieldFrom)) for n in walk_no_nested(f.node))
            self.may_none[f.qualname] = bool(has_none and has_val and not is_gen)
        # propagation is flow-sensitive and done after construction (see propagate_may_none)
        # must-advance / raises-at-eof: fixpoint from False
        for f in self.fns:
            self.must_advance[f.qualname] = False
            self.raises_at_eof[f.qualname] = False
        for table, pred in ((self.must_advance, self.node_advances), (self.raises_at_eof, self.node_raises_at_eof)):
            changed = True
            while changed:
                changed = False
                for f in self.fns:
                    if table[f.qualname]:
                        continue
                    if any(isinstance(n, (ast.Yield, ast.YieldFrom)) for n in walk_no_nested(f.node)):
                        continue
                    cfg = cfg_of(f)
                    ok, _ = cfg.must_pass(cfg.entry, lambda n, f=f: pred(f, n))
                    if ok and cfg.can_reach(cfg.entry, lambda n: n is cfg.exit) is not None or (ok and pred is self.node_raises_at_eof):
                        table[f.qualname] = True
                        changed = True


def is_optional_call(sm, fi, call):
    nm = call_name(call)
    if nm in OPTIONAL_SOURCES and isinstance(call.func, ast.Attribute):
        return True
    for cal in sm.callees(fi, call):
        if sm.may_none.get(cal.qualname):
            return True
    return False


# ---------------------------------------------------------------- loops
def loop_nodes(cfg, loop):
    inside = set()
    for s in loop.body:
        for x in ast.walk(s):
            inside.add(id(x))
    inside.add(id(loop))
    inside.add(id(loop.test) if isinstance(loop, ast.While) else id(loop.iter))
    for x in ast.walk(loop.test if isinstance(loop, ast.While) else loop.iter):
        inside.add(id(x))
    return {n.id for n in cfg.nodes if n.stmt is not None and (id(n.stmt) in inside or (n.ast is not None and id(n.ast) in inside))}


def cond_vars(loop):
    """names and attribute texts the loop condition reads; whether it consults tokenizer state."""
    names, attrs, tok_state = set(), set(), False
    if not isinstance(loop, ast.While):
        return names, attrs, False
    for n in ast.walk(loop.test):
        if isinstance(n, ast.Name):
            names.add(n.id)
        elif isinstance(n, ast.Attribute):
            attrs.add(norm(n))
            if n.attr in ("is_eof", "_cur_char", "current_token"):
                tok_state = True
    return names, attrs, tok_state


def token_loops(index, sm):
    for f in sm.fns:
        for l in walk_no_nested(f.node):
            if isinstance(l, ast.While):
                yield f, l
            elif isinstance(l, ast.For) and isinstance(l.iter, ast.Call) and call_name(l.iter) == "count":
                yield f, l


def _is_token_loop(sm, fi, loop):
    """the loop consumes tokens/characters: it assigns from an optional source or reads tokenizer state."""
    names, attrs, tok_state = cond_vars(loop)
    if tok_state:
        return True
    for s_ in loop.body:
        for c in ast.walk(s_):
            if isinstance(c, ast.Call) and (call_name(c) in OPTIONAL_SOURCES or call_name(c) in ADV_PRIMS or is_optional_call(sm, fi, c)):
                return True
    return False


def progress_rule(rep, sm, fi, loop):
    cfg = cfg_of(fi)
    head = cfg.loops.get(loop)
    if head is None:
        return
    inside = loop_nodes(cfg, loop)
    names, attrs, tok_state = cond_vars(loop)
    is_while_true = isinstance(loop, ast.While) and isinstance(loop.test, ast.Constant) or isinstance(loop, ast.For)

    def progress(n):
        if n.id not in inside:
            return True   # left the loop
        if sm.node_may_advance(fi, n):
            return True
        for e in node_exprs(n):
            for x in walk_no_nested(e):
                if isinstance(x, ast.Name) and isinstance(x.ctx, (ast.Store, ast.Del)) and x.id in names:
                    return True
                if isinstance(x, ast.Attribute) and isinstance(x.ctx, (ast.Store, ast.Del)) and norm(x) in attrs:
                    return True
                if isinstance(x, ast.Call) and isinstance(x.func, ast.Attribute):
                    r = x.func.value
                    root = r
                    while isinstance(root, (ast.Attribute, ast.Subscript)):
                        root = root.value
                    if isinstance(root, ast.Name) and root.id in names and x.func.attr in MUTATORS:
                        return True
                    if not is_while_true and not tok_state and isinstance(root, ast.Name) and root.id in names:
                        return True   # a call on an object the condition inspects may change it
                if isinstance(x, ast.Call) and any(isinstance(a, ast.Name) and a.id in names for a in x.args) and not tok_state and not is_while_true:
                    # passing a condition variable to a call may mutate it (lists being filled)
                    if call_name(x) not in ("len", "int", "float", "str", "isinstance", "format", "print"):
                        return True
        if n.kind == "for" and isinstance(n.ast, ast.For):
            for x in ast.walk(n.ast.target):
                if isinstance(x, ast.Name) and x.id in names:
                    return True
        return False
    starts = [t for lab, t in head.succ if lab != "e"]
    if isinstance(loop, ast.For):
        starts = [t for lab, t in head.succ if lab == "iter"]
    reach = cfg.reach(starts, avoid=lambda n: n is not head and progress(n), follow_exc=False)
    spin = any(n is head for n in reach)
    cond_has_call = isinstance(loop, ast.While) and any(isinstance(x, ast.Call) and call_name(x) not in ("len", "is_eof") for x in ast.walk(loop.test))
    if cond_has_call and not tok_state:
        spin = False
    rep.check(not spin, "R20.1", fi.qualname, "non-progress cycle in `%s`" % norm_stmt(loop), fn_where(fi, loop),
              "loop `%s`: every cycle assigns a condition variable or advances the token stream" % norm_stmt(loop)[:70],
              "the loop `%s` in %s has a path from its head back to its head that neither assigns anything its condition reads nor advances the token stream nor leaves the loop: on an input that takes this path the reader hangs"
              % (norm_stmt(loop)[:90], fi.qualname))
    return spin


# ---------------------------------------------------------------- EOF spin
UNK = "?"
NONE = "N"


def _eval_atom(test, st):
    """three-valued truth of a test atom under the end-of-stream assumption."""
    t = test
    if isinstance(t, ast.Call) and isinstance(t.func, ast.Attribute) and t.func.attr == "is_eof":
        return True
    if isinstance(t, ast.Name) or isinstance(t, ast.Attribute):
        v = st.get(norm(t), UNK)
        if v == NONE:
            return False
        if isinstance(v, tuple):
            return bool(v[1])
        return None
    cp = compare_parts(t)
    if cp:
        l, op, r = cp
        lt = norm(l)
        if lt.endswith("._cur_char") and isinstance(r, ast.Constant) and r.value == "":
            return {"Eq": True, "NotEq": False}.get(op)
        lv = st.get(lt, UNK)
        if isinstance(r, ast.Constant):
            rv = r.value
            if lv == NONE:
                lval = None
            elif isinstance(lv, tuple):
                lval = lv[1]
            else:
                return None
            try:
                return {"Eq": lval == rv, "NotEq": lval != rv, "Is": lval is rv, "IsNot": lval is not rv}.get(op)
            except Exception:
                return None
        if isinstance(r, (ast.List, ast.Tuple, ast.Set)) and all(isinstance(e, ast.Constant) for e in r.elts):
            vals = [e.value for e in r.elts]
            if lv == NONE:
                return {"In": None in vals, "NotIn": None not in vals}.get(op)
            if isinstance(lv, tuple):
                return {"In": lv[1] in vals, "NotIn": lv[1] not in vals}.get(op)
    return None


def _freeze(st):
    return tuple(sorted((k, v) for k, v in st.items() if v != UNK))


_EOF_OUTCOMES = {}


def eof_outcomes(sm, fi, depth=0):
    """What a reader function does when called at end of stream:
    subset of {'none', 'value', 'raise'} (abstract interpretation, depth-bounded)."""
    if fi.qualname in _EOF_OUTCOMES:
        return _EOF_OUTCOMES[fi.qualname]
    if depth > 3:
        return {"none", "value", "raise"}
    _EOF_OUTCOMES[fi.qualname] = {"none", "value", "raise"}   # recursion guard
    cfg = cfg_of(fi)
    out = set()
    back, outs = eof_explore(sm, fi, cfg, [cfg.entry], {}, None, None, outcomes=out, depth=depth)
    _EOF_OUTCOMES[fi.qualname] = out or {"raise"}
    return _EOF_OUTCOMES[fi.qualname]


def _eof_call_value(sm, fi, v, depth):
    """value of a call expression at end of stream: NONE when every normal outcome of the callee is None."""
    val = UNK
    if isinstance(v, ast.Call) and call_name(v) in OPTIONAL_SOURCES and isinstance(v.func, ast.Attribute):
        return NONE
    if isinstance(v, ast.Call):
        for cal in sm.callees(fi, v):
            if sm.may_none.get(cal.qualname):
                oc = eof_outcomes(sm, cal, depth + 1)
                val = NONE if "value" not in oc else UNK
    return val


def eof_transfer(sm, fi, n, st, depth=0):
    """new state, or 'END' when the path cannot continue normally at end of stream."""
    if sm.node_raises_at_eof(fi, n):
        return "END"
    assigned_from_call = None
    if n.kind == "stmt" and isinstance(n.ast, ast.Assign) and isinstance(n.ast.value, ast.Call):
        assigned_from_call = n.ast.value
    for c in node_calls(n):
        if call_name(c) in OPTIONAL_SOURCES or call_name(c) in ADV_PRIMS:
            continue   # primitives with known end-of-stream behaviour
        for cal in sm.callees(fi, c):
            if sm.may_none.get(cal.qualname):
                oc = eof_outcomes(sm, cal, depth + 1)
                if oc <= {"raise"}:
                    return "END"
            elif sm.may_advance.get(cal.qualname):
                # a sub-parser that needs input: at end of stream it raises or reports through its own loops
                # (each callee's loops are analysed on their own)
                return "END"
    if n.kind == "stmt" and isinstance(n.ast, ast.Raise):
        return "END"
    if n.kind == "stmt" and isinstance(n.ast, ast.Assign):
        v = n.ast.value
        new = dict(st)
        val = UNK
        if isinstance(v, ast.Call):
            val = _eof_call_value(sm, fi, v, depth)
        elif isinstance(v, ast.Constant):
            val = ("c", v.value) if v.value is not None else NONE
        elif isinstance(v, (ast.Name, ast.Attribute)):
            val = st.get(norm(v), UNK)
        for t in n.ast.targets:
            if isinstance(t, (ast.Name, ast.Attribute)):
                new[norm(t)] = val
            else:
                for x in ast.walk(t):
                    if isinstance(x, ast.Name):
                        new[x.id] = UNK
        return new
    # dereference of a None value raises (reported by R20.3); path ends
    for e in node_exprs(n):
        for x in walk_no_nested(e):
            if isinstance(x, ast.Attribute) and isinstance(x.ctx, ast.Load) and st.get(norm(x.value)) == NONE and x.attr not in ("__class__",):
                return "END"
    if n.kind == "stmt" and isinstance(n.ast, ast.AugAssign):
        new = dict(st)
        new[norm(n.ast.target)] = UNK
        return new
    return st


def eof_explore(sm, fi, cfg, starts, start_state, inside, head, outcomes=None, depth=0):
    """Abstract exploration under the end-of-stream assumption.  Returns the
    states with which `head` is reached again (loop mode) and fills `outcomes`
    (function mode)."""
    seen = set()
    back = []
    stack = [(t, start_state) for t in starts]
    steps = 0
    while stack and steps < 20000:
        steps += 1
        n, st = stack.pop()
        if head is not None and n is head:
            back.append(st)
            continue
        if inside is not None and n.id not in inside:
            continue
        if n is cfg.exit:
            if outcomes is not None:
                outcomes.add("none")
            continue
        if n is cfg.rexit:
            if outcomes is not None:
                outcomes.add("raise")
            continue
        k = (n.id, _freeze(st))
        if k in seen:
            continue
        seen.add(k)
        if n.kind == "test":
            tv = _eval_atom(n.ast, st)
            dead = False
            for x in walk_no_nested(n.ast):
                if isinstance(x, ast.Attribute) and isinstance(x.ctx, ast.Load) and st.get(norm(x.value)) == NONE:
                    dead = True   # dereference of None raises (R20.3 reports it)
            if dead or sm.node_raises_at_eof(fi, n):
                if outcomes is not None:
                    outcomes.add("raise")
                continue
            for lab, t in n.succ:
                if lab == "e" or (tv is True and lab == "f") or (tv is False and lab == "t"):
                    continue
                stack.append((t, st))
            continue
        if n.kind == "for":
            for lab, t in n.succ:
                if lab != "e":
                    stack.append((t, st))
            continue
        st2 = eof_transfer(sm, fi, n, st, depth)
        if st2 == "END":
            if outcomes is not None:
                outcomes.add("raise")
            continue
        if n.kind == "stmt" and isinstance(n.ast, ast.Return):
            if outcomes is not None:
                v = n.ast.value
                if v is None or is_none(v) or (isinstance(v, (ast.Name, ast.Attribute)) and st2.get(norm(v)) == NONE) or (isinstance(v, ast.Call) and _eof_call_value(sm, fi, v, depth) == NONE):
                    outcomes.add("none")
                else:
                    outcomes.add("value")
            continue
        if n.kind == "stmt" and isinstance(n.ast, ast.Break) and inside is not None:
            continue
        for lab, t in n.succ:
            if lab != "e":
                stack.append((t, st2))
    return back, outcomes


def eof_spin_rule(rep, sm, fi, loop):
    cfg = cfg_of(fi)
    head = cfg.loops.get(loop)
    if head is None:
        return False
    inside = loop_nodes(cfg, loop)
    starts = [t for lab, t in head.succ if lab != "e" and not (isinstance(loop, ast.For) and lab == "done")]
    witness = None
    todo = [{}]
    done = []
    while todo and witness is None and len(done) < 8:
        s0 = todo.pop()
        if any(_freeze(s0) == _freeze(d) for d in done):
            continue
        done.append(s0)
        back, _ = eof_explore(sm, fi, cfg, starts, s0, inside, head)
        for s1 in back:
            if _freeze(s1) == _freeze(s0):
                witness = s1
                break
            todo.append(s1)
    spin = witness is not None
    rep.check(not spin, "R20.2", fi.qualname, "end-of-stream spin in `%s`" % norm_stmt(loop), fn_where(fi, loop),
              "loop `%s` leaves at end of stream (optional token sources return None, is_eof() holds)" % norm_stmt(loop)[:70],
              "at end of stream the loop `%s` in %s never exits: its token sources return None, the condition stays true for None and no branch breaks, raises or returns (state at the loop head: %s). A document cut inside this statement makes the reader hang"
              % (norm_stmt(loop)[:90], fi.qualname, dict(witness) if witness else {}))
    return spin


# ---------------------------------------------------------------- nullness
MAYBE, NOTNONE, ISNONE = "maybe", "notnone", "none"


def nullness_rule(rep, sm, fi, fields=(), entry=None, quiet=False, callsites=None, returns_out=None):
    """flow-sensitive: a local assigned from an optional source is dereferenced
    on a path with no dominating non-None test."""
    cfg = cfg_of(fi)
    findings = []
    nsrc = 0

    def join(a, b):
        a, b = dict(a), dict(b)
        out = {}
        for k in set(a) | set(b):
            va, vb = a.get(k, NOTNONE), b.get(k, NOTNONE)
            if va == vb:
                out[k] = va
            elif {va, vb} == {NOTNONE, ("fresh",)}:
                out[k] = ("fresh",)
            else:
                out[k] = MAYBE
        return tuple(sorted(out.items(), key=lambda kv: kv[0]))

    def as_dict(st):
        return dict(st)

    def transfer(n, st):
        d = as_dict(st)
        if n.kind == "stmt" and isinstance(n.ast, ast.Assign):
            v = n.ast.value
            val = NOTNONE
            if isinstance(v, ast.Call) and is_optional_call(sm, fi, v):
                val = ("fresh",)
            elif is_none(v):
                val = ISNONE
            elif isinstance(v, ast.Name):
                val = d.get(v.id, NOTNONE)
            elif isinstance(v, ast.Attribute) and v.attr == "current_token":
                val = MAYBE
            # any advancing call makes earlier fresh values stale
            if sm.node_advances(fi, n):
                for k in list(d):
                    if d[k] == ("fresh",):
                        d[k] = MAYBE
            for t in n.ast.targets:
                for x in ast.walk(t) if isinstance(t, (ast.Tuple, ast.List)) else [t]:
                    if isinstance(x, ast.Name):
                        d[x.id] = val if not isinstance(t, (ast.Tuple, ast.List)) else NOTNONE
                    elif isinstance(x, ast.Attribute) and norm(x) in fields:
                        d[norm(x)] = val
            return tuple(sorted(d.items(), key=lambda kv: kv[0]))
        if sm.node_advances(fi, n):
            for k in list(d):
                if d[k] == ("fresh",):
                    d[k] = MAYBE
        if n.kind == "for" and isinstance(n.ast, ast.For):
            for x in ast.walk(n.ast.target):
                if isinstance(x, ast.Name):
                    d[x.id] = NOTNONE
        if n.kind == "stmt" and isinstance(n.ast, ast.AugAssign) and isinstance(n.ast.target, ast.Name):
            d[n.ast.target.id] = NOTNONE
        return tuple(sorted(d.items(), key=lambda kv: kv[0]))

    def refine(n, lab, st):
        if n.kind != "test":
            return st
        d = as_dict(st)
        t = n.ast

        def setv(name, val):
            if name in d or name in fields:
                d[name] = val
        if isinstance(t, (ast.Name, ast.Attribute)):
            nm = norm(t)
            if lab == "t":
                setv(nm, NOTNONE)
            return tuple(sorted(d.items(), key=lambda kv: kv[0]))
        if isinstance(t, ast.Call) and isinstance(t.func, ast.Attribute) and t.func.attr == "is_eof":
            if lab == "f":
                for k in list(d):
                    if d[k] == ("fresh",):
                        d[k] = NOTNONE
            return tuple(sorted(d.items(), key=lambda kv: kv[0]))
        if isinstance(t, ast.Call) and isinstance(t.func, ast.Attribute) and isinstance(t.func.value, ast.Name):
            # token.isdigit() etc. evaluated without error implies not None on both edges
            setv(t.func.value.id, NOTNONE)
            return tuple(sorted(d.items(), key=lambda kv: kv[0]))
        cp = compare_parts(t)
        if cp:
            l, op, r = cp
            nm = norm(l)
            if is_none(r):
                if op in ("Is", "Eq"):
                    setv(nm, ISNONE if lab == "t" else NOTNONE)
                elif op in ("IsNot", "NotEq"):
                    setv(nm, NOTNONE if lab == "t" else ISNONE)
            elif isinstance(r, ast.Constant):
                if op == "Eq" and lab == "t":
                    setv(nm, NOTNONE)
                elif op == "NotEq" and lab == "f":
                    setv(nm, NOTNONE)
            elif isinstance(r, (ast.List, ast.Tuple, ast.Set)) and all(isinstance(e, ast.Constant) and e.value is not None for e in r.elts):
                if op == "In" and lab == "t":
                    setv(nm, NOTNONE)
                elif op == "NotIn" and lab == "f":
                    setv(nm, NOTNONE)
            elif op in ("Gt", "GtE", "Lt", "LtE"):
                pass
        return tuple(sorted(d.items(), key=lambda kv: kv[0]))

    init = tuple(sorted((f, (entry or {}).get(f, MAYBE)) for f in fields))
    IN = cfg.forward(init, transfer, refine=refine, join=join, follow_exc=False)
    if callsites is not None:
        for n in cfg.nodes:
            st = IN.get(n.id)
            if st is None:
                continue
            d = dict(st)
            for c in node_calls(n):
                for cal in sm.callees(fi, c):
                    callsites.setdefault(cal.qualname, []).append({f: d.get(f, NOTNONE) for f in fields})
    if returns_out is not None:
        for n in cfg.nodes:
            st = IN.get(n.id)
            if st is None or not (n.kind == "stmt" and isinstance(n.ast, ast.Return) and n.ast.value is not None):
                continue
            d = dict(st)
            v = n.ast.value
            if isinstance(v, ast.Name):
                returns_out.append(d.get(v.id, NOTNONE))
            elif isinstance(v, ast.Call) and is_optional_call(sm, fi, v):
                returns_out.append(MAYBE)
            else:
                returns_out.append(NOTNONE)
    if quiet:
        return 0, 0
    for n in cfg.nodes:
        st = IN.get(n.id)
        if st is None:
            continue
        d = as_dict(st)
        if n.kind == "stmt" and isinstance(n.ast, ast.Assign) and isinstance(n.ast.value, ast.Call) and is_optional_call(sm, fi, n.ast.value):
            nsrc += 1
        exprs = list(node_exprs(n))
        if n.kind == "forinit":
            exprs = [n.ast]
            if isinstance(n.ast, ast.Name) and d.get(n.ast.id) in (MAYBE, ISNONE, ("fresh",)):
                findings.append((n, n.ast.id, "iterated"))
        for e in exprs:
            for x in walk_no_nested(e):
                if isinstance(x, ast.Attribute) and isinstance(x.value, ast.Name) and d.get(x.value.id) in (MAYBE, ISNONE, ("fresh",)):
                    # short-circuit protection inside the same expression: `x and x.attr`
                    findings.append((n, x.value.id, "attribute .%s" % x.attr))
                elif isinstance(x, ast.Subscript) and isinstance(x.value, ast.Name) and isinstance(x.ctx, ast.Load) and d.get(x.value.id) in (MAYBE, ISNONE, ("fresh",)):
                    findings.append((n, x.value.id, "subscript"))
                elif isinstance(x, ast.Call) and isinstance(x.func, ast.Name) and x.func.id in ("int", "float", "len") and x.args and isinstance(x.args[0], ast.Name) \
                        and d.get(x.args[0].id) in (MAYBE, ISNONE, ("fresh",)):
                    findings.append((n, x.args[0].id, "%s()" % x.func.id))
                elif isinstance(x, ast.Compare) and fields:
                    for side in [x.left] + list(x.comparators):
                        if norm(side) in fields and d.get(norm(side)) in (MAYBE, ISNONE) and type(x.ops[0]).__name__ in ("Gt", "GtE", "Lt", "LtE"):
                            findings.append((n, norm(side), "ordering comparison"))
                elif isinstance(x, ast.BinOp) and fields:
                    for side in (x.left, x.right):
                        if norm(side) in fields and d.get(norm(side)) in (MAYBE, ISNONE) and isinstance(x.op, (ast.Add, ast.Sub, ast.Mult)):
                            findings.append((n, norm(side), "arithmetic"))
    seen = set()
    for n, var, how in findings:
        key = "optional `%s` used (%s) in `%s`" % (var, how, norm_stmt(n.stmt)[:80])
        if key in seen:
            continue
        seen.add(key)
        rep.check(False, "R20.3", fi.qualname, key, fn_where(fi, n.stmt), "dereference of optional value",
                  "%s uses `%s` (%s) in `%s` on a path where it can be None: the value comes from an end-of-stream-signalling source (next_token*/current_token/a parser that returns None at end of input, or a DIMENSIONS field that was never declared) and no test rules None out; the reader fails with AttributeError/TypeError instead of a parse error"
                  % (fi.qualname, var, how, norm_stmt(n.stmt)[:80]))
    if rep is not None and nsrc and not seen:
        rep.ob("R20.3", fn_where(fi), "%s: %d optional-source assignments, every dereference guarded" % (fi.qualname.split("dataio.")[1], nsrc), True)
    return nsrc, len(seen)


# ---------------------------------------------------------------- run
def reachable_functions(index, sm):
    roots = [f for f in sm.fns if f.name in ENTRY_POINTS]
    seen = {}
    stack = list(roots)
    while stack:
        f = stack.pop()
        if f.qualname in seen:
            continue
        seen[f.qualname] = f
        for c in calls_in(f.node, nested=True):
            grade, cands = index.resolve_call(c, f)
            if grade in ("self", "static"):
                for cal in cands:
                    if hasattr(cal, "methods"):   # class: constructor
                        init = index.find_method(cal, "__init__")
                        if init is not None and init.module.name in READER_MODULES:
                            stack.append(init)
                    elif hasattr(cal, "node") and cal.module.name in READER_MODULES:
                        stack.append(cal)
            elif grade == "name" and call_name(c) in ("_parse_tree_statement", "require_taxon_for_symbol", "tree_iter"):
                for cal in cands:
                    if cal.module.name in READER_MODULES:
                        stack.append(cal)
    return seen


def _cn(v):
    return "$token"


def run(index, rep, tier):
    rep.rule("R20.1", "token-loop progress: no cycle through a reader loop avoids every assignment to a condition variable, every token-advancing call and every exit")
    rep.rule("R20.2", "end-of-stream exit: under the end-of-stream assumption (optional sources return None, is_eof() holds) no reader loop has a feasible cycle")
    rep.rule("R20.3", "no dereference of an optional value: locals fed by next_token*/current_token/None-returning parsers (and the declared-dimension fields) are not used as attribute base, subscript base, int()/float()/len() argument or ordering operand without a dominating non-None test")
    rep.rule("R20.4", "error family: every raise reachable from a reader entry point constructs a DataParseError subclass (or is internal control flow / a documented configuration error); token text is converted with int()/float() only under a handler or a digit guard")
    rep.rule("R20.5", "input-proportional recursion: no cycle in the call graph of the reader modules, unless every call into the cycle from outside it sits in a try that catches RecursionError (the fence R20.25 describes)")
    rep.rule("R20.6", "declared dimensions are enforced: a reader that stores a declared nchar/ntax compares it with what it found on a path that raises, after the data loop")
    sm = Summaries(index)
    rep.extra["function_summaries"] = {
        "must_advance": sorted(q.split("dataio.")[1] for q, v in sm.must_advance.items() if v),
        "raises_at_eof": sorted(q.split("dataio.")[1] for q, v in sm.raises_at_eof.items() if v),
        "may_return_none": sorted(q.split("dataio.")[1] for q, v in sm.may_none.items() if v),
    }

    # ---- R20.1 / R20.2
    with rep.section("R20.1 / R20.2"):
        nloops = 0
        for fi, loop in token_loops(index, sm):
            nloops += 1
            spun = progress_rule(rep, sm, fi, loop)
            if not spun and _is_token_loop(sm, fi, loop):
                eof_spin_rule(rep, sm, fi, loop)
        rep.floor("R20.1", "loops in the reader/tokenizer modules", 35, nloops)

    # ---- R20.3
    with rep.section("R20.3"):
        nsrc = 0
        DIM_FIELDS = ("self._file_specified_ntax", "self._file_specified_nchar")
        def fields_of(fi):
            return DIM_FIELDS if fi.cls is not None and fi.cls.name in ("NexusReader", "NexusTreeDataYielder", "NexusNewickTreeDataYielder") and fi.name not in (
                "__init__", "_parse_dimensions_statement", "_read", "_too_many_taxa_error", "_too_many_characters_error") else ()
        # entry state of the declared-dimension fields: known (not None) when every call site establishes it
        entry = {f.qualname: {} for f in sm.fns}
        for _ in range(6):
            sites = {}
            for fi in sm.fns:
                if fields_of(fi):
                    nullness_rule(rep, sm, fi, fields_of(fi), entry=entry[fi.qualname], quiet=True, callsites=sites)
            new_entry = {}
            for fi in sm.fns:
                cs = sites.get(fi.qualname, [])
                new_entry[fi.qualname] = {F: (NOTNONE if cs and all(c.get(F) == NOTNONE for c in cs) else MAYBE) for F in DIM_FIELDS}
            if new_entry == entry:
                break
            entry = new_entry
        rep.extra["dimension_guarded_entry"] = sorted(q.split("dataio.")[1] for q, e in entry.items() if any(v == NOTNONE for v in e.values()))
        for fi in sm.fns:
            a, b = nullness_rule(rep, sm, fi, fields_of(fi), entry=entry.get(fi.qualname))
            nsrc += a
        rep.floor("R20.3", "assignments from optional token sources", 40, nsrc)

    # ---- R20.4
    with rep.section("R20.4"):
        reach = reachable_functions(index, sm)
        rep.floor("R20.4", "functions reachable from the reader entry points", 40, len(reach))
        nraise = 0
        for q, fi in sorted(reach.items()):
            pm = parent_map(fi.node)
            for r in walk_no_nested(fi.node):
                if not isinstance(r, ast.Raise):
                    continue
                nraise += 1
                ok, what = _raise_ok(index, fi, r, pm)
                if not ok and fi.qualname in RAISE_EXEMPT:
                    rep.ob("R20.4", fn_where(fi, r), "%s: `%s` exempt - %s" % (fi.name, norm_stmt(r)[:50], RAISE_EXEMPT[fi.qualname]), True, nontrivial=False)
                    continue
                rep.check(ok, "R20.4", fi.qualname, "raises %s" % what, fn_where(fi, r), "%s raises %s" % (fi.name, what),
                          "%s, reachable from a reader entry point, raises %s (`%s`), which is not of the library's DataParseError family: bad data is reported as an internal/generic error" % (fi.qualname, what, norm_stmt(r)[:80]))
            for c in calls_in(fi.node):
                if isinstance(c.func, ast.Name) and c.func.id in ("int", "float") and c.args:
                    a = c.args[0]
                    atxt = norm(a)
                    if isinstance(a, ast.Constant) or atxt.startswith("len(") or ".group" in atxt:
                        continue
                    if not ("token" in atxt or atxt in ("c", "char")):
                        continue
                    nraise += 1
                    guarded = _in_try_catching(pm, c, ("ValueError", "Exception", None))
                    if not guarded:
                        cfg = cfg_of(fi)
                        cn = node_of_ast(cfg, c)
                        reachn = cfg.reach([cfg.entry], follow_exc=False,
                                           edge_ok=lambda s, l, d, atxt=atxt: not (s.kind == "test" and norm(s.ast) in (atxt + ".isdecimal()",) and l == "t"))     # isdigit()/isnumeric() do not imply that int() succeeds
                        guarded = cn is not None and cn not in reachn
                    rep.check(guarded, "R20.4", fi.qualname, "unguarded %s" % norm(c), fn_where(fi, c), "%s: `%s` is under a ValueError handler or an isdecimal() test" % (fi.name, norm(c)),
                              "%s converts token text with `%s` outside any ValueError handler and without an isdecimal() test (isdigit() / isnumeric() accept characters int() rejects): a non-numeric token raises a bare ValueError from inside the reader" % (fi.qualname, norm(c)))
        rep.floor("R20.4", "raise statements and numeric conversions on the reader paths", 60, nraise)

    # ---- R20.5
    with rep.section("R20.5"):
        edges = {}
        for f in sm.fns:
            outs = set()
            for c in calls_in(f.node):
                for cal in sm.callees(f, c):
                    if cal.qualname in sm.byq:
                        outs.add(cal.qualname)
            edges[f.qualname] = outs
        cycles = _sccs(edges)
        rep.extra["reader_call_graph"] = {"functions": len(edges), "edges": sum(len(v) for v in edges.values())}
        for comp in cycles:
            q = sorted(comp)[0]
            fi = sm.byq[q]
            # a cycle is tolerable when every way into it is fenced: the caller catches RecursionError and raises its own error (R20.25)
            entries = []
            for f in sm.fns:
                if f.qualname in comp:
                    continue
                pm_ = None
                for c in calls_in(f.node):
                    if any(cal.qualname in comp for cal in sm.callees(f, c)):
                        pm_ = pm_ or parent_map(f.node)
                        entries.append(_in_try_catching(pm_, c, {"RecursionError", "RuntimeError"}))
            fenced = bool(entries) and all(entries)
            rep.check(fenced, "R20.5", q, "recursion cycle %s" % " -> ".join(x.rsplit(".", 1)[1] for x in sorted(comp)), fn_where(fi),
                      "recursion in the reader call graph", "the reader functions %s call each other recursively with a depth driven by the input (nesting / number of consecutive comments): a long enough input exhausts the interpreter stack and the reader fails with RecursionError"
                      % sorted(x.split("dataio.")[1] for x in comp))
        if not cycles:
            rep.ob("R20.5", "src/dendropy/dataio", "reader call graph (%d functions) is acyclic" % len(edges), True)
        for f in sm.fns:
            pass

    # ---- R20.8
    with rep.section("R20.8"):
        rep.rule("R20.8", "error handlers read only what the error carries: every attribute read from a caught repository exception (`except E as e: ... e.X`) is assigned by E or one of its bases - otherwise the handler itself dies with AttributeError instead of the defined parse error")
        BUILTIN_EXC_ATTRS = {"args", "with_traceback", "add_note", "__context__", "__cause__", "__traceback__", "__class__", "__dict__", "__str__", "__notes__", "__suppress_context__", "errno", "strerror", "filename"}
        def carried(ci, seen=None):
            seen = seen if seen is not None else set()
            out = set(ci.class_attrs) | set(ci.methods) | set(ci.properties)
            for m in ci.methods.values():
                for w in writes_in(m.node):
                    if w.base is not None and norm(w.base) == "self" and w.kind in ("store", "augstore"):
                        out.add(w.attr)
            for b in index.mro(ci)[1:]:
                if b.qualname not in seen:
                    seen.add(b.qualname)
                    out |= carried(b, seen)
            return out
        # attributes attached to exception objects from outside (e.exception_tree_offset = ...)
        attached = set()
        for f in index.functions.values():
            for n in walk_no_nested(f.node):
                if isinstance(n, ast.ExceptHandler) and n.name:
                    for a in ast.walk(n):
                        if isinstance(a, ast.Assign) and isinstance(a.targets[0], ast.Attribute) and norm(a.targets[0].value) == n.name:
                            attached.add(a.targets[0].attr)
        nread = 0
        for f in index.functions.values():
            if not (f.module.name.startswith("dendropy.dataio") or f.module.name in ("dendropy.utility.error", "dendropy.datamodel.basemodel")):
                continue
            for h in walk_no_nested(f.node):
                if not (isinstance(h, ast.ExceptHandler) and h.name and h.type is not None):
                    continue
                types = h.type.elts if isinstance(h.type, ast.Tuple) else [h.type]
                cis = []
                for t in types:
                    tgt = index.resolve_expr(f.module, t)
                    if tgt is None and isinstance(t, ast.Attribute):
                        # NexusReader.SomeError / self.SomeError: an inner exception class
                        cands = [c for c in index.classes.values() if c.name == t.attr]
                        tgt = cands[0] if len(cands) == 1 else None
                    if tgt is not None and hasattr(tgt, "methods"):
                        cis.append(tgt)
                if not cis or len(cis) != len(types):
                    continue        # a built-in or unresolved exception type: nothing to compare with
                have = set.intersection(*[carried(c) for c in cis]) | BUILTIN_EXC_ATTRS | attached
                # `e.args[i]` presupposes that the constructor chain hands arguments to Exception.__init__
                for sub in ast.walk(h):
                    if isinstance(sub, ast.Subscript) and isinstance(sub.value, ast.Attribute) and sub.value.attr == "args" and isinstance(sub.value.value, ast.Name) and sub.value.value.id == h.name:
                        nread += 1
                        passes = False
                        for ci_ in cis:
                            for k_ in index.mro(ci_):
                                init = k_.methods.get("__init__")
                                if init is None:
                                    continue
                                for c_ in calls_in(init.node):
                                    if norm(c_.func).endswith("__init__") and (len([a for a in c_.args if norm(a) != "self"]) > 0):
                                        passes = True
                        rep.check(passes, "R20.8", f.qualname, "handler indexes %s.args, which %s leaves empty" % (h.name, "/".join(c.name for c in cis)), fn_where(f, sub), "%s.args is populated by the constructor chain" % h.name,
                                  "%s catches %s and reads `%s`, but no constructor in the hierarchy passes anything to Exception.__init__, so `args` is the empty tuple: the handler itself dies with IndexError instead of raising the defined parse error" % (f.qualname, "/".join(c.name for c in cis), norm(sub)))
                for a in ast.walk(h):
                    if isinstance(a, ast.Attribute) and isinstance(a.ctx, ast.Load) and isinstance(a.value, ast.Name) and a.value.id == h.name:
                        nread += 1
                        rep.check(a.attr in have, "R20.8", f.qualname, "handler reads %s.%s, which %s does not carry" % (h.name, a.attr, "/".join(c.name for c in cis)), fn_where(f, a),
                                  "%s: `%s.%s` is set by %s" % (f.name, h.name, a.attr, "/".join(c.name for c in cis)),
                                  "%s catches %s and reads `%s.%s`, but no class in the hierarchy of %s assigns `%s`: on the malformed input that reaches this handler the reader dies with AttributeError from inside the library instead of raising its defined parse error" % (f.qualname, "/".join(c.name for c in cis), h.name, a.attr, "/".join(c.name for c in cis), a.attr))
        rep.floor("R20.8", "attribute reads on caught repository exceptions in the readers", 3, nread)

    # ---- R20.9
    with rep.section("R20.9"):
        rep.rule("R20.9", "each tokenizer owns its character classes: the delimiter / quote / comment sets that set_capture_eol and set_hyphens_as_captured_delimiters change in place are created afresh for every tokenizer, never taken from class- or module-level objects")
        nt = index.function(DIO + "nexusprocessing.NexusTokenizer.__init__")
        tk = index.klass(DIO + "tokenizer.Tokenizer")
        mutated = set()
        for k_ in (tk, index.klass(DIO + "nexusprocessing.NexusTokenizer")):
            for m in k_.methods.values():
                for w in writes_in(m.node):
                    if w.kind == "mutcall" and w.base is not None and norm(w.base) == "self":
                        mutated.add(w.attr)
        init = tk.methods["__init__"]
        field_of_param = {norm(a.value): a.targets[0].attr for a in walk_no_nested(init.node) if isinstance(a, ast.Assign) and is_self_attr(a.targets[0]) and isinstance(a.value, ast.Name)}
        sup = [c for c in calls_in(nt.node) if norm(c.func).endswith("Tokenizer.__init__")]
        if len(sup) != 1 or not mutated:
            raise AnalysisError("R20.9: NexusTokenizer.__init__ / mutated character classes not recognised")
        nsets = 0
        for k in sup[0].keywords:
            if k.arg and field_of_param.get(k.arg) in mutated:
                nsets += 1
                v = k.value
                fresh = isinstance(v, (ast.Set, ast.SetComp, ast.List)) or (isinstance(v, ast.Call) and isinstance(v.func, ast.Name) and v.func.id in ("set", "list", "frozenset") ) or (isinstance(v, ast.Call) and norm(v.func) in ("copy.copy", "copy.deepcopy"))
                rep.check(fresh, "R20.9", nt.qualname, "%s taken from a shared object: %s" % (k.arg, norm(v)[:40]), fn_where(nt, v), "NexusTokenizer gives each tokenizer its own %s" % k.arg,
                          "NexusTokenizer.__init__ passes `%s` as %s: the tokenizer changes that set in place (set_capture_eol / set_hyphens_as_captured_delimiters), so with a shared object every tokenizer in the process sees the change; after one read that fails inside a matrix row or a CHARSET range every later document is tokenized with `-` or end-of-line as tokens and valid input is rejected" % (norm(v)[:50], k.arg))
        rep.floor("R20.9", "character classes mutated in place", 2, nsets)

    # ---- R20.7
    with rep.section("R20.7"):
        rep.rule("R20.7", "NCHAR bounds every row: inside each NEXUS cell reader every comparison with the declared NCHAR (the loop condition and each too-many-characters guard) measures the same quantity")
        ngroups = 0
        for q in (DIO + "nexusreader.NexusReader._read_character_states", DIO + "nexusreader.NexusReader._read_continuous_character_values"):
            f7 = index.function(q)
            cmps = []
            for n in walk_no_nested(f7.node):
                if isinstance(n, ast.Compare) and len(n.ops) == 1 and len(n.comparators) == 1:
                    l, r = n.left, n.comparators[0]
                    if norm(r) == "self._file_specified_nchar":
                        cmps.append((n, norm(l)))
                    elif norm(l) == "self._file_specified_nchar":
                        cmps.append((n, norm(r)))
            if len(cmps) < 2:
                raise AnalysisError("R20.7: %s: fewer than two comparisons with the declared NCHAR" % q)
            ngroups += 1
            sizes = {}
            for n, sz in cmps:
                sizes.setdefault(sz, []).append(n)
            major = max(sizes, key=lambda k: len(sizes[k]))
            for sz, ns in sorted(sizes.items()):
                for n in ns:
                    rep.check(sz == major, "R20.7", f7.qualname, "NCHAR compared with `%s` where the other comparisons use `%s`" % (sz, major), fn_where(f7, n),
                              "%s: `%s` measures the row like the other %d comparisons" % (f7.name, norm(n)[:60], len(sizes[major]) - (1 if sz == major else 0)),
                              "%s compares the declared NCHAR with `%s` in `%s`, while its loop condition and the other guard(s) compare it with `%s`: the guard no longer counts the cells already stored for the taxon, so on a later interleave page a row grows past NCHAR and the reader returns a matrix wider than its own header declares instead of raising" % (f7.qualname, sz, norm(n)[:70], major))
        rep.floor("R20.7", "cell readers with NCHAR comparisons", 2, ngroups)
        # the too-many-characters guard fires when the row is FULL (==, >=), i.e. before one more cell is appended
        for q in (DIO + "nexusreader.NexusReader._read_character_states", DIO + "nexusreader.NexusReader._read_continuous_character_values"):
            f7 = index.function(q)
            c7 = cfg_of(f7)
            for t in c7.nodes:
                if t.kind == "test" and isinstance(t.ast, ast.Compare) and len(t.ast.ops) == 1 and "self._file_specified_nchar" in (norm(t.ast.left), norm(t.ast.comparators[0])) and t.stmt is not None and isinstance(t.stmt, ast.If):
                    r_t = raises_in_branch(c7, t, "t")
                    if r_t is None:
                        continue
                    op = type(t.ast.ops[0]).__name__
                    if norm(t.ast.left) == "self._file_specified_nchar":
                        op = {"Gt": "Lt", "Lt": "Gt", "GtE": "LtE", "LtE": "GtE"}.get(op, op)
                    rep.check(op in ("Eq", "GtE"), "R20.7", f7.qualname, "too-many guard `%s` lets a full row grow" % norm(t.ast)[:60], fn_where(f7, t.stmt), "%s: the guard `%s` refuses as soon as the row is full" % (f7.name, norm(t.ast)[:50]),
                              "%s raises the too-many-characters error only under `%s`: the test runs BEFORE the next cell is appended, so it must fire when the row already holds NCHAR cells (== or >=); with `>` a row with exactly one surplus cell is accepted and the matrix returned is wider than its header declares" % (f7.qualname, norm(t.ast)[:70]))

    # ---- R20.6
    with rep.section("R20.6"):
        pr = index.function(DIO + "phylipreader.PhylipReader._read")
        cls = index.klass(DIO + "phylipreader.PhylipReader")
        for dim in ("ntax", "nchar"):
            checks = []
            for m in cls.methods.values():
                cfg = cfg_of(m)
                for n in cfg.nodes:
                    if n.kind == "test" and ("self." + dim) in norm(n.ast) and isinstance(n.ast, ast.Compare) and all(isinstance(o, (ast.Eq, ast.NotEq)) for o in n.ast.ops):
                        if raises_in_branch(cfg, n, "t") is not None or raises_in_branch(cfg, n, "f") is not None or _branch_calls_raiser(cfg, n):
                            checks.append((m, n))
            rcfg = cfg_of(pr)
            parse_nodes = [n for n in rcfg.nodes if any((call_name(c) or "").startswith("_parse_") for c in node_calls(n))]
            post = [c for c in checks if c[0].name == "_read" and any(rcfg.can_reach(p, lambda n, t=c[1]: n is t) is not None for p in parse_nodes)]
            # a parse routine that itself ends with the comparison on every normal path discharges the obligation for its call
            self_checking = set()
            for m in cls.methods.values():
                if not m.name.startswith("_parse_"):
                    continue
                own = {t.id for mm, t in checks if mm is m}
                if own:
                    mcfg = cfg_of(m)
                    if mcfg.must_pass(mcfg.entry, lambda n: n.id in own)[0]:
                        self_checking.add(m.name)
            parse_nodes = [n for n in parse_nodes if not all((call_name(c) or "") in self_checking for c in node_calls(n) if (call_name(c) or "").startswith("_parse_"))] or parse_nodes[:0]
            if not parse_nodes:
                rep.ob("R20.6", fn_where(pr), "declared %s is compared inside every parse routine (%s)" % (dim, sorted(self_checking)), True)
                continue
            rep.check(bool(post), "R20.6", pr.qualname, "declared %s compared after parsing" % dim, fn_where(pr),
                      "PhylipReader._read compares the declared %s with what was read, on a raising path, after the data loop (%d comparisons in the class)" % (dim, len(checks)),
                      "PhylipReader stores the declared `%s` but _read never compares it with what was actually read after the data loop: a document whose rows are shorter than declared is returned as a ragged matrix that contradicts its own header" % dim)
            # ... and in every mode: each parse call is followed, on every normal path to the return, by one of the comparisons
            # (or by the head of the loop that holds it - a loop over zero rows has nothing to compare)
            if post:
                pmr = parent_map(pr.node)
                passing = set()
                for m, t in post:
                    passing.add(t.id)
                    cur = pmr.get(t.stmt)
                    while cur is not None and cur is not pr.node:
                        if isinstance(cur, (ast.For, ast.While)):
                            passing |= {n.id for n in rcfg.nodes if n.stmt is cur and n.kind in ("for", "forinit", "join")}
                            cur = pmr.get(cur)
                            continue
                        if isinstance(cur, ast.If):
                            break
                        cur = pmr.get(cur)
                # option attributes assigned only in __init__ keep their value during _read: repeated tests of them are correlated
                stored_elsewhere = {w.attr for m in cls.methods.values() if m.name != "__init__" for w in writes_in(m.node) if w.kind in ("store", "augstore") and w.base is not None and norm(w.base) == "self"}
                init = cls.methods.get("__init__")
                rcfg.stable_attrs = {"self." + w.attr for w in writes_in(init.node) if w.kind == "store" and w.base is not None and norm(w.base) == "self" and w.attr not in stored_elsewhere} if init is not None else set()
                for pnode in parse_nodes:
                    ok, w = rcfg.must_pass(pnode, lambda n: n.id in passing, edge_ok=rcfg.consistent_with(pnode))
                    rep.check(ok, "R20.6", pr.qualname, "declared %s not compared after `%s` on some path" % (dim, norm_stmt(pnode.stmt)[:50]), fn_where(pr, pnode.stmt),
                              "every normal path from `%s` to the return passes a comparison with the declared %s" % (norm_stmt(pnode.stmt)[:40], dim),
                              "PhylipReader._read can return after `%s` without comparing the declared `%s` with what was read (the comparison is skipped on some mode/flag combination): in that mode a document whose rows are shorter than declared comes back as a ragged matrix that contradicts its own header" % (norm_stmt(pnode.stmt)[:60], dim))

    # ---- R20.10 regular expressions cannot blow up
    with rep.section("R20.10"):
        rep.rule("R20.10", "no regular expression of the readers can backtrack exponentially: no unbounded repetition whose body is itself an unbounded repetition padded only by optional parts ((x+ y?)+ shapes) - a comment or token that fails to match at its end would otherwise hang the reader")
        import re as _re
        try:
            from re import _parser as _sre_parse
            from re import _constants as _sre_c
        except ImportError:       # Python < 3.11
            import sre_parse as _sre_parse
            import sre_constants as _sre_c
        UNB = _sre_c.MAXREPEAT

        def fold(e, mod):
            if isinstance(e, ast.Constant) and isinstance(e.value, str):
                return e.value
            if isinstance(e, ast.BinOp) and isinstance(e.op, ast.Add):
                a, b = fold(e.left, mod), fold(e.right, mod)
                return None if a is None or b is None else a + b
            if isinstance(e, ast.Name) and e.id in mod.assigns:
                return fold(mod.assigns[e.id], mod)
            return None

        def seq_of(av):
            return list(av)

        def nullable(item):
            op, av = item
            nm = str(op)
            if nm in ("MAX_REPEAT", "MIN_REPEAT", "POSSESSIVE_REPEAT"):
                return av[0] == 0 or all(nullable(x) for x in seq_of(av[2]))
            if nm == "SUBPATTERN":
                return all(nullable(x) for x in seq_of(av[3]))
            if nm == "BRANCH":
                return any(all(nullable(x) for x in seq_of(alt)) for alt in av[1])
            if nm in ("AT", "ASSERT", "ASSERT_NOT"):
                return True
            return False

        def flatten(items):
            out = []
            for it in items:
                if str(it[0]) == "SUBPATTERN" and not nullable(it) and len(seq_of(it[1][3])) >= 1:
                    out.extend(flatten(seq_of(it[1][3])))
                else:
                    out.append(it)
            return out

        def explosive(items):
            """first offending (outer, inner) pair, or None"""
            for op, av in items:
                nm = str(op)
                if nm in ("MAX_REPEAT", "MIN_REPEAT"):
                    body = flatten(seq_of(av[2]))
                    if av[1] == UNB:
                        inner = [x for x in body if str(x[0]) in ("MAX_REPEAT", "MIN_REPEAT") and x[1][1] == UNB and not all(nullable(y) for y in seq_of(x[1][2]))]
                        for cand in inner:
                            if all(nullable(o) for o in body if o is not cand):
                                return True
                    r = explosive(seq_of(av[2]))
                    if r:
                        return r
                elif nm == "SUBPATTERN":
                    r = explosive(seq_of(av[3]))
                    if r:
                        return r
                elif nm == "BRANCH":
                    for alt in av[1]:
                        r = explosive(seq_of(alt))
                        if r:
                            return r
                elif nm in ("ASSERT", "ASSERT_NOT"):
                    r = explosive(seq_of(av[1]))
                    if r:
                        return r
            return None
        nre = 0
        for m in READER_MODULES:
            mod = index.module(m)
            sites = []
            for x in ast.walk(mod.tree):
                if isinstance(x, ast.Call) and isinstance(x.func, ast.Attribute) and norm(x.func.value) == "re" and x.func.attr in ("compile", "match", "search", "findall", "finditer", "sub", "subn", "split", "fullmatch") and x.args:
                    sites.append(x)
            for c in sites:
                pat = fold(c.args[0], mod)
                if pat is None:
                    continue
                nre += 1
                try:
                    tree = _sre_parse.parse(pat)
                except Exception:
                    continue
                bad = explosive(list(tree))
                rep.check(not bad, "R20.10", m, "regular expression with nested unbounded repetition: %s" % pat[:50], "%s:%d" % (mod.relpath, c.lineno), "pattern `%s` has no nested unbounded repetition" % pat[:40],
                          "the pattern `%s` in %s repeats, without bound, a group that itself consists of an unbounded repetition plus only optional parts: when the text stops matching near its end (a `{` list in a metadata comment that lost its closing brace) the matcher tries every way of splitting the run between the two loops - exponential time, i.e. the reader hangs on a one-character truncation" % (pat[:80], m))
        rep.floor("R20.10", "regular expressions in the reader modules", 4, nre)

    # ---- R20.11 control-flow exceptions stay inside the reader
    with rep.section("R20.11"):
        rep.rule("R20.11", "control-flow exceptions stay inside the reader: an exception class of the reader modules that is NOT in the data-parse-error family (used to signal 'block ended' internally) is caught around every call of a routine that can raise it")
        fam = set()
        for k in index.classes.values():
            if k.module.name in READER_MODULES or k.module.name == "dendropy.utility.error":
                anc = _exc_ancestors(index, k.name, None)
                if "DataParseError" in anc:
                    fam.add(k.name)
        internal = [k for k in index.classes.values() if k.module.name in READER_MODULES and "Exception" in _exc_ancestors(index, k.name, None) and k.name not in fam and not ({"DataParseError"} & _exc_ancestors(index, k.name, None))]
        nint = 0
        for k in sorted(internal, key=lambda c: c.qualname):
            raisers = {}
            for f in sm.fns:
                for r in walk_no_nested(f.node):
                    if isinstance(r, ast.Raise) and r.exc is not None and (norm(r.exc.func) if isinstance(r.exc, ast.Call) else norm(r.exc)).split(".")[-1] == k.name:
                        raisers[f.qualname] = f
            if not raisers:
                continue
            for f in sm.fns:
                pm = None
                for c in calls_in(f.node):
                    cals = [x for x in sm.callees(f, c) if x.qualname in raisers]
                    if not cals:
                        continue
                    nint += 1
                    pm = pm or parent_map(f.node)
                    q = pm.get(c)
                    caught = False
                    prev = c
                    while q is not None and q is not f.node:
                        if isinstance(q, ast.Try) and any(prev is b or any(prev is y for y in ast.walk(b)) for b in q.body):
                            for h in q.handlers:
                                names = {"BaseException"} if h.type is None else {norm(e).split(".")[-1] for e in (h.type.elts if isinstance(h.type, ast.Tuple) else [h.type])}
                                if names & _exc_ancestors(index, k.name, None):
                                    caught = True
                        prev = q
                        q = pm.get(q)
                    rep.check(caught, "R20.11", f.qualname, "%s can escape from the call of %s" % (k.name, cals[0].name), fn_where(f, c), "%s: %s is caught around the call of %s" % (f.name, k.name, cals[0].name),
                              "%s calls %s, which raises %s (a plain Exception used to signal that the block ended), outside any handler for it: a matrix whose `;` comes before a row is complete (`b AC;`), or a repeated row label, makes that internal signal escape to the caller instead of a data-parse error" % (f.qualname, cals[0].qualname, k.name))
        rep.floor("R20.11", "calls of routines raising an internal control exception", 2, nint)

    # ---- R20.12 the error message itself can be composed
    with rep.section("R20.12"):
        rep.rule("R20.12", "the error message itself can be composed: in the readers a `%d` conversion of a %-format is given a number, never a matrix row / sequence object or a label - otherwise reporting the parse error dies with a TypeError, which is what the caller sees")
        import re as _re
        nfmt = 0
        for f in sm.fns:
            for b in ast.walk(f.node):
                if not (isinstance(b, ast.BinOp) and isinstance(b.op, ast.Mod) and isinstance(b.left, ast.Constant) and isinstance(b.left.value, str)):
                    continue
                specs = _re.findall(r"%(?:\([^)]*\))?[#0\- +]*\d*(?:\.\d+)?([diouxXeEfFgGcrsa%])", b.left.value)
                specs = [x for x in specs if x != "%"]
                args = list(b.right.elts) if isinstance(b.right, ast.Tuple) else [b.right]
                if len(specs) != len(args):
                    continue
                for sp, a in zip(specs, args):
                    if sp not in "diouxXeEfFgG":
                        continue
                    nfmt += 1
                    non_numeric = (isinstance(a, ast.Subscript) and any(w in norm(a.value) for w in ("matrix", "_map", "sequence"))) or (isinstance(a, ast.Attribute) and a.attr in ("label", "symbol")) or isinstance(a, (ast.JoinedStr, ast.List, ast.Dict, ast.Set)) or (isinstance(a, ast.Constant) and isinstance(a.value, str))
                    rep.check(not non_numeric, "R20.12", f.qualname, "%%%s given a non-number: %s" % (sp, norm(a)[:40]), fn_where(f, b), "%s: %%%s <- %s" % (f.name, sp, norm(a)[:40]),
                              "%s formats `%s` with %%%s: that is a sequence / label object, not a number, so composing the message raises `TypeError: %%d format: a real number is required` - a PHYLIP file with a repeated row label is answered with that internal TypeError instead of the data-parse error being written" % (f.qualname, norm(a)[:50], sp))
        rep.floor("R20.12", "numeric conversions in the readers' messages", 5, nfmt)

    # ---- R20.13 numbers taken from tokens
    with rep.section("R20.13"):
        rep.rule("R20.13", "numbers taken from tokens cannot raise ValueError: an int(<token>) in the NEXUS reader is dominated by a test that implies the conversion succeeds (str.isdecimal - str.isdigit is also true for characters like the superscript two, which int() rejects) or sits in a try that catches ValueError; a step handed to range() that comes from the input is tested to be non-zero first")
        nint_ = nstep = 0
        for f in sm.fns:
            if f.module.name != "dendropy.dataio.nexusreader":
                continue
            g = None
            pm = None
            for c in calls_in(f.node):
                if isinstance(c.func, ast.Name) and c.func.id == "int" and len(c.args) == 1 and isinstance(c.args[0], ast.Name):
                    v = c.args[0].id
                    g = g or cfg_of(f)
                    pm = pm or parent_map(f.node)
                    nd = node_of_ast(g, c)
                    if nd is None:
                        continue
                    # in a try that catches ValueError?
                    q = pm.get(c)
                    prev = c
                    intry = False
                    while q is not None and q is not f.node:
                        if isinstance(q, ast.Try) and any(prev is b or any(prev is y for y in ast.walk(b)) for b in q.body):
                            for h in q.handlers:
                                names = {"BaseException"} if h.type is None else {norm(e).split(".")[-1] for e in (h.type.elts if isinstance(h.type, ast.Tuple) else [h.type])}
                                if names & {"ValueError", "Exception", "BaseException"}:
                                    intry = True
                        prev = q
                        q = pm.get(q)
                    guards = [t for t in g.nodes if t.kind == "test" and isinstance(t.ast, ast.Call) and isinstance(t.ast.func, ast.Attribute) and norm(t.ast.func.value) == v and t.ast.func.attr in ("isdigit", "isdecimal", "isnumeric")]
                    if not guards and not intry:
                        continue        # converted from something that is not a raw token test (e.g. a regex group): other rules
                    nint_ += 1
                    strong = [t for t in guards if t.ast.func.attr == "isdecimal"]
                    ids = {t.id for t in strong}
                    ok = intry or (bool(strong) and g.dominated_by(nd, lambda x: x.id in ids, follow_exc=False, edge_ok=lambda a_, lab, b_: not (a_.id in ids and lab == "f")))
                    rep.check(ok, "R20.13", f.qualname, "int(%s) guarded by %s only" % (_cn(v), sorted({t.ast.func.attr for t in guards}) or "nothing"), fn_where(f, c), "%s: int(%s) follows %s.isdecimal() / sits in a ValueError handler" % (f.name, v, v),
                              "%s converts the token with int(%s) after testing only %s: str.isdigit() is true for characters such as '\u00b2' (superscript two) for which int() raises ValueError, so `dimensions ntax=\u00b2` is answered with that bare ValueError instead of a data-parse error (str.isdecimal() is the exact precondition of int())" % (f.qualname, v, sorted({t.ast.func.attr for t in guards})))
                if isinstance(c.func, ast.Name) and c.func.id == "range" and len(c.args) == 3 and isinstance(c.args[2], ast.Name):
                    st = c.args[2].id
                    from_input = any(isinstance(a, ast.Assign) and norm(a.targets[0]) == st and isinstance(a.value, ast.Call) and isinstance(a.value.func, ast.Name) and a.value.func.id == "int" for a in walk_no_nested(f.node))
                    if not from_input:
                        continue
                    nstep += 1
                    g = g or cfg_of(f)
                    nd = node_of_ast(g, c)
                    tests = [t for t in g.nodes if t.kind == "test" and isinstance(t.ast, ast.Compare) and st in {x.id for x in ast.walk(t.ast) if isinstance(x, ast.Name)}]
                    ok = bool(tests) and nd is not None
                    if ok:
                        # every path from an int() definition of the step to the range call passes one of the tests
                        defs = [d for d in g.nodes if d.kind == "stmt" and isinstance(d.ast, ast.Assign) and norm(d.ast.targets[0]) == st and isinstance(d.ast.value, ast.Call) and norm(d.ast.value.func) == "int"]
                        ids = {t.id for t in tests}
                        ok = all(g.can_reach(d, lambda x: x is nd, avoid=lambda x: x.id in ids, follow_exc=False) is None for d in defs)
                    rep.check(ok, "R20.13", f.qualname, "range() step taken from the input without a test", fn_where(f, c), "%s: the step of `%s` is tested before use" % (f.name, norm(c)[:40]),
                              "%s passes `%s`, read from the document with int(), to range() as the step without testing it: `charset x = 1-6\\0;` makes range() raise `ValueError: range() arg 3 must not be zero`, which reaches the caller as it is" % (f.qualname, st))
        rep.floor("R20.13", "int() conversions of tokens in the NEXUS reader", 4, nint_)
        rep.floor("R20.13", "range() steps taken from the input", 1, nstep)

    # ---- R20.14 dividing by a number from the document
    with rep.section("R20.14"):
        rep.rule("R20.14", "dividing by a number from the document cannot raise ZeroDivisionError: a division whose divisor was converted from input text sits in a try that catches ZeroDivisionError (or is preceded by a test of the divisor)")
        ndiv = 0
        for f in sm.fns:
            pm = None
            for b in walk_no_nested(f.node):
                if not (isinstance(b, ast.BinOp) and isinstance(b.op, (ast.Div, ast.FloorDiv, ast.Mod)) and isinstance(b.right, ast.Name)):
                    continue
                dv = b.right.id
                from_input = any(isinstance(a, ast.Assign) and norm(a.targets[0]) == dv and isinstance(a.value, ast.Call) and isinstance(a.value.func, ast.Name) and a.value.func.id in ("float", "int") for a in walk_no_nested(f.node))
                if not from_input:
                    continue
                ndiv += 1
                pm = pm or parent_map(f.node)
                ok = _in_try_catching(pm, b, ("ZeroDivisionError", "ArithmeticError", "Exception", None))
                if not ok:
                    g = cfg_of(f)
                    nd = node_of_ast(g, b)
                    ok = nd is not None and g.dominated_by(nd, lambda x: x.kind == "test" and any(isinstance(z, ast.Name) and z.id == dv for z in ast.walk(x.ast)), follow_exc=False)
                rep.check(ok, "R20.14", f.qualname, "division by a number read from the document without a ZeroDivisionError handler", fn_where(f, b), "%s: `%s` is protected" % (f.name, norm(b)[:40]),
                          "%s computes `%s` where the divisor was converted from input text, inside a handler that does not cover ZeroDivisionError: a tree weight comment `[&W 1/0]` makes the reader fail with that internal error instead of the invalid-value parse error written for malformed weights" % (f.qualname, norm(b)[:40]))
        rep.floor("R20.14", "divisions by numbers read from the document", 1, ndiv)

    # ---- R20.15 a contradictory FORMAT statement is a parse error
    with rep.section("R20.15"):
        rep.rule("R20.15", "a contradictory FORMAT statement is a parse error: where the NEXUS reader builds a state alphabet from the document's SYMBOLS / MISSING / GAP values (a constructor that raises ValueError for a symbol defined twice) the call sits in a handler that turns ValueError into a reader error")
        nsa = 0
        for f in sm.fns:
            if f.module.name != "dendropy.dataio.nexusreader":
                continue
            pm = None
            for c in calls_in(f.node):
                if get_kwarg(c, "fundamental_states") is None or "alphabet" not in norm(c.func).lower():
                    continue
                nsa += 1
                pm = pm or parent_map(f.node)
                ok = _in_try_catching(pm, c, ("ValueError", "Exception", None))
                rep.check(ok, "R20.15", f.qualname, "state alphabet built from document values outside a ValueError handler", fn_where(f, c), "%s: `%s` is under a ValueError handler" % (f.name, norm(c.func)),
                          "%s builds the state alphabet from the symbols, missing and gap characters the document declares with `%s(...)` outside any ValueError handler: `symbols=\"01?\"`, `missing=1` with symbols 01, or `missing=- gap=-` make the constructor raise `ValueError: State with symbol ... already defined`, which reaches the caller instead of a data-parse error" % (f.qualname, norm(c.func)))
        rep.floor("R20.15", "alphabets built from document values", 1, nsa)

    # ---- R20.16 NEXUS matrices do not contradict their DIMENSIONS
    with rep.section("R20.16"):
        rep.rule("R20.16", "a NEXUS matrix does not contradict its DIMENSIONS statement: (a) on every mode (sequential and interleaved) a comparison of a row's length with the declared NCHAR that raises lies on every normal path from the data loop to the return of the matrix statement; (b) the number of rows read is compared with the declared NTAX on a raising path")
        pms = index.function(DIO + "nexusreader.NexusReader._parse_matrix_statement")
        procs = [index.function(DIO + "nexusreader.NexusReader._process_discrete_matrix_data"), index.function(DIO + "nexusreader.NexusReader._process_continuous_matrix_data")]

        def nchar_check(g, n):
            return n.kind == "test" and isinstance(n.ast, ast.Compare) and "self._file_specified_nchar" in norm(n.ast) and "len(" in norm(n.ast) and (raises_in_branch(g, n, "t") is not None or raises_in_branch(g, n, "f") is not None)
        gm = cfg_of(pms)
        post_nodes = [n for n in gm.nodes if nchar_check(gm, n)]
        pcalls = [n for n in gm.nodes if any(call_name(c) in ("_process_discrete_matrix_data", "_process_continuous_matrix_data") for c in node_calls(n))]
        if len(pcalls) != 2:
            raise AnalysisError("R20.16: matrix processing calls in _parse_matrix_statement not recognised")
        pm_m = parent_map(pms.node)
        passing = {n.id for n in post_nodes}
        for t in post_nodes:
            cur = pm_m.get(t.stmt)
            while cur is not None and cur is not pms.node:
                if isinstance(cur, (ast.For, ast.While)):
                    passing |= {n.id for n in gm.nodes if n.stmt is cur and n.kind in ("for", "forinit", "join")}
                cur = pm_m.get(cur)
        covered_after = all(gm.must_pass(pc, lambda n: n.id in passing)[0] for pc in pcalls) if post_nodes else False
        for pf in procs:
            g = cfg_of(pf)
            loops = [l for l in walk_no_nested(pf.node) if isinstance(l, ast.While)]
            if len(loops) != 2:
                raise AnalysisError("R20.16: %s: sequential / interleaved data loops not recognised" % pf.qualname)
            for l in loops:
                inloop = [n for n in g.nodes if nchar_check(g, n) and any(n.stmt is x for x in ast.walk(l))]
                mode = "interleaved" if any(isinstance(x, ast.Try) and any(l is y for y in ast.walk(x)) for x in walk_no_nested(pf.node)) else "sequential"
                ok = bool(inloop) or covered_after
                rep.check(ok, "R20.16", pf.qualname, "%s rows are never compared with the declared NCHAR" % mode, fn_where(pf, l), "%s: %s rows are compared with NCHAR (%s)" % (pf.name, mode, "in the loop" if inloop else "after processing"),
                          "%s reads %s rows without ever comparing their final length with the declared NCHAR on a raising path (neither in its loop nor in _parse_matrix_statement afterwards): an interleaved matrix whose second block is short - rows of 3 and 4 characters for NCHAR=4 - is returned as it is, contradicting the dimensions the document declares" % (pf.qualname, mode))
        ntax_checks = [n for f_ in [pms] + procs for n in cfg_of(f_).nodes if n.kind == "test" and isinstance(n.ast, ast.Compare) and "self._file_specified_ntax" in norm(n.ast) and "len(" in norm(n.ast) and (raises_in_branch(cfg_of(f_), n, "t") is not None or raises_in_branch(cfg_of(f_), n, "f") is not None)]
        rep.check(bool(ntax_checks), "R20.16", pms.qualname, "number of rows never compared with the declared NTAX", fn_where(pms), "the number of rows read is compared with NTAX",
                  "NexusReader._parse_matrix_statement (with the two _process_*_matrix_data routines) never compares the number of rows it read with the declared NTAX: `dimensions ntax=2 nchar=4; matrix a ACGT ;` - or any document cut after a complete row - is returned as a one-row matrix that contradicts its own DIMENSIONS statement")

    # ---- R20.17 an unfinished tree statement is always an error
    with rep.section("R20.17"):
        rep.rule("R20.17", "an unfinished tree statement is always an error: in NewickReader._parse_tree_statement no path from the node-description call to a normal return exists on which _tree_statement_complete is false - the refusal does not depend on any reader option (the node parser stops at a stray `)` or `,` without consuming it, and a caller that gets a tree back asks for the next one from the same token for ever)")
        ts = index.function("dendropy.dataio.newickreader.NewickReader._parse_tree_statement")
        g = cfg_of(ts)
        starts = [n for n in g.nodes if any(call_name(c) == "_parse_tree_node_description" for c in node_calls(n))]
        if not starts or not any(isinstance(x, ast.Attribute) and x.attr == "_tree_statement_complete" and isinstance(x.ctx, ast.Load) for x in ast.walk(ts.node)):
            raise AnalysisError("R20.17: _parse_tree_statement no longer calls _parse_tree_node_description / tests _tree_statement_complete")

        def incomplete_only(s, l, d):
            return not (s.kind == "test" and isinstance(s.ast, ast.Attribute) and s.ast.attr == "_tree_statement_complete" and l == "t")

        for s0 in starts:
            w = g.can_reach(s0, lambda n: n is g.exit, avoid=lambda n: n.kind == "raise" or isinstance(n.ast, ast.Raise), follow_exc=False, edge_ok=incomplete_only)
            rep.check(w is None, "R20.17", ts.qualname, "an unfinished statement can be returned as a tree", fn_where(ts, s0.ast), "_parse_tree_statement: every return after the node description has seen the statement complete",
                      "NewickReader._parse_tree_statement can return normally although `_tree_statement_complete` is false (the refusal is conditional on something else): the node parser returns at an unmatched `)` or `,` WITHOUT consuming it, so the reader hands back a tree and is asked for the next one while still standing on the same token - tree_iter / read never terminate and allocate one empty tree per round")

    # ---- R20.18 rows are looked up by position only in a full namespace
    with rep.section("R20.18"):
        rep.rule("R20.18", "rows are looked up by position only in a full namespace: PhylipReader._parse_interleaved switches to paged mode (taxon_namespace[row]) only on the true branch of a test that compares the number of taxa actually in the namespace with NTAX - counting lines instead lets a repeated label leave the namespace short, and the positional look-up of the next page raises IndexError from inside the library")
        pi_ = index.function("dendropy.dataio.phylipreader.PhylipReader._parse_interleaved")
        g = cfg_of(pi_)
        sets = [n for n in g.nodes if isinstance(n.ast, ast.Assign) and any(isinstance(t, ast.Name) and t.id == "paged" for t in n.ast.targets) and isinstance(n.ast.value, ast.Constant) and n.ast.value.value is True]
        subs = [x for x in ast.walk(pi_.node) if isinstance(x, ast.Subscript) and isinstance(x.value, ast.Attribute) and x.value.attr == "taxon_namespace" and not isinstance(x.slice, ast.Constant)]
        if not sets or not subs:
            raise AnalysisError("R20.18: the paged mode of _parse_interleaved (paged = True / taxon_namespace[row]) was not recognised")

        def not_full(s, l, d):
            if s.kind == "test" and isinstance(s.ast, ast.Compare) and len(s.ast.ops) == 1 and l == "t":
                a, b = norm(s.ast.left), norm(s.ast.comparators[0])
                for x, y in ((a, b), (b, a)):
                    if x.startswith("len(") and "taxon_namespace" in x and "ntax" in y.lower() and isinstance(s.ast.ops[0], (ast.Eq, ast.GtE) if x == a else (ast.Eq, ast.LtE)):
                        return False
            return True
        seen = g.reach([g.entry], follow_exc=False, edge_ok=not_full)
        for n in sets:
            rep.check(n not in seen, "R20.18", pi_.qualname, "paged mode entered without the namespace being full", fn_where(pi_, n.ast), "_parse_interleaved: paged = True only when len(taxon_namespace) == ntax",
                      "PhylipReader._parse_interleaved sets `paged = True` on a path that has not established that the namespace holds NTAX taxa: rows of the following pages are looked up as `taxon_namespace[row]`, and when the first page repeated a label the namespace is shorter than NTAX - the look-up raises IndexError instead of the reader's own parse error")

    # ---- R20.19 an annotation is not its value
    with rep.section("R20.19"):
        rep.rule("R20.19", "an annotation is not its value: on a name bound from `<obj>.annotations.find(...)` / `.add_new(...)` the readers use only attributes that the Annotation class has (the stored list is `.value`) - calling a list method on the Annotation itself raises AttributeError the second time a document is read into the same data set")
        AN = index.klass("dendropy.datamodel.basemodel.Annotation")
        an_attrs = set()
        for k in index.mro(AN):
            an_attrs |= set(k.methods) | set(k.class_attrs)
            for f in k.methods.values():
                an_attrs |= {w.attr for w in writes_in(f.node) if w.base is not None and norm(w.base) == "self"}
        if "value" not in an_attrs:
            raise AnalysisError("R20.19: the Annotation class no longer has a `value`")
        n19 = 0
        for m in sorted(index.modules):
            if not m.startswith("dendropy.dataio"):
                continue
            for fi in index.functions_in_module(m):
                names = {}
                for st in walk_no_nested(fi.node):
                    if isinstance(st, ast.Assign) and len(st.targets) == 1 and isinstance(st.targets[0], ast.Name) and isinstance(st.value, ast.Call) and call_name(st.value) in ("find", "add_new", "add_bound_attribute", "add_citation") \
                            and isinstance(st.value.func, ast.Attribute) and norm(st.value.func.value).endswith("annotations"):
                        names.setdefault(st.targets[0].id, []).append(st)
                others = {t.id for st in walk_no_nested(fi.node) if isinstance(st, ast.Assign) for t in st.targets if isinstance(t, ast.Name)}
                for x in walk_no_nested(fi.node):
                    if isinstance(x, ast.Attribute) and isinstance(x.value, ast.Name) and x.value.id in names:
                        # the name is bound to annotations only
                        allb = [st for st in walk_no_nested(fi.node) if isinstance(st, ast.Assign) and any(isinstance(t, ast.Name) and t.id == x.value.id for t in st.targets)]
                        if len(allb) != len(names[x.value.id]):
                            continue
                        n19 += 1
                        rep.check(x.attr in an_attrs, "R20.19", fi.qualname, "`%s` used on an Annotation" % norm(x), fn_where(fi, x), "%s: %s is an attribute of Annotation" % (fi.name, norm(x)),
                                  "%s uses `%s`, but `%s` is an Annotation (bound from `%s`) and Annotation has no attribute `%s` - the stored object is `%s.value`; the line raises AttributeError when an annotation of that name already exists, i.e. on the second read into the same data set" % (fi.qualname, norm(x), x.value.id, norm(names[x.value.id][0].value)[:60], x.attr, x.value.id))
        rep.floor("R20.19", "attribute uses on annotations found by name", 1, n19)

    # ---- R20.20 a block without a TITLE has no label to fold
    with rep.section("R20.20"):
        rep.rule("R20.20", "a block without a TITLE has no label to fold: in the NEXUS reader every `<x>.label.upper()` (or other string method on a label) is reachable only on a path that has established `<x>.label is not None`, as _get_taxon_namespace does - a LINK to a title while an untitled block of that kind exists otherwise raises AttributeError instead of the reader's UndefinedBlockError")
        n20 = 0
        for fi in index.functions_in_module("dendropy.dataio.nexusreader"):
            g = None
            for c in calls_in(fi.node):
                if isinstance(c.func, ast.Attribute) and c.func.attr in ("upper", "lower", "strip", "casefold", "startswith", "endswith", "split", "replace") and isinstance(c.func.value, ast.Attribute) and c.func.value.attr == "label":
                    x = norm(c.func.value)
                    n20 += 1
                    g = g or cfg_of(fi)
                    nd = node_of_ast(g, c)
                    if nd is None:
                        raise AnalysisError("R20.20: %s: `%s` not located in the flow graph" % (fi.qualname, norm(c)))

                    def unknown(s, l, d, x=x):
                        if s.kind == "test" and isinstance(s.ast, ast.Compare) and len(s.ast.ops) == 1 and norm(s.ast.left) == x and is_none(s.ast.comparators[0]):
                            if isinstance(s.ast.ops[0], ast.IsNot):
                                return l != "t"
                            if isinstance(s.ast.ops[0], ast.Is):
                                return l != "f"
                        if s.kind == "test" and norm(s.ast) == x:
                            return l != "t"
                        return True
                    seen = g.reach([g.entry], follow_exc=False, edge_ok=unknown)
                    rep.check(nd not in seen, "R20.20", fi.qualname, "`%s` without `%s is not None`" % (norm(c), x), fn_where(fi, c), "%s: %s only for a label that is set" % (fi.name, norm(c)),
                              "%s evaluates `%s` on a path that has not established `%s is not None`: a CHARACTERS / TREES block without a TITLE statement has the label None, so a `LINK ... = <title>` (or a corrupted TITLE keyword) makes the reader fail with AttributeError: 'NoneType' object has no attribute '%s' instead of its own UndefinedBlockError" % (fi.qualname, norm(c), x, c.func.attr))
        rep.floor("R20.20", "string methods applied to block labels", 3, n20)

    # ---- R20.21 a range whose end comes from the document is clamped to a declared dimension
    with rep.section("R20.21"):
        rep.rule("R20.21", "the work done for one token is bounded by the declared dimensions, not by a number in the text: where the NEXUS reader iterates range(start, stop, ...) and `stop` derives from int(<token>), the stop is clamped with min(..., <declared dimension>) - `charset x = 1-99999999999;` otherwise loops over the whole declared interval (testing each position against NCHAR one by one) and the reader practically never returns")
        n21 = 0
        for f in index.functions_in_module("dendropy.dataio.nexusreader"):
            for c in calls_in(f.node):
                if not (isinstance(c.func, ast.Name) and c.func.id == "range" and len(c.args) >= 2):
                    continue
                stop = c.args[1]
                names = {x.id for x in ast.walk(stop) if isinstance(x, ast.Name)}
                from_doc = {nm for nm in names if any(isinstance(a, ast.Assign) and norm(a.targets[0]) == nm and isinstance(a.value, ast.Call) and isinstance(a.value.func, ast.Name) and a.value.func.id == "int" for a in walk_no_nested(f.node))}
                if not from_doc:
                    continue
                n21 += 1
                # clamped: each document-derived name occurs only inside a min(...) that also has another operand, or was rebound by `x = min(x, ...)` before
                def clamped(nm):
                    inside = all(any(isinstance(p, ast.Call) and call_name(p) == "min" and len(p.args) >= 2 and any(q is x for q in ast.walk(p)) for p in ast.walk(stop)) for x in ast.walk(stop) if isinstance(x, ast.Name) and x.id == nm)
                    if inside:
                        return True
                    return any(isinstance(a, ast.Assign) and norm(a.targets[0]) == nm and isinstance(a.value, ast.Call) and call_name(a.value) == "min" and len(a.value.args) >= 2 and a.lineno < c.lineno for a in walk_no_nested(f.node))
                bad = sorted(nm for nm in from_doc if not clamped(nm))
                rep.check(not bad, "R20.21", f.qualname, "range() up to a number from the document", fn_where(f, c), "%s: `%s` is clamped" % (f.name, norm(c)[:50]),
                          "%s iterates `%s` where `%s` is an integer read from the document and is not clamped to a declared dimension: a position list such as `1-99999999999` makes the reader loop over the whole interval - it never terminates in practice although every position beyond NCHAR is going to be discarded anyway" % (f.qualname, norm(c)[:60], ", ".join(bad)))
        rep.floor("R20.21", "ranges bounded by a number from the document", 1, n21)

    # ---- R20.22 a repeated name in the document is the document's error
    with rep.section("R20.22"):
        rep.rule("R20.22", "a repeated name in the document is the document's error: where a Newick / NEXUS / PHYLIP / FASTA reader hands a name read from the text to a data-model method that refuses duplicates with ValueError (`if <key> in <container>: raise ValueError`, directly or through a one-line wrapper), the call is dominated by a membership test on that container or sits in a try that catches ValueError - otherwise `charset x = 1-2; charset x = 3-4;` reaches the caller as a bare ValueError")
        refusers = {}
        for m in sorted(index.modules):
            if not m.startswith("dendropy.datamodel"):
                continue
            for fi in index.functions_in_module(m):
                if fi.name.startswith("__"):
                    continue
                for st in walk_no_nested(fi.node):
                    if isinstance(st, ast.If) and isinstance(st.test, ast.Compare) and len(st.test.ops) == 1 and isinstance(st.test.ops[0], ast.In) \
                            and any(isinstance(b, ast.Raise) and b.exc is not None and "ValueError" in norm(b.exc) for b in st.body):
                        cont = norm(st.test.comparators[0])
                        refusers.setdefault(fi.name, set()).add(cont.split(".")[-1])
        # one-hop wrappers: a data-model method that hands its arguments on to a refuser of the same class
        for m in sorted(index.modules):
            if not m.startswith("dendropy.datamodel"):
                continue
            for fi in index.functions_in_module(m):
                if fi.name in refusers or fi.name.startswith("__"):
                    continue
                for c in calls_in(fi.node):
                    if call_name(c) in refusers and isinstance(c.func, ast.Attribute) and norm(c.func.value) == "self":
                        refusers.setdefault(fi.name, set()).update(refusers[call_name(c)])
        if len(refusers) < 3:
            raise AnalysisError("R20.22: the duplicate-refusing methods of the data model were not recognised (%s)" % sorted(refusers))
        n22 = 0
        for m in ("dendropy.dataio.nexusreader", "dendropy.dataio.newickreader", "dendropy.dataio.phylipreader", "dendropy.dataio.fastareader", "dendropy.dataio.nexusyielder", "dendropy.dataio.newickyielder"):
            for fi in index.functions_in_module(m):
                pm = None
                for c in calls_in(fi.node, nested=True):
                    if not (call_name(c) in refusers and isinstance(c.func, ast.Attribute)):
                        continue
                    n22 += 1
                    conts = refusers[call_name(c)]
                    pm = pm or parent_map(fi.node)
                    ok = _in_try_catching(pm, c, {"ValueError", "Exception", "BaseException"})
                    if not ok:
                        g = cfg_of(fi)
                        nd = node_of_ast(g, c)

                        def member_test(s):
                            return s.kind == "test" and isinstance(s.ast, ast.Compare) and len(s.ast.ops) == 1 and isinstance(s.ast.ops[0], (ast.In, ast.NotIn)) \
                                and (norm(s.ast.comparators[0]).split(".")[-1] in conts or norm(s.ast.comparators[0]) == norm(c.func.value))
                        ok = nd is not None and any(member_test(s) for s in g.nodes) and g.dominated_by(nd, member_test, follow_exc=False)
                    rep.check(ok, "R20.22", fi.qualname, "`%s` can refuse a repeated name with ValueError" % norm(c.func), fn_where(fi, c), "%s: %s is guarded" % (fi.name, norm(c.func)),
                              "%s calls `%s` with a name taken from the document; the method raises ValueError when the name is already in `%s`, and nothing between the tokenizer and this call tests for that or catches it - a document that defines the same name twice is answered with a bare ValueError from inside the data model instead of a data-parse error pointing at the line" % (fi.qualname, norm(c)[:60], "/".join(sorted(conts))))
        rep.floor("R20.22", "reader calls into duplicate-refusing methods", 2, n22)

    # ---- R20.23 a token that becomes a label was really read
    with rep.section("R20.23"):
        rep.rule("R20.23", "a token that becomes a taxon label was really read: next_token() answers None at the end of the stream, so where the NEXUS / Newick readers hand a token to require_taxon / new_taxon / get_taxon / add_translate_token it comes from require_next_token() (which raises the end-of-stream parse error) or a test of the token for None / emptiness lies between the read and the use - a TRANSLATE statement cut short otherwise creates a taxon labelled None and returns normally")
        n23 = 0
        SINKS = {"require_taxon": ("label", 0), "new_taxon": ("label", 0), "get_taxon": ("label", 0), "add_translate_token": (None, 0)}
        for m in ("dendropy.dataio.nexusreader", "dendropy.dataio.newickreader", "dendropy.dataio.nexusyielder", "dendropy.dataio.newickyielder"):
            for fi in index.functions_in_module(m):
                g = None
                for c in calls_in(fi.node):
                    if call_name(c) not in SINKS or not isinstance(c.func, ast.Attribute):
                        continue
                    kwn, pos = SINKS[call_name(c)]
                    argv = []
                    if kwn and get_kwarg(c, kwn) is not None:
                        argv.append(get_kwarg(c, kwn))
                    elif len(c.args) > pos:
                        argv.append(c.args[pos])
                    if call_name(c) == "add_translate_token" and len(c.args) > 0:
                        argv = [c.args[0]]
                    for a in argv:
                        if not isinstance(a, ast.Name):
                            continue
                        g = g or cfg_of(fi)
                        nd = node_of_ast(g, c)
                        if nd is None:
                            continue
                        soft = [d for d in g.nodes if isinstance(d.ast, ast.Assign) and any(isinstance(t, ast.Name) and t.id == a.id for t in d.ast.targets) and isinstance(d.ast.value, ast.Call)
                                and call_name(d.ast.value) in ("next_token", "next_token_ucase") and "tokenizer" in norm(d.ast.value.func.value)]
                        anyread = [d for d in g.nodes if isinstance(d.ast, ast.Assign) and any(isinstance(t, ast.Name) and t.id == a.id for t in d.ast.targets) and isinstance(d.ast.value, ast.Call)
                                   and "next_token" in call_name(d.ast.value)]
                        if anyread:
                            n23 += 1
                        if not soft:
                            if anyread:
                                rep.ob("R20.23", fn_where(fi, c), "%s: %s is read with require_next_token() before %s" % (fi.name, a.id, call_name(c)), True)
                            continue

                        def tested(s, nm=a.id):
                            if s.kind != "test":
                                return False
                            t = s.ast
                            if isinstance(t, ast.Name) and t.id == nm:
                                return True
                            return isinstance(t, ast.Compare) and len(t.ops) == 1 and isinstance(t.ops[0], (ast.Is, ast.IsNot)) and norm(t.left) == nm and is_none(t.comparators[0])

                        def redefined(s, nm=a.id):
                            return isinstance(s.ast, ast.Assign) and any(isinstance(t, ast.Name) and t.id == nm for t in s.ast.targets)
                        bad = [d for d in soft if g.can_reach(d, lambda x: x is nd, avoid=lambda x: tested(x) or redefined(x), follow_exc=False) is not None]
                        rep.check(not bad, "R20.23", fi.qualname, "`%s` may be None when it reaches %s" % (a.id, call_name(c)), fn_where(fi, c), "%s: %s is required or tested before %s" % (fi.name, a.id, call_name(c)),
                                  "%s reads `%s` with `%s` - None at the end of the stream - and hands it to `%s` without a test: a document cut off inside the statement makes the reader create (or look up) a taxon whose label is None and carry on, instead of raising the end-of-stream parse error that require_next_token() gives" % (fi.qualname, a.id, norm(bad[0].ast.value)[:50] if bad else "", norm(c)[:60]))
        rep.floor("R20.23", "tokens used as labels", 2, n23)

    # ---- R20.24 the alphabet a matrix is read with has symbols
    with rep.section("R20.24"):
        rep.rule("R20.24", "the alphabet a matrix is read with has symbols: a StateAlphabet built from an empty symbol string never compiles its look-up maps (full_symbol_state_map stays None), so where the NEXUS reader builds the alphabet of a standard-type block from the symbols collected so far, the symbol string is either given a non-empty default (`<symbols> or \"...\"`) or tested for emptiness first - a DATA block without a FORMAT statement (or with SYMBOLS=\"\") otherwise fails with TypeError: 'NoneType' object is not subscriptable on its first cell")
        n24 = 0
        for fi in index.functions_in_module("dendropy.dataio.nexusreader"):
            for c in calls_in(fi.node):
                if call_name(c) != "_build_state_alphabet" or len(c.args) < 2:
                    continue
                n24 += 1
                a = c.args[1]
                ok = isinstance(a, ast.BoolOp) and isinstance(a.op, ast.Or) and isinstance(a.values[-1], ast.Constant) and isinstance(a.values[-1].value, str) and len(a.values[-1].value) > 0
                if not ok:
                    g = cfg_of(fi)
                    nd = node_of_ast(g, c)
                    txt = norm(a)

                    def maybe_empty(s, l, d, txt=txt):
                        # follow only edges on which the symbol string may still be empty
                        if s.kind == "test" and norm(s.ast) == txt:
                            return l == "f"
                        if s.kind == "test" and isinstance(s.ast, ast.Compare) and len(s.ast.ops) == 1 and norm(s.ast.left) in (txt, "len(%s)" % txt):
                            return True
                        return True
                    has = any(s.kind == "test" and norm(s.ast) == txt for s in g.nodes)
                    ok = has and nd is not None and nd not in g.reach([g.entry], follow_exc=False, edge_ok=maybe_empty)
                rep.check(ok, "R20.24", fi.qualname, "alphabet built from a symbol string that may be empty", fn_where(fi, c), "%s: the symbols handed to _build_state_alphabet cannot be empty" % fi.name,
                          "%s builds the block's state alphabet from `%s`, which is still empty when the block has no FORMAT statement (the reader starts with no symbols and fills them only on DATATYPE= / SYMBOLS=): an alphabet without fundamental states never compiles its symbol map, and the first cell of the matrix raises TypeError: 'NoneType' object is not subscriptable from inside _read_character_states" % (fi.qualname, norm(a)))
        rep.floor("R20.24", "alphabets built from collected symbols", 1, n24)

    # ---- R20.25 recursion on the document's nesting is fenced
    with rep.section("R20.25"):
        rep.rule("R20.25", "recursion on the document's nesting is fenced: a Newick / NEXUS reader method that calls itself once per nesting level of the text is entered, from its non-recursive caller, inside a try that catches RecursionError and raises an error of the reader's own family - `(((( ... ))))` nested a few thousand deep otherwise ends in a bare RecursionError from inside the library")
        n25 = 0
        for m in ("dendropy.dataio.newickreader", "dendropy.dataio.nexusreader", "dendropy.dataio.newickyielder", "dendropy.dataio.nexusyielder", "dendropy.dataio.phylipreader", "dendropy.dataio.fastareader"):
            fns = index.functions_in_module(m)
            rec = [f for f in fns if any(call_name(c) == f.name and isinstance(c.func, ast.Attribute) and norm(c.func.value) == "self" for c in calls_in(f.node))]
            for f in rec:
                for caller in fns:
                    if caller is f:
                        continue
                    pm = None
                    for c in calls_in(caller.node):
                        if call_name(c) == f.name and isinstance(c.func, ast.Attribute):
                            n25 += 1
                            pm = pm or parent_map(caller.node)
                            ok = _in_try_catching(pm, c, {"RecursionError", "RuntimeError"})
                            if ok:
                                # the handler raises one of the reader's own errors
                                cur = c
                                while cur is not None and not (isinstance(pm.get(cur), ast.Try) and cur in pm.get(cur).body):
                                    cur = pm.get(cur)
                                tr = pm.get(cur) if cur is not None else None
                                hs = [h for h in (tr.handlers if tr is not None else []) if h.type is not None and any(getattr(t, "id", getattr(t, "attr", None)) in ("RecursionError", "RuntimeError") for t in (h.type.elts if isinstance(h.type, ast.Tuple) else [h.type]))]
                                ok = bool(hs) and all(any(isinstance(x, ast.Raise) and x.exc is not None for x in ast.walk(h)) for h in hs)
                            rep.check(ok, "R20.25", caller.qualname, "`%s` entered without a RecursionError fence" % f.name, fn_where(caller, c), "%s enters %s inside a RecursionError handler" % (caller.name, f.name),
                                      "%s calls the recursive `%s` (one Python frame per nesting level of the text) outside any handler for RecursionError: a statement nested deeper than the interpreter's recursion limit - `(` repeated 3000 times - is answered with a bare RecursionError from inside the library instead of a data-parse error" % (caller.qualname, f.name))
        rep.floor("R20.25", "entries into recursive reader methods", 1, n25)

    # ---- R20.26 a piece of the document may be empty
    with rep.section("R20.26"):
        rep.rule("R20.26", "a piece of the document may be empty: in the reader-side modules a name bound to text taken from the input (the result of .strip() / .group() / a tokenizer read / readline) is not subscripted with a constant index unless a test of that name (truthiness, len(), startswith / endswith) dominates the subscript - `val[0]` on a metadata value that is only white space is an IndexError from inside the library")
        STRSRC = ("strip", "lstrip", "rstrip", "group", "readline", "next_token", "next_token_ucase", "require_next_token", "require_next_token_ucase")
        nstr = nsub = 0
        for m in ("dendropy.dataio.nexusprocessing", "dendropy.dataio.nexusreader", "dendropy.dataio.newickreader", "dendropy.dataio.phylipreader", "dendropy.dataio.fastareader", "dendropy.dataio.tokenizer", "dendropy.dataio.nexusyielder", "dendropy.dataio.newickyielder"):
            for fi in index.functions_in_module(m):
                strs = set()
                for st in ast.walk(fi.node):
                    if isinstance(st, ast.Assign) and isinstance(st.value, ast.Call) and isinstance(st.value.func, ast.Attribute) and st.value.func.attr in STRSRC:
                        strs |= {t.id for t in st.targets if isinstance(t, ast.Name)}
                nstr += len(strs)
                if not strs:
                    continue
                g = None
                for x in ast.walk(fi.node):
                    if isinstance(x, ast.Subscript) and isinstance(x.value, ast.Name) and x.value.id in strs and isinstance(x.slice, ast.Constant) and isinstance(x.slice.value, int) and isinstance(x.ctx, ast.Load):
                        nsub += 1
                        g = g or cfg_of(fi)
                        nd = node_of_ast(g, x)
                        nm = x.value.id

                        def tested(n, nm=nm):
                            if n.kind != "test":
                                return False
                            t = n.ast
                            if isinstance(t, ast.Name) and t.id == nm:
                                return True
                            return any((isinstance(c, ast.Call) and call_name(c) in ("len", "startswith", "endswith") and nm in norm(c)) for c in ast.walk(t))
                        ok = nd is not None and g.dominated_by(nd, tested, follow_exc=False)
                        # the very test that contains the subscript does not count for itself, but an earlier operand of the same `and` chain does (expanded by the CFG)
                        rep.check(ok, "R20.26", fi.qualname, "`%s` on text that may be empty" % norm(x), fn_where(fi, x), "%s: `%s` follows a test of `%s`" % (fi.name, norm(x), nm),
                                  "%s evaluates `%s`, and `%s` is text cut out of the document (stripped, matched or read as a token) that can be empty: a metadata comment such as `[&rate = ]` leaves an empty value, and the subscript raises IndexError from inside the library instead of a data-parse error or a tree without that annotation" % (fi.qualname, norm(x), nm))
        rep.floor("R20.26", "names bound to text taken from the document", 20, nstr)
        rep.ob("R20.26", "src/dendropy/dataio", "%d constant subscripts of such names examined" % nsub, True)

    # ---- R20.27 a sentinel loop reads with the reader that notices the end of the stream
    with rep.section("R20.27"):
        rep.rule("R20.27", "a loop that reads tokens up to a sentinel uses the reader that notices the end of the stream: `iter(<tokenizer>.next_token..., <sentinel>)` is not built on the non-raising getters (next_token / next_token_ucase answer None for ever once the stream is exhausted, so the sentinel never comes and a document cut off inside the statement spins the reader for ever)")
        n27 = 0
        for m in ("dendropy.dataio.nexusreader", "dendropy.dataio.newickreader", "dendropy.dataio.nexusyielder", "dendropy.dataio.newickyielder", "dendropy.dataio.nexusprocessing", "dendropy.dataio.phylipreader", "dendropy.dataio.fastareader"):
            for fi in index.functions_in_module(m):
                for c in calls_in(fi.node, nested=True):
                    if isinstance(c.func, ast.Name) and c.func.id == "iter" and len(c.args) == 2:
                        n27 += 1
                        a0 = c.args[0]
                        soft = isinstance(a0, ast.Attribute) and a0.attr in ("next_token", "next_token_ucase", "readline", "read")
                        rep.check(not soft, "R20.27", fi.qualname, "sentinel loop over `%s`" % norm(a0)[:50], fn_where(fi, c), "%s: %s" % (fi.name, norm(c)[:50]),
                                  "%s loops with `%s`: `%s` does not raise at the end of the stream, it returns None (or '') every time it is asked, so when the document ends before the sentinel the loop never terminates - every prefix of a valid document that stops inside this statement hangs the reader" % (fi.qualname, norm(c)[:60], norm(a0)[:40]))
        rep.ob("R20.27", "src/dendropy/dataio", "%d two-argument iter() calls in the readers examined" % n27, True)

    # ---- R20.28 NCHAR belongs to the characters block that declared it
    with rep.section("R20.28"):
        rep.rule("R20.28", "NCHAR belongs to the characters block that declared it: `_file_specified_nchar` is reset to None at the start of every CHARACTERS / DATA block and set by that block's DIMENSIONS, so it is read only by routines the characters-block parser reaches (the matrix statement and its row readers). A statement of another block - CHARSET in a SETS block - that used it as its yardstick would compare positions with None (TypeError, an internal error, when the last characters block had no DIMENSIONS) or with the width of the wrong matrix; it measures against the matrix it is linked to")
        NRQ = "dendropy.dataio.nexusreader.NexusReader"
        nrk = index.klass(NRQ)
        start = nrk.methods.get("_parse_characters_data_block")
        if start is None:
            raise AnalysisError("R20.28: NexusReader._parse_characters_data_block is gone")
        reach, work = set(), [start]
        while work:
            f_ = work.pop()
            if f_.qualname in reach:
                continue
            reach.add(f_.qualname)
            for c in calls_in(f_.node, nested=True):
                if isinstance(c.func, ast.Attribute) and norm(c.func.value) == "self" and c.func.attr in nrk.methods:
                    work.append(nrk.methods[c.func.attr])
        n28 = 0
        for mname, mf in sorted(nrk.methods.items()):
            reads = [x for x in ast.walk(mf.node) if isinstance(x, ast.Attribute) and x.attr == "_file_specified_nchar" and isinstance(x.ctx, ast.Load)]
            if not reads:
                continue
            n28 += 1
            rep.check(mf.qualname in reach, "R20.28", mf.qualname, "NCHAR of the last characters block used outside it", fn_where(mf, reads[0]), "%s is part of the characters-block parser" % mname,
                      "NexusReader.%s reads `self._file_specified_nchar` but is not reached from the characters-block parser: the field holds the NCHAR of the LAST characters block (None when that block had no DIMENSIONS) - `BEGIN CHARACTERS; END; BEGIN SETS; CHARSET x = 1-3; END;` after a complete DATA block fails with TypeError ('<' between NoneType and int), and with two matrices a CHARSET linked to the first is clipped to the width of the second" % mname)
        rep.floor("R20.28", "readers of _file_specified_nchar", 4, n28)

    # ---- R20.29 a position from the document is checked at both ends
    with rep.section("R20.29"):
        rep.rule("R20.29", "a position from the document is checked at both ends: where NexusReader._parse_positions refuses a position above the matrix's width, it also refuses one below 1 (a raising comparison of the same variable with 0 or 1) - positions are 1-based in the document and are shifted down by one afterwards, so an unchecked 0 becomes the index -1 and the set silently points at the LAST column")
        pp = index.function("dendropy.dataio.nexusreader.NexusReader._parse_positions")
        g29 = cfg_of(pp)
        upper, lower = [], []
        for nd in g29.nodes:
            if nd.kind != "test" or not isinstance(nd.ast, ast.Compare) or len(nd.ast.ops) != 1:
                continue
            if raises_in_branch(g29, nd, "t") is None and raises_in_branch(g29, nd, "f") is None:
                continue
            l_, op_, r_ = nd.ast.left, nd.ast.ops[0], nd.ast.comparators[0]
            for a_, b_, flip in ((l_, r_, False), (r_, l_, True)):
                if not isinstance(a_, ast.Name):
                    continue
                gt = isinstance(op_, (ast.Gt, ast.GtE)) != flip and isinstance(op_, (ast.Gt, ast.GtE, ast.Lt, ast.LtE))
                lt = isinstance(op_, (ast.Lt, ast.LtE)) != flip and isinstance(op_, (ast.Gt, ast.GtE, ast.Lt, ast.LtE))
                if gt and "max" in norm(b_):
                    upper.append((a_.id, nd))
                if lt and isinstance(b_, ast.Constant) and b_.value in (0, 1):
                    lower.append((a_.id, nd))
        if not upper:
            raise AnalysisError("R20.29: the upper-bound refusal in _parse_positions not recognised")
        for vn, nd in upper:
            rep.check(any(v2 == vn for v2, _ in lower), "R20.29", pp.qualname, "position checked against the upper bound only", fn_where(pp, nd.stmt), "_parse_positions refuses `%s` below 1 as well as above the width" % vn,
                      "NexusReader._parse_positions refuses `%s` but never a position below 1: `CHARSET x = 0;` is accepted, shifted to the index -1, and the character set silently selects the last column of the matrix" % norm(nd.ast)[:50])

    # ---- R20.30 a count is compared with its declared limit on the right side of the boundary
    with rep.section("R20.30"):
        rep.rule("R20.30", "a count is compared with its declared limit on the right side of the boundary: where a loop of the NEXUS reader refuses (raises) when a counter it increments itself has reached a dimension the document declared (`self._file_specified_ntax` / `_nchar`), the test matches the place of the increment - tested BEFORE the item is accepted and counted, the refusal is `count >= limit`; a bare `>` lets exactly one item too many through, and a TAXLABELS statement with NTAX+1 labels (then a MATRIX with NTAX+1 rows) is accepted against its own DIMENSIONS")
        n30 = 0
        for f in index.functions_in_module("dendropy.dataio.nexusreader"):
            g30 = None
            for loop in [l for l in ast.walk(f.node) if isinstance(l, (ast.While, ast.For))]:
                incs = {}
                for st in ast.walk(loop):
                    if isinstance(st, ast.AugAssign) and isinstance(st.op, ast.Add) and isinstance(st.target, ast.Name) and isinstance(st.value, ast.Constant) and st.value.value == 1:
                        incs.setdefault(st.target.id, []).append(st)
                if not incs:
                    continue
                for cmp_ in [x for x in ast.walk(loop) if isinstance(x, ast.Compare) and len(x.ops) == 1 and isinstance(x.ops[0], (ast.Gt, ast.GtE, ast.Lt, ast.LtE))]:
                    l_, r_ = cmp_.left, cmp_.comparators[0]
                    for cnt, lim, flip in ((l_, r_, False), (r_, l_, True)):
                        if isinstance(cnt, ast.Name) and cnt.id in incs and isinstance(lim, ast.Attribute) and lim.attr.startswith("_file_specified_"):
                            g30 = g30 or cfg_of(f)
                            tn = [nd for nd in g30.nodes if nd.kind == "test" and nd.ast is not None and any(y is cmp_ for y in ast.walk(nd.ast))]
                            if not tn or (raises_in_branch(g30, tn[0], "t") is None and raises_in_branch(g30, tn[0], "f") is None):
                                continue
                            n30 += 1
                            before = all(cmp_.lineno < i_.lineno for i_ in incs[cnt.id])
                            after = all(cmp_.lineno > i_.lineno for i_ in incs[cnt.id])
                            op = type(cmp_.ops[0])
                            strict = (op is ast.Gt and not flip) or (op is ast.Lt and flip)        # count > limit
                            inclusive = (op is ast.GtE and not flip) or (op is ast.LtE and flip)   # count >= limit
                            ok30 = (before and inclusive) or (after and strict) or not (before or after)
                            rep.check(ok30, "R20.30", f.qualname, "limit test on the wrong side of the boundary", fn_where(f, cmp_), "%s: `%s` matches the place of the increment" % (f.name, norm(cmp_)[:50]),
                                      "%s refuses on `%s` but increments `%s` %s that test: %s - `DIMENSIONS NTAX=2; TAXLABELS a b c;` is accepted, and so is the three-row matrix that follows, against the dimensions the document declares" % (f.qualname, norm(cmp_)[:60], cnt.id, "AFTER" if before else "BEFORE", "one item more than the declared number passes before the refusal" if before else "the last declared item is refused"))
        rep.floor("R20.30", "raising comparisons of a loop counter with a declared dimension", 1, n30)


def _branch_calls_raiser(cfg, n):
    for lab, t in n.succ:
        if lab in ("t", "f") and t.kind == "stmt":
            for c in node_calls(t):
                if call_name(c) in ("_taxon_error",):
                    return True
    return False


def _in_try_catching(pm, node, names):
    cur = node
    while cur is not None:
        p = pm.get(cur)
        if isinstance(p, ast.Try) and cur in p.body:
            for h in p.handlers:
                if h.type is None:
                    return True
                ts = h.type.elts if isinstance(h.type, ast.Tuple) else [h.type]
                for t in ts:
                    nm = t.id if isinstance(t, ast.Name) else getattr(t, "attr", None)
                    if nm in names:
                        return True
        cur = p
    return False


def _raise_ok(index, fi, r, pm):
    if r.exc is None:
        return True, "re-raise"
    exc = r.exc
    # `raise exc` where exc was built by a factory
    if isinstance(exc, ast.Name):
        defs = [d for d in walk_no_nested(fi.node) if isinstance(d, ast.Assign) and any(isinstance(t, ast.Name) and t.id == exc.id for t in d.targets)]
        if defs:
            exc = defs[-1].value
        else:
            # except X as e: raise e / parameters
            return True, "re-raise of `%s`" % exc.id
    target = exc.func if isinstance(exc, ast.Call) else exc
    # factory methods: self._xxx_error(...)
    if isinstance(target, ast.Attribute) and isinstance(target.value, ast.Name) and target.value.id == "self" and fi.cls is not None:
        m = index.find_method(fi.cls, target.attr)
        if m is not None:
            classes = []
            for n in walk_no_nested(m.node):
                if isinstance(n, ast.Call):
                    c = index.resolve_expr(m.module, n.func)
                    if hasattr(c, "methods"):
                        classes.append(c)
            if classes and all(index.is_subclass(c, DPE) for c in classes):
                return True, "%s() -> %s" % (target.attr, classes[0].name)
            # the factory instantiates a local / parameter that only ever holds DataParseError subclasses
            rets = [n.value for n in walk_no_nested(m.node) if isinstance(n, ast.Return) and n.value is not None]
            ctor_names = set()
            for rv in rets:
                cur = rv
                if isinstance(cur, ast.Name):
                    ds = [d.value for d in walk_no_nested(m.node) if isinstance(d, ast.Assign) and norm(d.targets[0]) == cur.id]
                    cur = ds[-1] if ds else cur
                if isinstance(cur, ast.Call) and isinstance(cur.func, ast.Name):
                    ctor_names.add(cur.func.id)
            for cn in ctor_names:
                vals = [d.value for d in walk_no_nested(m.node) if isinstance(d, ast.Assign) and norm(d.targets[0]) == cn]
                if cn in m.all_params or vals:
                    cls_ok = []
                    for v in vals:
                        c = index.resolve_expr(m.module, v)
                        cls_ok.append(hasattr(c, "methods") and index.is_subclass(c, DPE))
                    if all(cls_ok):
                        return True, "%s() -> DataParseError family" % target.attr
            return False, "%s() (unrecognised factory)" % target.attr
    c = index.resolve_expr(fi.module, target)
    name = norm(target)
    if hasattr(c, "methods"):
        if index.is_subclass(c, DPE):
            return True, c.name
        if c.name in INTERNAL_CONTROL:
            return True, c.name + " (internal control flow)"
        return False, c.qualname
    base = name.rsplit(".", 1)[-1]
    if base in INTERNAL_CONTROL:
        return True, base + " (internal control flow)"
    if base == "ValueError" and _in_try_catching(pm, r, ("ValueError",)):
        return True, "ValueError caught and converted by the enclosing handler"
    return False, name


def _sccs(edges):
    """strongly connected components with a cycle (Tarjan)."""
    idx = {}
    low = {}
    stack = []
    on = set()
    out = []
    counter = [0]
    import sys
    sys.setrecursionlimit(10000)

    def visit(v):
        idx[v] = low[v] = counter[0]
        counter[0] += 1
        stack.append(v)
        on.add(v)
        for w in edges.get(v, ()):
            if w not in idx:
                visit(w)
                low[v] = min(low[v], low[w])
            elif w in on:
                low[v] = min(low[v], idx[w])
        if low[v] == idx[v]:
            comp = []
            while True:
                w = stack.pop()
                on.discard(w)
                comp.append(w)
                if w == v:
                    break
            if len(comp) > 1 or v in edges.get(v, ()):
                out.append(set(comp))
    for v in list(edges):
        if v not in idx:
            visit(v)
    return out
