"""C08 Pruning, retaining and extracting yield exactly the induced subtree."""
import ast

from .common import *  # noqa

TREE = "dendropy.datamodel.treemodel._tree.Tree"
NODE = "dendropy.datamodel.treemodel._node.Node"
FAMILY = [
    TREE + ".prune_taxa", TREE + ".prune_taxa_with_labels", TREE + ".retain_taxa", TREE + ".retain_taxa_with_labels",
    TREE + ".filter_leaf_nodes", TREE + ".prune_subtree", TREE + ".prune_leaves_without_taxa", TREE + ".prune_nodes",
    TREE + ".extract_tree", TREE + ".extract_tree_with_taxa", TREE + ".extract_tree_with_taxa_labels",
    TREE + ".extract_tree_without_taxa", TREE + ".extract_tree_without_taxa_labels", NODE + ".extract_subtree",
]
EXTRACTORS = [q for q in FAMILY if "extract" in q]
STRUCT_MUTATORS = ("add_child", "insert_child", "remove_child", "set_child_nodes", "set_children", "clear_child_nodes",
                   "new_child", "collapse", "invert", "reversible_remove_child", "suppress_unifurcations", "reseed_at",
                   "encode_bipartitions", "update_bipartitions", "prune_subtree", "collapse_clade", "collapse_neighborhood")
# parameters accepted but deliberately not read, one reason each
UNUSED_EXEMPT = {}


def run(index, rep, tier):
    rep.rule("R08.1", "every documented parameter of the pruning/extraction family is read (forwarded or acted on); a parameter never read in the body is behaviour silently dropped")
    rep.rule("R08.2", "extraction never writes the source: no store, delete or mutator call is rooted at the source tree/node or anything iterated from it")
    rep.rule("R08.3", "the list returned as 'removed nodes' is extended by exactly the per-round lists whose every element is passed to remove_child")
    rep.rule("R08.4", "suppress_unifurcations flag: suppression runs (or the flag is forwarded) on every path where it is truthy and never where it is falsy")
    rep.rule("R08.5", "thin clone: the clone receives label, taxon, edge.length, edge.label and the back-reference from the source node, nothing else")

    # ---- R08.1
    with rep.section("R08.1"):
        nparams = 0
        for q in FAMILY:
            fi = index.function(q)
            un = set(unused_params(fi))
            for p in fi.all_params:
                if p in ("self", "cls") or p in (fi.kwarg, fi.vararg):
                    continue
                nparams += 1
                ok = p not in un or (q, p) in UNUSED_EXEMPT
                rep.check(ok, "R08.1", fi.qualname, "parameter %s never read" % p, fn_where(fi),
                          "%s(%s=...) is read in the body" % (fi.name, p),
                          "%s accepts `%s` but never reads it: the documented option is silently ignored (e.g. suppression happens although declined)" % (fi.qualname, p))
        rep.floor("R08.1", "parameters of the pruning/extraction family", 40, nparams)

    # ---- R08.2
    with rep.section("R08.2"):
        for q in EXTRACTORS:
            fi = index.function(q)
            t = tainted_names(fi, ["self"])
            bad = writes_rooted_at(fi, t, STRUCT_MUTATORS)
            # the clone-side names must not be tainted: report what was considered source-side
            if not bad:
                rep.ob("R08.2", fn_where(fi), "%s: no write rooted at source-side names %s" % (fi.name, sorted(t)), True)
            for b in bad:
                rep.check(False, "R08.2", fi.qualname, norm(b)[:120], fn_where(fi, b), "write rooted at source in " + fi.name,
                          "%s writes through `%s`, which is (reached from) the SOURCE tree: extraction must leave the source untouched" % (fi.qualname, norm(b)[:100]))

    # ---- R08.3
    with rep.section("R08.3"):
        for name in ("filter_leaf_nodes", "prune_leaves_without_taxa"):
            fi = index.function(TREE + "." + name)
            rets = [n for n in walk_no_nested(fi.node) if isinstance(n, ast.Return) and n.value is not None]
            if len(rets) != 1 or not isinstance(rets[0].value, ast.Name):
                raise AnalysisError("R08.3: %s does not return a single local list" % name)
            R = rets[0].value.id
            feeds = []
            for n in walk_no_nested(fi.node):
                if isinstance(n, ast.AugAssign) and norm(n.target) == R:
                    feeds.append((n, n.value))
                elif isinstance(n, ast.Call) and isinstance(n.func, ast.Attribute) and norm(n.func.value) == R and n.func.attr in ("extend", "append"):
                    feeds.append((n, n.args[0] if n.args else None))
            rep.check(len(feeds) == 1 and isinstance(feeds[0][1], ast.Name), "R08.3", fi.qualname, "feeds of %s: %s" % (R, [norm(f[0])[:50] for f in feeds]),
                      fn_where(fi), "%s: returned list `%s` is extended from exactly one per-round list" % (name, R),
                      "%s builds its returned 'removed' list from %s: it is not exactly the per-round removal lists" % (fi.qualname, [norm(f[0])[:50] for f in feeds]))
            if len(feeds) != 1 or not isinstance(feeds[0][1], ast.Name):
                continue
            L = feeds[0][1].id
            loops = [f for f in walk_no_nested(fi.node) if isinstance(f, ast.For) and norm(f.iter) == L]
            ok = False
            msg = "no loop removes the nodes of `%s`" % L
            for f in loops:
                var = norm(f.target)
                for s in f.body:
                    if isinstance(s, ast.Expr) and isinstance(s.value, ast.Call) and call_name(s.value) == "remove_child" \
                            and s.value.args and norm(s.value.args[0]) == var:
                        ok = True
                if not ok:
                    msg = "the loop over `%s` does not unconditionally call remove_child on each element" % L
            rep.check(ok, "R08.3", fi.qualname, "removal loop over " + L, fn_where(fi, loops[0] if loops else None),
                      "%s: every node of `%s` is passed to remove_child in the same round" % (name, L), "%s: %s" % (fi.qualname, msg))
            # the feed must not be conditional on something other than the list being non-empty, and sits in the same loop
            feed = feeds[0][0]
            cfg = cfg_of(fi)
            fn_nodes = [n for n in cfg.nodes if n.stmt is feed or (isinstance(n.stmt, ast.Expr) and n.stmt.value is feed)]
            rm_nodes = [n for n in cfg.nodes if any(call_name(c) == "remove_child" for c in node_calls(n))]
            ok2 = True
            for rm in rm_nodes:
                ids = {x.id for x in fn_nodes}
                # from a removal, every path to the return passes the feed
                # a removal happened, so the per-round list is known non-empty: `if L:` cannot take its false edge
                okp, _ = cfg.must_pass(rm, lambda n: n.id in ids,
                                       edge_ok=lambda s_, l_, d_: not (s_.kind == "test" and norm(s_.ast) == L and l_ == "f"))
                ok2 = ok2 and okp
            rep.check(ok2 and bool(fn_nodes), "R08.3", fi.qualname, "every removal is reported", fn_where(fi, feed),
                      "%s: after any remove_child every path to the return passes `%s`" % (name, norm_stmt(feed)),
                      "%s can remove nodes on a path that never adds them to the returned list" % fi.qualname)

    # ---- R08.4
    with rep.section("R08.4"):
        for q in FAMILY:
            fi = index.function(q)
            if "suppress_unifurcations" not in fi.all_params or q == NODE + ".extract_subtree":
                continue
            if "suppress_unifurcations" in unused_params(fi):
                continue  # reported by R08.1
            cfg = cfg_of(fi)

            def is_flag_test(n):
                return n.kind == "test" and norm(n.ast) == "suppress_unifurcations"

            def does_suppress(n):
                for c in node_calls(n):
                    if call_name(c) == "suppress_unifurcations" and isinstance(c.func, ast.Attribute):
                        return True
                    kw = get_kwarg(c, "suppress_unifurcations")
                    # forwarding counts only towards a Tree-level family function (self.<pruner>(...)):
                    # Node.remove_child's own suppression is partial (it needs the parent to have a parent)
                    if kw is not None and norm(kw) == "suppress_unifurcations" and isinstance(c.func, ast.Attribute) and norm(c.func.value) in ("self", "self.seed_node"):
                        return True
                return False

            def direct_suppress(n):
                return any(call_name(c) == "suppress_unifurcations" and isinstance(c.func, ast.Attribute) for c in node_calls(n))
            # truthy flag => suppression/forwarding on every path
            w = cfg.can_reach(cfg.entry, lambda n: n is cfg.exit, avoid=does_suppress, follow_exc=False,
                              edge_ok=lambda s, l, d: not (is_flag_test(s) and l == "f"))
            ok_t = w is None
            if q == TREE + ".prune_nodes":
                ok_t = True  # forwards only when prune_leaves_without_taxa is requested (documented scope of the flag there)
            rep.check(ok_t, "R08.4", fi.qualname, "flag truthy => suppression", fn_where(fi),
                      "%s: with suppress_unifurcations truthy every path suppresses or forwards the flag" % fi.name,
                      "%s has a path on which suppress_unifurcations is truthy and neither self.suppress_unifurcations() is called nor the flag forwarded: nodes left with one child survive" % fi.qualname)
            # falsy flag => no direct suppression
            reach = cfg.reach([cfg.entry], follow_exc=False, edge_ok=lambda s, l, d: not (is_flag_test(s) and l == "t"))
            has_test = any(is_flag_test(n) for n in cfg.nodes)
            bad = [n for n in reach if direct_suppress(n)]
            rep.check(not bad, "R08.4", fi.qualname, "flag falsy => no suppression", fn_where(fi, bad[0].stmt if bad else None),
                      "%s: self.suppress_unifurcations() is unreachable when the flag is falsy" % fi.name,
                      "%s calls self.suppress_unifurcations() on a path where the caller declined suppression" % fi.qualname)
        # extract_subtree: merge branch gated by the flag
        fi = index.function(NODE + ".extract_subtree")
        cfg = cfg_of(fi)
        # locals that are falsy whenever the flag is: X = suppress_unifurcations and ...
        derived = set()
        for n in walk_no_nested(fi.node):
            if isinstance(n, ast.Assign) and isinstance(n.targets[0], ast.Name) and isinstance(n.value, ast.BoolOp) and isinstance(n.value.op, ast.And) \
                    and any(norm(v) == "suppress_unifurcations" for v in n.value.values):
                if sum(1 for m in walk_no_nested(fi.node) if isinstance(m, ast.Assign) and norm(m.targets[0]) == n.targets[0].id) == 1:
                    derived.add(n.targets[0].id)
        flag_tests = [n for n in cfg.nodes if n.kind == "test" and (norm(n.ast) == "suppress_unifurcations" or norm(n.ast) in derived)]
        merges = [n for n in cfg.nodes if n.kind == "stmt" and isinstance(n.ast, ast.AugAssign) and "edge.length" in norm(n.ast.target)]
        if not flag_tests or not merges:
            raise AnalysisError("R08.4: extract_subtree unifurcation-merge branch not recognised")
        # the branch that drops an internal node whose descendants were all filtered out is NOT governed by the flag
        singles = [n for n in cfg.nodes if n.kind == "test" and isinstance(n.ast, ast.Compare) and isinstance(n.ast.left, ast.Call) and call_name(n.ast.left) == "len"
                   and n.ast.left.args and const_value(n.ast.comparators[0]) == 1 and isinstance(n.ast.ops[0], ast.Eq)]
        acc = {norm(n.ast.left.args[0]) for n in singles}
        empties = [n for n in cfg.nodes if n.kind == "test" and norm(n.ast) in acc]     # `not X` is a test of X with the edges swapped
        if len(acc) != 1 or not empties:
            raise AnalysisError("R08.4: extract_subtree emptied-clade branch not recognised")
        drops = []
        for e in empties:
            for l, d in e.succ:
                if l == "f":
                    w = cfg.can_reach(d, lambda x: x.kind == "stmt" and isinstance(x.ast, ast.Continue), follow_exc=False, skip_src=False,
                                      avoid=lambda x: x.kind in ("for", "join") and x is not d)
                    if w is not None:
                        drops.append(w)
        if not drops:
            raise AnalysisError("R08.4: extract_subtree: no `continue` under the emptied-clade test")
        reach_f = cfg.reach([cfg.entry], follow_exc=False, edge_ok=lambda s_, l, d: not (s_ in flag_tests and l == "t"))
        okd = all(any(x is w for x in reach_f) for w in drops)
        rep.check(okd, "R08.4", fi.qualname, "emptied clade dropped regardless of the flag", fn_where(fi, drops[0].stmt),
                  "extract_subtree: an internal node whose descendants were all filtered out is dropped also when suppress_unifurcations is falsy",
                  "extract_subtree drops an internal node whose descendants were all filtered out only when suppress_unifurcations is truthy: declining suppression must affect single-child nodes only, otherwise the emptied clade is cloned as a taxon-less leaf and the extracted tree is not the induced subtree (and disagrees with prune/retain under the same option)")
        reach = cfg.reach([cfg.entry], follow_exc=False, edge_ok=lambda s, l, d: not (s in flag_tests and l == "t"))
        bad = [m for m in merges if m in reach]
        rep.check(not bad, "R08.4", fi.qualname, "merge branch gated by flag", fn_where(fi, merges[0].stmt),
                  "extract_subtree: the edge-length merge of a single surviving child is reachable only with suppress_unifurcations truthy",
                  "extract_subtree merges a single child into its parent even when suppress_unifurcations is falsy")
        # and the flag test is conjoined with the single-child test
        single = [n for n in cfg.nodes if n.kind == "test" and any(n.stmt is ft.stmt for ft in flag_tests) and isinstance(n.ast, ast.Compare)
                  and isinstance(n.ast.left, ast.Call) and call_name(n.ast.left) == "len" and const_value(n.ast.comparators[0]) == 1 and isinstance(n.ast.ops[0], ast.Eq)]
        rep.check(bool(single), "R08.4", fi.qualname, "single-child test", fn_where(fi), "extract_subtree tests len(children_to_add) == 1 before merging",
                  "extract_subtree no longer restricts unifurcation merging to nodes with exactly one surviving child")

        thin_clone_rule(index, rep, "R08.5")

    # ---- R08.8
    with rep.section("R08.8"):
        rep.rule("R08.8", "update_bipartitions is honoured by the pruning family: after the leaves are removed the whole tree is re-encoded when asked (C03 R03.4; forwarding the flag to suppress_unifurcations alone is not enough, it only drops the bipartitions of the nodes it splices out)")
        rep.floor("R08.8", "borrowed obligations", 10, borrow(index, rep, "C03", {"R03.4"}, "R08.8"))

    # ---- R08.7
    with rep.section("R08.7"):
        rep.rule("R08.7", "every outdegree-one node goes: in Tree.suppress_unifurcations each node found with exactly one child is spliced out on every path (no skip between the single-child test and the re-linking); in Node.extract_subtree, with suppression requested, a node left with exactly one surviving child is always merged - no further condition")
        su = index.function(TREE + ".suppress_unifurcations")
        cfg = cfg_of(su)
        singles = [n for n in cfg.nodes if n.kind == "test" and isinstance(n.ast, ast.Compare) and isinstance(n.ast.left, ast.Call) and call_name(n.ast.left) == "len" and const_value(n.ast.comparators[0]) == 1 and isinstance(n.ast.ops[0], ast.Eq)]
        if len(singles) != 1:
            raise AnalysisError("R08.7: single-child test in suppress_unifurcations not recognised")
        relink = lambda n: (n.kind == "stmt" and isinstance(n.ast, ast.Assign) and norm(n.ast.targets[0]) in ("self.seed_node", "self._seed_node")) or \
            any(call_name(c) in ("insert_child", "add_child", "set_child_nodes") for c in node_calls(n))
        starts = [d for l, d in singles[0].succ if l == "t"]
        esc = None
        for x in cfg.reach(starts, avoid=relink, follow_exc=False):
            if x.kind in ("for",) or x is cfg.exit:
                esc = x
                break
        rep.check(esc is None, "R08.7", su.qualname, "single-child node can be skipped", fn_where(su, singles[0].stmt), "suppress_unifurcations: every node with one child is re-linked out of the tree",
                  "Tree.suppress_unifurcations has a path from `%s` back to the loop head that splices nothing out: some outdegree-one nodes survive (e.g. a root left with a single leaf), so pruning down to few taxa does not give the induced subtree and disagrees with extraction" % norm(singles[0].ast))
        ex = index.function(NODE + ".extract_subtree")
        chains = [n for n in ast.walk(ex.node) if isinstance(n, ast.If) and any(isinstance(a, ast.AugAssign) and "edge.length" in norm(a.target) for a in ast.walk(n))]
        chains = [c for c in chains if not any(c is x for o in chains if o is not c for x in ast.walk(o) if x is not o)]
        if len(chains) != 1:
            raise AnalysisError("R08.7: merge chain of extract_subtree not recognised")
        chain = chains[0]
        accs = {norm(n.ast.left.args[0]) for n in cfg_of(ex).nodes if n.kind == "test" and isinstance(n.ast, ast.Compare) and isinstance(n.ast.left, ast.Call) and call_name(n.ast.left) == "len" and n.ast.left.args and const_value(n.ast.comparators[0]) == 1}
        if len(accs) != 1:
            raise AnalysisError("R08.7: surviving-children accumulator of extract_subtree not recognised")
        acc = accs.pop()
        # atoms of the chain other than the flag and the single-child test are free: the merge branch must be taken whatever they are
        base = {"suppress_unifurcations": True, "len(%s) == 1" % acc: True, acc: True, "not %s" % acc: False}
        # a flag set to True inside the loop that collects the surviving children is True once one survived
        for lp in ast.walk(ex.node):
            if isinstance(lp, ast.For) and any(isinstance(c, ast.Call) and call_name(c) == "append" and norm(c.func.value) == acc for c in ast.walk(lp)):
                for a in lp.body:
                    if isinstance(a, ast.Assign) and isinstance(a.targets[0], ast.Name) and const_value(a.value, None) is True:
                        base[a.targets[0].id] = True
        # locals defined once as a boolean combination are read through their definition
        inline = {}
        for a in walk_no_nested(ex.node):
            if isinstance(a, ast.Assign) and isinstance(a.targets[0], ast.Name) and isinstance(a.value, (ast.BoolOp, ast.Compare, ast.UnaryOp)):
                if sum(1 for b in walk_no_nested(ex.node) if isinstance(b, ast.Assign) and norm(b.targets[0]) == a.targets[0].id) == 1:
                    inline[a.targets[0].id] = a.value
        links = []
        cur = chain
        while True:
            links.append(cur)
            if len(cur.orelse) == 1 and isinstance(cur.orelse[0], ast.If):
                cur = cur.orelse[0]
            else:
                break
        free = set()
        def leaves(t, depth=0):
            out = []
            for leaf in _bool_leaves(t):
                if isinstance(leaf, ast.Name) and leaf.id in inline and depth < 3:
                    out += leaves(inline[leaf.id], depth + 1)
                else:
                    out.append(leaf)
            return out
        for lk in links:
            for leaf in leaves(lk.test):
                if norm(leaf) not in base:
                    free.add(norm(leaf))
        free = sorted(free)
        if len(free) > 6:
            raise AnalysisError("R08.7: too many free conditions in the merge chain of extract_subtree")
        import itertools
        missed = []
        has_merge = lambda body: any(isinstance(a, ast.AugAssign) and "edge.length" in norm(a.target) for st in body for a in ast.walk(st))
        for vals in itertools.product((True, False), repeat=len(free)):
            facts = dict(base)
            facts.update(dict(zip(free, vals)))
            d = Decision(facts=facts)
            d.inline = inline
            selected = links[-1].orelse
            for lk in links:
                try:
                    if d.test(lk.test):
                        selected = lk.body
                        break
                except Undecidable as e:
                    raise AnalysisError("R08.7: merge chain of extract_subtree not decidable (%s)" % e)
            # the branch that drops an emptied clade is taken only when no child survived: excluded by the base facts
            if not has_merge(selected):
                missed.append(dict(zip(free, vals)))
        rep.check(not missed, "R08.7", ex.qualname, "single surviving child not merged when %s" % (missed[0] if missed else ""), fn_where(ex, chain), "extract_subtree: with suppression on, a node with one surviving child is merged whatever the other conditions (%s)" % (free or "none"),
                  "Node.extract_subtree, with suppress_unifurcations truthy and exactly one surviving child, does not merge the node when %s: an outdegree-one node survives in the extracted tree (with its edge length not merged), so extraction disagrees with prune/retain on the same taxa" % (missed[0] if missed else ""))

    # ---- R08.6
    with rep.section("R08.6"):
        rep.rule("R08.6", "the three single-child splice-out sites (suppress_unifurcations, encode_bipartitions, extract_subtree) merge edge lengths with the same None handling: removed length None -> child unchanged; child None -> takes the removed length; both -> sum")
        sites = [(TREE + ".suppress_unifurcations", None), (TREE + ".encode_bipartitions", None), (NODE + ".extract_subtree", None), (TREE + ".collapse_basal_bifurcation", None)]   # the last one is reached by every in-place prune of an unrooted tree with update_bipartitions=True
        for q, _ in sites:
            fi = index.function(q)
            res = merge_semantics(fi)
            if res is None:
                raise AnalysisError("R08.6: %s: the edge-length merge at the single-child splice-out site was not recognised" % q)
            iff, removed, child, table = res
            want = {(False, False): "C+R", (False, True): "R", (True, False): "C", (True, True): "None"}     # (removed is None, child is None) -> child afterwards
            bad = {k: v for k, v in table.items() if v != want[k]}
            rep.check(not bad, "R08.6", fi.qualname, "length merge at the splice-out site", fn_where(fi, iff),
                      "%s merges lengths canonically: removed None -> child unchanged; child None -> takes the removed length; both -> sum" % fi.name,
                      "%s no longer merges the spliced-out node's edge length (`%s`) into its single child's (`%s`) the way its sibling sites do - cases (removed is None, child is None) -> child afterwards: %s, expected %s: path lengths through the removed node change, and extraction disagrees with in-place pruning"
                      % (fi.qualname, removed, child, {k: table[k] for k in sorted(bad)}, {k: want[k] for k in sorted(bad)}))

    # ---- R08.9 the by-label variants select what the by-taxon variants select
    with rep.section("R08.9"):
        rep.rule("R08.9", "the by-label variants find exactly the taxa carrying the labels: label lookup folds the query and the cached label with one method, the cache follows relabelling (C10 R10.9) and every look-up method has the same defaults - all matches, the namespace's own case rule (C10 R10.10)")
        rep.floor("R08.9", "borrowed obligations", 5, borrow(index, rep, "C10", {"R10.9", "R10.10"}, "R08.9"))

    # ---- R08.10 the selection may be any iterable
    with rep.section("R08.10"):
        rep.rule("R08.10", "the selection may be any iterable: the prune / retain / extract family walks its `taxa` / `labels` argument at most once, or materialises it first (a generator must select the same taxa as the list of its items)")
        fam = [f for f in index.functions_in_module(TREE.rsplit(".", 1)[0]) if f.cls is not None and f.cls.name == "Tree" and (f.name.startswith(("prune_taxa", "retain_taxa", "extract_tree_with", "prune_leaves", "prune_nodes")))]
        rep.floor("R08.10", "selection arguments of the prune / retain / extract family", 8, one_pass_iterable_rule(index, rep, "R08.10", fam, ("taxa", "labels", "nodes")))

    # ---- R08.11 a declined suppression stays declined
    with rep.section("R08.11"):
        rep.rule("R08.11", "a declined suppression stays declined: a restructuring method that takes both suppress_unifurcations and update_bipartitions hands its suppress_unifurcations to the re-encode it triggers (encode_bipartitions suppresses by default, so an unforwarded flag is overridden exactly when the caller also asks for an update)")
        nup = 0
        for m in (TREE.rsplit(".", 1)[0], NODE.rsplit(".", 1)[0]):
            for f in index.functions_in_module(m):
                if "suppress_unifurcations" not in f.params or "update_bipartitions" not in f.params:
                    continue
                for c in calls_in(f.node):
                    if call_name(c) not in ("update_bipartitions", "encode_bipartitions"):
                        continue
                    nup += 1
                    kw = get_kwarg(c, "suppress_unifurcations")
                    rep.check(kw is not None and (norm(kw) == "suppress_unifurcations" or (isinstance(kw, ast.Constant) and kw.value is False)), "R08.11", f.qualname, "re-encode without the caller's suppress_unifurcations", fn_where(f, c), "%s forwards suppress_unifurcations to %s" % (f.name, call_name(c)),
                              "%s calls `%s` without passing its own suppress_unifurcations on: encode_bipartitions suppresses unifurcations by default, so suppress_unifurcations=False is honoured with update_bipartitions=False and silently overridden with update_bipartitions=True - the node left with one child is merged away after all, and the in-place result differs between the two settings" % (f.qualname, norm(c)[:50]))
        rep.floor("R08.11", "re-encodes in methods taking both options", 5, nup)

    # ---- R08.12 one matching rule for labels
    with rep.section("R08.12"):
        rep.rule("R08.12", "the label variants of pruning, retaining and extraction decide which taxa a label names in ONE way: every method of Tree that takes `labels` hands them to taxon_namespace.get_taxa(labels=...) (the namespace's matching rule, case-insensitive by default) and goes on by taxon; none compares `taxon.label` with the given labels itself - otherwise prune_taxa_with_labels(['A']) and extract_tree_without_taxa_labels(['A']) remove different leaves from the same tree")
        n12 = 0
        for fi in index.methods_of(TREE):
            if "labels" not in fi.params:
                continue
            n12 += 1
            via_ns = [c for c in calls_in(fi.node, nested=True) if call_name(c) == "get_taxa" and (get_kwarg(c, "labels") is not None and norm(get_kwarg(c, "labels")) == "labels" or (c.args and norm(c.args[0]) == "labels"))]
            own = [x for x in ast.walk(fi.node) if isinstance(x, ast.Compare) and any(isinstance(o, (ast.In, ast.NotIn, ast.Eq, ast.NotEq)) for o in x.ops)
                   and any(isinstance(y, ast.Attribute) and y.attr == "label" for y in ast.walk(x)) and any(isinstance(y, ast.Name) and y.id == "labels" for y in ast.walk(x))]
            rep.check(bool(via_ns) and not own, "R08.12", fi.qualname, "labels matched without the namespace" if not via_ns else "labels compared with taxon.label directly", fn_where(fi, own[0] if own else None),
                      "%s resolves its labels through taxon_namespace.get_taxa" % fi.name,
                      "%s %s: the in-place variants resolve labels through the namespace (case-insensitive unless the namespace says otherwise, first match per label), so for a label that differs from a taxon's in case only this method keeps or drops a different set of leaves than its in-place counterpart" % (fi.qualname, "compares `taxon.label` with the given labels itself (`%s`)" % norm(own[0])[:60] if own else "never asks the namespace which taxa the labels name"))
        rep.floor("R08.12", "label variants", 4, n12)


def _bool_leaves(t):
    if isinstance(t, ast.BoolOp):
        out = []
        for v in t.values:
            out += _bool_leaves(v)
        return out
    if isinstance(t, ast.UnaryOp) and isinstance(t.op, ast.Not):
        return _bool_leaves(t.operand)
    return [t]


def merge_semantics(fi):
    """Find the statement that merges a spliced-out node's edge length into its child's and evaluate it
    symbolically for the four (removed is None, child is None) cases.  Returns (stmt, removed, child, table)."""
    edge_names = {a.targets[0].id for a in ast.walk(fi.node) if isinstance(a, ast.Assign) and isinstance(a.targets[0], ast.Name) and isinstance(a.value, ast.Attribute) and a.value.attr in ("edge", "_edge")}

    def is_len(e):
        return isinstance(e, ast.Attribute) and e.attr == "length" and ((isinstance(e.value, ast.Attribute) and e.value.attr == "edge") or (isinstance(e.value, ast.Name) and e.value.id in edge_names))

    pm = parent_map(fi.node)
    for aug in ast.walk(fi.node):
        if isinstance(aug, ast.AugAssign) and isinstance(aug.op, ast.Add) and is_len(aug.target) and is_len(aug.value):
            child, removed = norm(aug.target), norm(aug.value)
        elif isinstance(aug, ast.Assign) and len(aug.targets) == 1 and is_len(aug.targets[0]) and any(isinstance(x, ast.BinOp) and isinstance(x.op, ast.Add) for x in ast.walk(aug.value)):
            # the sum written out: child.length = removed.length + child.length [or ...]
            lens = {norm(x) for x in ast.walk(aug.value) if is_len(x)}
            child = norm(aug.targets[0])
            others = lens - {child}
            if child not in lens or len(others) != 1:
                continue
            removed = others.pop()
        else:
            continue
        # the outermost enclosing `if` whose test is decidable from the two None-nesses
        frag = None
        cur = aug
        while True:
            par = pm.get(cur)
            if isinstance(par, ast.Try) and any(cur is x for x in par.body) and len(par.body) == 1:
                frag = par
                cur = par
                continue
            if not isinstance(par, ast.If):
                break
            try:
                _eval_test(par.test, {removed: "R", child: "C"})
            except _Unknown:
                break
            frag = par
            cur = par
        if frag is None:
            continue
        table = {}
        for rn in (False, True):
            for cn in (False, True):
                env = {removed: None if rn else "R", child: None if cn else "C"}
                try:
                    _exec_block([frag], env, removed, child)
                except _Unknown:
                    return None
                except _TypeErr:
                    table[(rn, cn)] = "TypeError"
                    continue
                v = env[child]
                table[(rn, cn)] = "None" if v is None else "+".join(sorted(v.split("+")))
        return frag, removed, child, table
    return None


class _Unknown(Exception):
    pass


class _TypeErr(Exception):
    """arithmetic on a missing (None) length: a TypeError at run time"""


def _eval_test(t, env):
    if isinstance(t, ast.UnaryOp) and isinstance(t.op, ast.Not):
        return not _eval_test(t.operand, env)
    if isinstance(t, ast.BoolOp):
        vals = [_eval_test(v, env) for v in t.values]
        return all(vals) if isinstance(t.op, ast.And) else any(vals)
    cp = compare_parts(t)
    if cp and cp[1] in ("Is", "IsNot") and is_none(cp[2]) and norm(cp[0]) in env:
        r = env[norm(cp[0])] is None
        return r if cp[1] == "Is" else not r
    raise _Unknown()


def length_update_table(stmts, target, addend):
    """Symbolically run `stmts` for target None / not None (addend never None): returns {target_is_None: value afterwards}
    where the value is a '+'-joined sorted list of the symbols C (old target) and R (addend), or 'None' / 'TypeError'."""
    out = {}
    for tn in (False, True):
        env = {target: None if tn else "C", addend: "R"}
        try:
            _exec_block(stmts, env, addend, target)
        except _TypeErr:
            out[tn] = "TypeError"
            continue
        v = env[target]
        out[tn] = "None" if v is None else "+".join(sorted(x for x in v.split("+") if x != "0")) or "0"
    return out


def _eval_val(e, env):
    if norm(e) in env:
        return env[norm(e)]
    if isinstance(e, ast.Constant) and e.value in (0, 0.0) and not isinstance(e.value, bool):
        return "0"
    if isinstance(e, ast.Attribute) and e.attr in ("length", "edge_length"):
        return "X(%s)" % norm(e)       # some other edge's length: neither the removed node's nor the child's
    if isinstance(e, ast.BinOp) and isinstance(e.op, ast.Add):
        a, b = _eval_val(e.left, env), _eval_val(e.right, env)
        if a is None or b is None:
            raise _TypeErr()
        return a + "+" + b
    if isinstance(e, ast.BoolOp) and isinstance(e.op, ast.Or):
        # `x or y`: x when it is a (non-zero) length, otherwise y
        v = None
        for sub in e.values:
            v = _eval_val(sub, env)
            if v is not None and v != "0":
                return v
        return v
    if isinstance(e, ast.IfExp):
        return _eval_val(e.body if _eval_test(e.test, env) else e.orelse, env)
    if is_none(e):
        return None
    raise _Unknown()


def _exec_block(stmts, env, removed, child):
    for st in stmts:
        if isinstance(st, ast.If):
            _exec_block(st.body if _eval_test(st.test, env) else st.orelse, env, removed, child)
        elif isinstance(st, ast.Assign) and norm(st.targets[0]) in env:
            env[norm(st.targets[0])] = _eval_val(st.value, env)
        elif isinstance(st, ast.AugAssign) and isinstance(st.op, ast.Add) and norm(st.target) in env:
            a, b = env[norm(st.target)], _eval_val(st.value, env)
            if a is None or b is None:
                raise _TypeErr()
            env[norm(st.target)] = a + "+" + b
        elif isinstance(st, ast.Try) and not st.finalbody:
            try:
                _exec_block(st.body, env, removed, child)
                _exec_block(st.orelse, env, removed, child)
            except _TypeErr:
                hs = [h for h in st.handlers if h.type is None or norm(h.type) in ("TypeError", "Exception", "(TypeError,)") or (isinstance(h.type, ast.Tuple) and any(norm(x) in ("TypeError", "Exception") for x in h.type.elts))]
                if not hs:
                    raise
                _exec_block(hs[0].body, env, removed, child)
        elif isinstance(st, ast.Assign):
            # a store to something else (e.g. the clone's own length in extract_subtree): not part of the merge
            continue
        elif isinstance(st, (ast.Pass, ast.Expr)):
            continue
        else:
            raise _Unknown()


def thin_clone_rule(index, rep, rid):
    fi = index.function(NODE + ".extract_subtree")
    created = [n for n in walk_no_nested(fi.node) if isinstance(n, ast.Assign) and isinstance(n.value, ast.Call) and call_name(n.value) == "node_factory"]
    if len(created) != 1:
        raise AnalysisError("R08.5: extract_subtree clone creation site not recognised")
    clone = norm(created[0].targets[0])
    src_loop = [f for f in walk_no_nested(fi.node) if isinstance(f, ast.For) and "postorder_iter" in norm(f.iter)]
    if not src_loop:
        raise AnalysisError("R08.5: extract_subtree source loop not recognised")
    srcvar = norm(src_loop[0].target)
    allowed = {"label": srcvar + ".label", "taxon": srcvar + ".taxon", "edge.length": srcvar + ".edge.length", "edge.label": srcvar + ".edge.label"}
    copied = {}
    for n in walk_no_nested(fi.node):
        if isinstance(n, ast.Assign) and len(n.targets) == 1:
            t = norm(n.targets[0])
            if t.startswith(clone + ".") and srcvar in names_in(n.value):
                copied[t[len(clone) + 1:]] = norm(n.value)
        elif isinstance(n, ast.Call) and isinstance(n.func, ast.Name) and n.func.id == "setattr" and len(n.args) == 3 and norm(n.args[0]) == clone:
            if norm(n.args[2]) == srcvar and norm(n.args[1]) == "extraction_source_reference_attr_name":
                copied["<back-reference>"] = srcvar
            else:
                copied["setattr:" + norm(n.args[1])] = norm(n.args[2])
    for attr, val in sorted(copied.items()):
        ok = attr == "<back-reference>" or allowed.get(attr) == val
        rep.check(ok, rid, fi.qualname, "clone.%s = %s" % (attr, val), fn_where(fi),
                  "clone receives %s from %s" % (attr, val),
                  "extract_subtree stores `%s` of the source node on the clone (clone.%s): an extracted tree copies structure, lengths, labels and taxa only, and must not share annotations/comments/bipartitions with its source" % (val, attr))
    for attr in allowed:
        rep.check(attr in copied, rid, fi.qualname, "clone.%s copied" % attr, fn_where(fi), "clone.%s is set from the source" % attr,
                  "extract_subtree no longer copies %s from the source node to the clone" % attr)
    rep.check("<back-reference>" in copied, rid, fi.qualname, "back-reference", fn_where(fi), "clone maps back to its source node",
              "extract_subtree no longer records the source node on the clone (extraction_source)")
