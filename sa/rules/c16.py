"""C16 Parsimony scores are minimal change counts and pure functions of tree and matrix."""
import ast

from .common import *  # noqa

PM = "dendropy.model.parsimony"


def run(index, rep, tier):
    rep.rule("R16.1", "no cache that omits an input: a leaf's state sets come from the taxon_state_sets_map of THIS call; a cache-first getter (attribute first, map only on AttributeError) may serve leaves only after the leaf was refreshed from the map")
    rep.rule("R16.2", "parsimony_score refuses a tree and a matrix over different namespaces before computing anything")
    rep.rule("R16.3", "arguments are not written: chars and weights are never the base of a store or mutator call; score_by_character_list is the only out-parameter and is asserted empty on entry")
    rep.rule("R16.4", "per-character scores add up to the total: every increment of the total by wt is paired with the same increment of score_by_character_list[n]")
    rep.rule("R16.5", "no state outlives a call: the parsimony module has no mutable default argument and no class-level container that instances fill")
    with rep.section("R16.5"):
        from . import c12
        rep.floor("R16.5", "defaults and class-level containers in the parsimony module", 5, c12.shared_mutable_rule(index, rep, "R16.5", [PM]))
        module_state_rule(index, rep, "R16.5", [PM])
    rep.rule("R16.6", "state sets follow the alphabet: every lazily computed cache of a StateIdentity (fundamental states / symbols / indexes, with and without gaps as missing) is dropped wherever its member states are (re)defined - the scorer reads these caches for every cell")
    with rep.section("R16.6"):
        SI = "dendropy.datamodel.charstatemodel.StateIdentity"
        ci = index.klass(SI)
        caches = set()
        for m in ci.methods.values():
            for iff in walk_no_nested(m.node):
                if isinstance(iff, ast.If):
                    cp = compare_parts(iff.test)
                    if cp and cp[1] == "Is" and is_none(cp[2]) and isinstance(cp[0], ast.Attribute) and norm(cp[0].value) == "self":
                        x = cp[0].attr
                        if any(isinstance(a, ast.Assign) and norm(a.targets[0]) == "self." + x for a in ast.walk(iff)):
                            caches.add(x)
        rep.floor("R16.6", "lazily computed caches of StateIdentity", 5, len(caches))
        nw = 0
        for m in ci.methods.values():
            ws = [w for w in writes_in(m.node) if w.kind == "store" and w.attr == "_member_states" and w.base is not None and norm(w.base) == "self"]
            if not ws:
                continue
            nw += 1
            reset = {w.attr for w in writes_in(m.node) if w.kind == "store" and w.base is not None and norm(w.base) == "self" and w.value is not None and is_none(w.value)}
            missing = sorted(caches - reset)
            rep.check(not missing, "R16.6", m.qualname, "caches not dropped when the member states change: %s" % missing, fn_where(m, ws[0].stmt), "%s drops all %d caches" % (m.qualname, len(caches)),
                      "%s (re)defines the member states of a state but leaves the cached %s in place: after the alphabet changes (a state added, tables recompiled) an ambiguity / missing-data symbol keeps the state set of the old alphabet, so cells scored with it force spurious changes and the score is above the minimum" % (m.qualname, ", ".join(missing)))
        rep.floor("R16.6", "functions defining the member states", 2, nw)
    rep.rule("R16.8", "derived state sets follow the alphabet: a StateAlphabet compile step that (re)defines a state's member states from one of the alphabet's state lists is re-run, while auto-compilation is on, by every method that grows that list (the missing-data state is 'all fundamental states')")
    with rep.section("R16.8"):
        SA = index.klass("dendropy.datamodel.charstatemodel.StateAlphabet")

        def lists_read(expr, depth=0):
            out = set()
            for x in ast.walk(expr):
                if isinstance(x, ast.Attribute) and isinstance(x.value, ast.Name) and x.value.id == "self" and x.attr.startswith("_") and x.attr.endswith("_states"):
                    out.add(x.attr)
                if isinstance(x, ast.Call) and isinstance(x.func, ast.Attribute) and norm(x.func.value) == "self" and x.func.attr in SA.methods and depth < 3:
                    for r in ast.walk(SA.methods[x.func.attr].node):
                        if isinstance(r, ast.Return) and r.value is not None:
                            out |= lists_read(r.value, depth + 1)
            return out
        derive = {}   # compile method -> lists its member-state definitions read
        for m in SA.methods.values():
            for a in walk_no_nested(m.node):
                if isinstance(a, ast.Assign) and isinstance(a.targets[0], ast.Attribute) and a.targets[0].attr in ("member_states", "_member_states") and norm(a.targets[0].value) != "self":
                    ls = lists_read(a.value)
                    if ls:
                        derive.setdefault(m.name, set()).update(ls)
        rep.floor("R16.8", "compile steps defining member states from a state list", 1, len(derive))
        # wrappers that run a compile step on every path
        runs = {c: {c} for c in derive}
        for m in SA.methods.values():
            if m.name in derive:
                continue
            g = cfg_of(m)
            for c in derive:
                ok, _w = g.must_pass(g.entry, lambda n, c=c: any(norm(k.func) == "self." + c for k in node_calls(n)), skip_src=False)
                if ok:
                    runs[c].add(m.name)
        ngrow = 0
        for m in SA.methods.values():
            if m.name == "__init__" or m.name in derive:
                continue
            g = cfg_of(m)
            for w in writes_in(m.node):
                if not (w.kind == "mutcall" and w.base is not None and norm(w.base) == "self" and w.method in ("append", "extend", "insert", "add")):
                    continue
                for c, ls in sorted(derive.items()):
                    if w.attr not in ls:
                        continue
                    ngrow += 1
                    nodes = g.nodes_of_stmt(w.stmt)
                    bad = None
                    for nd in nodes:
                        ok, wit = g.must_pass(nd, lambda n, c=c: any(norm(k.func) in ["self." + r for r in runs[c]] for k in node_calls(n)),
                                              edge_ok=lambda a_, lab, b_: not (a_.kind == "test" and norm(a_.ast) == "self.autocompile_lookup_tables" and lab == "f"))
                        if not ok:
                            bad = wit
                    rep.check(bad is None, "R16.8", m.qualname, "grows %s without re-running %s" % (w.attr, c), fn_where(m, w.stmt), "%s grows %s and re-runs %s" % (m.name, w.attr, c),
                              "%s adds a state to `%s` and, with auto-compilation on, can return without running %s, which is what defines the member states derived from that list (the missing-data state = all fundamental states): the alphabet's `?` keeps the old state set, so the Fitch pass treats a missing cell as excluding the new state and counts a change that the minimum does not need" % (m.qualname, w.attr, c))
        rep.floor("R16.8", "growth sites of lists that member states are derived from", 1, ngrow)
        # the gap / missing-data designation is a source too: the compile steps derive is_gap_state,
        # gap_state_as_no_data_state and the missing-data state's members from self.gap_state / self.no_data_state
        srcs = {}
        for m in SA.methods.values():
            if m.name.startswith("compile_"):
                for x in ast.walk(m.node):
                    if isinstance(x, ast.Attribute) and isinstance(x.ctx, ast.Load) and norm(x.value) == "self" and x.attr in ("gap_state", "no_data_state"):
                        srcs.setdefault(x.attr, set()).add(m.name)
        nset = 0
        for m in SA.methods.values():
            if m.name == "__init__" or m.name.startswith("compile_"):
                continue
            g = cfg_of(m)
            for w in writes_in(m.node):
                if not (w.kind == "store" and w.base is not None and norm(w.base) == "self" and w.attr in srcs):
                    continue
                nset += 1
                need = sorted(srcs[w.attr])
                bad = None
                # EVERY compile step that reads the designation is re-run (directly, or through a wrapper that runs it on every path)
                for r_ in need:
                    runs_r = {r_}
                    for w_ in SA.methods.values():
                        if w_.name == r_:
                            continue
                        gw = cfg_of(w_)
                        okw, _x = gw.must_pass(gw.entry, lambda n, r_=r_: any(norm(k.func) == "self." + r_ for k in node_calls(n)), skip_src=False)
                        if okw:
                            runs_r.add(w_.name)
                    for nd in g.nodes_of_stmt(w.stmt):
                        ok, wit = g.must_pass(nd, lambda n, runs_r=runs_r: any(norm(k.func) in ["self." + r for r in runs_r] for k in node_calls(n)),
                                              edge_ok=lambda a_, lab, b_: not (a_.kind == "test" and norm(a_.ast) == "self.autocompile_lookup_tables" and lab == "f"))
                        if not ok:
                            bad = wit
                            need = [r_]
                rep.check(bad is None, "R16.8", m.qualname, "sets %s without re-running %s" % (w.attr, need), fn_where(m, w.stmt), "%s sets %s and recompiles" % (m.name, w.attr),
                          "%s assigns `self.%s` and returns without re-running %s, which is where the per-state flags (is_gap_state, gap_state_as_no_data_state) and the missing-data state's members are derived from it: designating the gap symbol after construction has no effect until some later, unrelated compile - parsimony_score(gaps_as_missing=True) keeps counting gaps as a state" % (m.qualname, w.attr, need))
        rep.floor("R16.8", "setters of the gap / missing-data designation", 2, nset)

    rep.rule("R16.9", "every built-in alphabet tells the base class which symbol is the gap and which means 'no data': each direct StateAlphabet subclass passes gap_symbol and no_data_symbol to StateAlphabet.__init__ like its siblings, and neither symbol is hidden among the fundamental states (the scorer's gaps_as_missing acts only on the state flagged as gap)")
    with rep.section("R16.9"):
        CSM = "dendropy.datamodel.charstatemodel"
        nalpha = 0
        for k in sorted(index.classes.values(), key=lambda c: c.qualname):
            if k.module.name != CSM or k.name == "StateAlphabet" or not any(norm(b).split(".")[-1] == "StateAlphabet" for b in k.node.bases):
                continue
            init = k.methods.get("__init__")
            if init is None:
                continue
            sup = [c for c in calls_in(init.node) if norm(c.func) == "StateAlphabet.__init__" or (isinstance(c.func, ast.Attribute) and c.func.attr == "__init__" and norm(c.func.value).startswith("super("))]
            if len(sup) != 1:
                raise AnalysisError("R16.9: %s does not call StateAlphabet.__init__ exactly once" % k.qualname)
            nalpha += 1
            kws = {kw.arg: kw.value for kw in sup[0].keywords if kw.arg}
            for need in ("gap_symbol", "no_data_symbol"):
                rep.check(need in kws, "R16.9", init.qualname, "%s not passed to StateAlphabet.__init__" % need, fn_where(init, sup[0]), "%s passes %s to the base class" % (k.name, need),
                          "%s builds its alphabet without passing `%s` to StateAlphabet.__init__ (all its sibling alphabets do): no state is flagged as the %s, so parsimony_score(gaps_as_missing=True) silently counts `-` as one more residue for this data type only, and scores of gapped alignments are above the minimum" % (init.qualname, need, "gap" if need.startswith("gap") else "missing-data state"))
            fs = kws.get("fundamental_states")
            lits = set()
            if fs is not None:
                src_exprs = [fs]
                if isinstance(fs, ast.Name):
                    src_exprs = [a.value for a in walk_no_nested(init.node) if isinstance(a, ast.Assign) and norm(a.targets[0]) == fs.id]
                for e in src_exprs:
                    for x in ast.walk(e):
                        if isinstance(x, ast.Constant) and isinstance(x.value, str):
                            lits.add(x.value)
                        elif isinstance(x, (ast.Name, ast.Attribute)):
                            v = k.class_attrs.get(norm(x).split(".")[-1])
                            if v is not None:
                                lits |= {y.value for y in ast.walk(v) if isinstance(y, ast.Constant) and isinstance(y.value, str)}
            hidden = sorted({ch for l in lits for ch in l if ch in "-?"})
            rep.check(not hidden, "R16.9", init.qualname, "gap / missing symbol among the fundamental states: %s" % hidden, fn_where(init, sup[0]), "%s: fundamental states %s contain neither `-` nor `?`" % (k.name, sorted(lits)),
                      "%s lists %s among its fundamental states: the symbol is then an ordinary residue, not the gap / missing-data state, and gaps_as_missing has nothing to act on" % (init.qualname, hidden))
        rep.floor("R16.9", "built-in alphabets", 5, nalpha)
    rep.rule("R16.7", "the state sets are read off the matrix on every call: DiscreteCharacterMatrix.taxon_state_sets_map stores nothing on the matrix (no memo that an in-place cell edit would leave stale)")
    with rep.section("R16.7"):
        index.function("dendropy.datamodel.charmatrixmodel.DiscreteCharacterMatrix.taxon_state_sets_map")
        for tsm in sorted((f for f in index.functions.values() if f.name == "taxon_state_sets_map" and f.cls is not None), key=lambda f: f.qualname):
          ws = [w for w in writes_in(tsm.node) if w.base is not None and (norm(w.base) in ("self", "self.__dict__") or norm(w.base).startswith("self."))]
          ws += [c for c in calls_in(tsm.node) if call_name(c) == "setattr" and c.args and norm(c.args[0]) == "self"]
          rep.check(not ws, "R16.7", tsm.qualname, "taxon_state_sets_map stores on the matrix", fn_where(tsm, ws[0].stmt if ws and hasattr(ws[0], "stmt") else None), "taxon_state_sets_map writes nothing to self",
                  "DiscreteCharacterMatrix.taxon_state_sets_map keeps something on the matrix (`%s`): a memo of the state-set map cannot see cells edited in place, so scoring the same matrix object again after changing a cell returns the old score - the score is no longer a function of the tree and matrix passed in" % (norm_stmt(ws[0].stmt)[:60] if ws and hasattr(ws[0], "stmt") else "setattr"))
    fd = index.function(PM + ".fitch_down_pass")
    ps = index.function(PM + ".parsimony_score")

    # ---- R16.1
    with rep.section("R16.1"):
        cache_first = []
        for f in index.functions_in_module(PM):
            for t in walk_no_nested(f.node):
                if isinstance(t, ast.Try):
                    ret_attr = any(isinstance(s, ast.Return) and isinstance(s.value, ast.Call) and call_name(s.value) == "getattr" for s in t.body)
                    falls_back = any(any(isinstance(x, ast.Subscript) and "state_sets_map" in norm(x.value) for x in ast.walk(h)) for h in t.handlers)
                    if ret_attr and falls_back:
                        cache_first.append(f)
        rep.note("cache-first getters in parsimony: %s" % [f.name for f in cache_first])
        getters = {f.name for f in cache_first}
        # lambdas in fitch_down_pass that wrap a cache-first getter
        wrapped = set()
        for n in walk_no_nested(fd.node):
            if isinstance(n, ast.Assign) and isinstance(n.value, ast.Lambda) and any(isinstance(c, ast.Call) and call_name(c) in getters for c in ast.walk(n.value)):
                wrapped.add(norm(n.targets[0]))
        child_vars = {norm(n.targets[0]) for n in ast.walk(fd.node) if isinstance(n, ast.Assign) and isinstance(n.value, (ast.Call, ast.Attribute))
                      and ("child_nodes" in norm(n.value))}
        leaf_ifs = [i for i in ast.walk(fd.node) if isinstance(i, ast.If) and (
            (isinstance(i.test, ast.UnaryOp) and isinstance(i.test.op, ast.Not) and (norm(i.test.operand) in child_vars or "child_nodes" in norm(i.test.operand)))
            or (isinstance(i.test, ast.Call) and call_name(i.test) == "is_leaf"))]
        if not leaf_ifs:
            raise AnalysisError("R16.1: leaf branch of fitch_down_pass not recognised")
        for li in leaf_ifs:
            reads = [c for s in li.body for c in ast.walk(s) if isinstance(c, ast.Call) and (call_name(c) in wrapped or call_name(c) in getters)]
            refresh = [x for s in li.body for x in ast.walk(s) if isinstance(x, ast.Subscript) and norm(x.value) == "taxon_state_sets_map"]
            ok = True
            why = ""
            if reads and cache_first:
                first_read = min(r.lineno for r in reads)
                before = [x for x in refresh if x.lineno < first_read or (x.lineno == first_read and False)]
                ok = bool(before)
                why = "the leaf branch reads the node's state sets through the cache-first getter `%s` without first refreshing them from taxon_state_sets_map" % sorted(wrapped | getters)[0]
                if ok:
                    # the refresh may be guarded only by `map is not None` / attr-name tests
                    pm = parent_map(li)
                    for x in before:
                        p = pm.get(x)
                        while p is not None and p is not li:
                            if isinstance(p, ast.If):
                                nm = names_in(p.test)
                                if not nm <= {"taxon_state_sets_map", "state_sets_attr_name"}:
                                    ok = False
                                    why = "the refresh from the map is conditional on `%s`" % norm(p.test)
                            p = pm.get(p)
            rep.check(ok, "R16.1", fd.qualname, "leaf state sets served from a stale attribute", fn_where(fd, li), "fitch_down_pass: leaves take their state sets from this call's taxon_state_sets_map",
                      "fitch_down_pass: %s. A tree scored once keeps the first matrix's leaf sets as node attributes, so scoring it again with a different matrix silently returns the first score" % why)

    # ---- R16.2
    with rep.section("R16.2"):
        cfg = cfg_of(ps)
        guards = find_namespace_guards(cfg)
        gids = {g.id for g, _ in guards}
        work = [n for n in cfg.nodes if any(call_name(c) in ("taxon_state_sets_map", "fitch_down_pass", "postorder_node_iter") for c in node_calls(n))]
        ok = bool(guards) and bool(work) and all(cfg.dominated_by(w, lambda n: n.id in gids) for w in work)
        rep.check(ok, "R16.2", ps.qualname, "namespace guard", fn_where(ps), "parsimony_score: namespace identity test -> raise dominates %d computing calls" % len(work),
                  "parsimony_score computes state sets / scores without first refusing a tree and matrix over different namespaces")

    # ---- R16.3
    with rep.section("R16.3"):
        for f, args in ((ps, ["chars", "weights", "tree"]), (fd, ["weights", "taxon_state_sets_map"])):
            bad = writes_rooted_at(f, set(args))
            rep.check(not bad, "R16.3", f.qualname, "writes through arguments: %s" % [norm(b)[:40] for b in bad], fn_where(f, bad[0] if bad else None), "%s never stores to / mutates %s" % (f.name, args),
                      "%s writes through its argument (`%s`): scoring must leave the matrix, the weights and the state-set map unchanged" % (f.qualname, norm(bad[0])[:60] if bad else ""))
        asserts = [n for n in walk_no_nested(fd.node) if isinstance(n, ast.Assert) and "score_by_character_list" in norm(n.test) and "== 0" in norm(n.test)]
        rep.check(bool(asserts), "R16.3", fd.qualname, "out-parameter asserted empty", fn_where(fd), "score_by_character_list is asserted empty on entry", "fitch_down_pass no longer asserts that score_by_character_list is empty on entry: stale per-character scores are added to")

    # ---- R16.4
    with rep.section("R16.4"):
        frets = [norm(n.value) for n in walk_no_nested(fd.node) if isinstance(n, ast.Return) and n.value is not None]
        scv = frets[-1] if frets else "score"
        incs = [n for n in ast.walk(fd.node) if isinstance(n, ast.AugAssign) and norm(n.target) == scv and isinstance(n.op, ast.Add)]
        if not incs:
            raise AnalysisError("R16.4: total-score increment not found")
        pm = parent_map(fd.node)
        for inc in incs:
            blk = pm.get(inc)
            body = getattr(blk, "body", []) if inc in getattr(blk, "body", []) else getattr(blk, "orelse", [])
            paired = False
            for s in body:
                for x in ast.walk(s):
                    if isinstance(x, ast.AugAssign) and norm(x.target).startswith("score_by_character_list[") and isinstance(x.op, ast.Add) and norm(x.value) == norm(inc.value):
                        paired = True
            rep.check(paired, "R16.4", fd.qualname, "total += %s paired with per-character += %s" % (norm(inc.value), norm(inc.value)), fn_where(fd, inc),
                      "each `score += %s` is matched by `score_by_character_list[n] += %s`" % (norm(inc.value), norm(inc.value)),
                      "fitch_down_pass adds `%s` to the total but not the same amount to score_by_character_list[n]: the per-character scores no longer add up to the total" % norm(inc.value))
        # weights index = character index of the zip
        wtv = norm(incs[0].value) if incs else "wt"
        wt = [n for n in ast.walk(fd.node) if isinstance(n, ast.Assign) and norm(n.targets[0]) == wtv and isinstance(n.value, ast.Subscript)]
        enum = [l for l in ast.walk(fd.node) if isinstance(l, ast.For) and isinstance(l.iter, ast.Call) and call_name(l.iter) == "enumerate"]
        ok = bool(wt) and bool(enum) and norm(wt[0].value.slice) in names_in(enum[0].target) and norm(wt[0].value.value) == "weights"
        rep.check(ok, "R16.4", fd.qualname, "weight index", fn_where(fd), "the weight applied is weights[<character index of the enumerate>]", "fitch_down_pass indexes weights with something other than the character index")

    # ---- R16.10 a state's derived fields are written by the state alone
    with rep.section("R16.10"):
        rep.rule("R16.10", "a state's membership and what is derived from it are written through the state's own interface: `_member_states` and the caches computed from it (`_fundamental_*`, `_partials_vector`) are given a value only by StateIdentity's own methods through `self` (anyone may DROP a derived cache by setting it to None) - the setter drops every derived cache, a hand-written subset elsewhere drifts from the list of caches the class actually keeps")
        SI = "dendropy.datamodel.charstatemodel.StateIdentity"
        si = index.klass(SI)
        own = set()
        for f in si.methods.values():
            for w in writes_in(f.node):
                if w.base is not None and norm(w.base) == "self" and (w.attr == "_member_states" or w.attr.startswith("_fundamental_") or w.attr == "_partials_vector"):
                    own.add(w.attr)
        if len(own) < 5:
            raise AnalysisError("R16.10: StateIdentity's derived fields were not recognised (%s)" % sorted(own))
        n10 = 0
        for m in sorted(index.modules):
            if not m.startswith("dendropy.") or ".test" in m or ".legacy" in m:
                continue
            for fi in index.functions_in_module(m):
                for w in writes_in(fi.node):
                    if w.attr not in own:
                        continue
                    n10 += 1
                    ok = fi.cls is not None and w.base is not None and norm(w.base) == "self" and w.via_alias is None   # a class's own field of that name (the alphabet keeps a _fundamental_states list of its own)
                    # dropping a derived cache (`<state>._fundamental_indexes = None`) from outside is always safe: it only forces a recomputation
                    ok = ok or (w.kind == "store" and w.attr != "_member_states" and w.value is not None and is_none(w.value))
                    rep.check(ok, "R16.10", fi.qualname, "`%s.%s` written from outside the state" % (w.base_text, w.attr), fn_where(fi, w.stmt),
                              "%s: %s.%s written by the state itself" % (fi.name, w.base_text, w.attr),
                              "%s writes `%s.%s` directly: the state's setter is the one place that knows every cache derived from the membership (fundamental states, symbols, indexes with and without gaps as missing, partials); a write that bypasses it leaves some of them describing the old membership, and scores computed after the alphabet was extended use the stale state sets" % (fi.qualname, w.base_text, w.attr))
        rep.floor("R16.10", "writes of derived state fields", 8, n10)

    # ---- R16.11 the scoring passes write only into lists they made
    with rep.section("R16.11"):
        rep.rule("R16.11", "the scoring passes write only into lists they made themselves: in dendropy.model.parsimony an element/slice store, an in-place set operator (`|=`, `&=`, `^=`) or a mutator call goes to a name that is bound, everywhere in the function, to a freshly built container (or to the documented out-parameter score_by_character_list) - state-set lists taken from a node or from taxon_state_sets_map are shared with the caller and with other trees and are only ever rebound")
        n11 = 0
        FRESH_CALLS = {"list", "set", "dict", "tuple", "frozenset", "sorted", "_NodeStateSetMap"}

        def fresh(v):
            return isinstance(v, (ast.List, ast.Dict, ast.Set, ast.ListComp, ast.SetComp, ast.DictComp, ast.Tuple)) or (isinstance(v, ast.Call) and call_name(v) in FRESH_CALLS) or (isinstance(v, ast.BinOp) and isinstance(v.op, ast.Mult) and (fresh(v.left) or fresh(v.right))) or (isinstance(v, ast.Subscript) and isinstance(v.slice, ast.Slice))
        for fi in index.functions_in_module("dendropy.model.parsimony"):
            binds = {}
            for st in walk_no_nested(fi.node):
                if isinstance(st, ast.Assign):
                    for t in st.targets:
                        if isinstance(t, ast.Name):
                            binds.setdefault(t.id, []).append(st.value)
                        elif isinstance(t, (ast.Tuple, ast.List)):
                            for e in t.elts:
                                if isinstance(e, ast.Name):
                                    binds.setdefault(e.id, []).append(None)
                elif isinstance(st, (ast.For, ast.comprehension)):
                    for x in ast.walk(st.target):
                        if isinstance(x, ast.Name):
                            binds.setdefault(x.id, []).append(None)
            sites = []
            for st in walk_no_nested(fi.node):
                tg = []
                if isinstance(st, ast.Assign):
                    tg = st.targets
                elif isinstance(st, ast.AugAssign):
                    tg = [st.target]
                elif isinstance(st, ast.Delete):
                    tg = st.targets
                for t in tg:
                    if isinstance(t, ast.Subscript) and isinstance(t.value, ast.Name):
                        sites.append((t.value.id, "%s[...] stored" % t.value.id, st))
                if isinstance(st, ast.AugAssign) and isinstance(st.target, ast.Name) and isinstance(st.op, (ast.BitOr, ast.BitAnd, ast.BitXor)):
                    # `s |= other` on a set updates it in place
                    sites.append((st.target.id, "%s %s= ..." % (st.target.id, {"BitOr": "|", "BitAnd": "&", "BitXor": "^"}[type(st.op).__name__]), st))
                if isinstance(st, ast.Call) and isinstance(st.func, ast.Attribute) and st.func.attr in MUTATORS and isinstance(st.func.value, ast.Name):
                    sites.append((st.func.value.id, "%s.%s()" % (st.func.value.id, st.func.attr), st))
            for nm, what, st in sites:
                if nm == "self" or nm == (fi.node.args.kwarg.arg if fi.node.args.kwarg else None):
                    continue
                n11 += 1
                vals = binds.get(nm)
                ok = nm == "score_by_character_list" or (bool(vals) and all(v is not None and fresh(v) for v in vals))
                rep.check(ok, "R16.11", fi.qualname, "in-place write to `%s`, which the function did not build" % nm, fn_where(fi, st),
                          "%s: %s goes to a list built here" % (fi.name, what),
                          "%s: %s writes in place into `%s`, which is %s: state-set lists read from a node attribute or from taxon_state_sets_map are the caller's (the same list serves every tree scored against the matrix and the matrix-derived map itself), so refilling one corrupts the leaf states of later scoring calls" % (fi.qualname, what, nm, "a parameter" if not vals else "bound to `%s`" % "`, `".join(sorted({norm(v)[:40] if v is not None else "an unpacked value" for v in vals}))))
        rep.floor("R16.11", "in-place writes in the parsimony module", 4, n11)

    # ---- R16.12 a cache follows every field it was computed from
    with rep.section("R16.12"):
        rep.rule("R16.12", "a cache follows every field it was computed from: a lazily computed cache of StateIdentity whose getter reads a designation field that the ALPHABET assigns from outside (`_index`, `is_gap_state`, `gap_state_as_no_data_state`) is dropped - set to None on the same state, or through a StateIdentity method that does so - by every function that assigns that field; otherwise a state scored once keeps the index set of the old designation (a gap read as missing data stops covering states added later, and a gap designated after a first scoring call is still scored as an ordinary state)")
        SI = "dendropy.datamodel.charstatemodel.StateIdentity"
        sic = index.klass(SI)
        getters = {}
        for m_ in sic.methods.values():
            for iff in walk_no_nested(m_.node):
                if isinstance(iff, ast.If):
                    cp = compare_parts(iff.test)
                    if cp and cp[1] == "Is" and is_none(cp[2]) and isinstance(cp[0], ast.Attribute) and norm(cp[0].value) == "self":
                        x = cp[0].attr
                        if any(isinstance(a, ast.Assign) and norm(a.targets[0]) == "self." + x for a in ast.walk(iff)):
                            getters[x] = m_
        own_fields = {w.attr for w in writes_in(sic.methods["__init__"].node) if w.base is not None and norm(w.base) == "self"}
        resetters = {}
        for m_ in sic.methods.values():
            rs = {w.attr for w in writes_in(m_.node) if w.kind == "store" and w.base is not None and norm(w.base) == "self" and w.value is not None and is_none(w.value)}
            if rs:
                resetters[m_.name] = rs
        props = {}
        for st in sic.node.body:
            if isinstance(st, ast.Assign) and isinstance(st.value, ast.Call) and call_name(st.value) == "property" and len(st.value.args) > 1:
                props[norm(st.targets[0])] = norm(st.value.args[1])
        n12 = 0
        for fi in index.functions_in_module("dendropy.datamodel.charstatemodel"):
            outside = [w for w in writes_in(fi.node) if w.kind == "store" and w.attr in own_fields and w.base is not None and norm(w.base) != "self" and w.attr not in getters]
            for w in outside:
                need = sorted(c_ for c_, g_ in getters.items() if any(isinstance(x, ast.Attribute) and x.attr == w.attr and isinstance(x.ctx, ast.Load) for x in ast.walk(g_.node)))
                if not need:
                    continue
                n12 += 1
                base = norm(w.base)
                dropped = set()
                for w2 in writes_in(fi.node):
                    if w2.base is not None and norm(w2.base) == base and w2.kind == "store":
                        if w2.value is not None and is_none(w2.value):
                            dropped.add(w2.attr)
                        if w2.attr in props and props[w2.attr] in resetters:
                            dropped |= resetters[props[w2.attr]]
                for c in calls_in(fi.node):
                    if isinstance(c.func, ast.Attribute) and norm(c.func.value) == base and c.func.attr in resetters:
                        dropped |= resetters[c.func.attr]
                missing = [c_ for c_ in need if c_ not in dropped]
                rep.check(not missing, "R16.12", fi.qualname, "`%s.%s` assigned, %s kept" % (base, w.attr, missing), fn_where(fi, w.stmt), "%s: %s.%s assigned and %s dropped" % (fi.name, base, w.attr, need),
                          "%s assigns `%s.%s` but leaves the state's cached %s in place, although the getter of that cache reads `%s`: a state whose index set was computed once (by an earlier scoring call) keeps it after the alphabet is recompiled - the gap, read as missing data, does not cover a fundamental state added later, and a symbol designated as the gap after a first scoring call is still scored as an ordinary state, so the score of (tree, matrix) depends on what the alphabet was used for before" % (fi.qualname, base, w.attr, ", ".join(missing), w.attr))
        rep.floor("R16.12", "assignments of designation fields from outside the state", 3, n12)

    # ---- R16.13 a state set is the expansion of the state, whatever kind of state it is
    with rep.section("R16.13"):
        rep.rule("R16.13", "a state set is the expansion of the state, whatever kind of state it is: every value a StateIdentity getter stores into `_fundamental_symbols`, `_fundamental_indexes` or `_fundamental_indexes_with_gaps_as_missing` is computed from `fundamental_states` (directly or through a local filtered from it) or delegated to the same property of another state (the gap standing in for 'no data') - never from the state's own `_index` / `symbol`: a polymorphic `(01)` or ambiguous `{01}` state has no fundamental index of its own (the reader gives symbol-less ones the index None), so Fitch would score it as a state different from both 0 and 1")
        sicls = index.klass("dendropy.datamodel.charstatemodel.StateIdentity")
        n13 = 0
        for gname, gf in sorted(sicls.methods.items()):
            for st in ast.walk(gf.node):
                if not (isinstance(st, ast.Assign) and len(st.targets) == 1 and isinstance(st.targets[0], ast.Attribute) and norm(st.targets[0].value) == "self"
                        and st.targets[0].attr in ("_fundamental_symbols", "_fundamental_indexes", "_fundamental_indexes_with_gaps_as_missing")):
                    continue
                if is_none(st.value):
                    continue
                n13 += 1
                seen_names, work, texts = set(), [st.value], []
                while work:
                    e_ = work.pop()
                    texts.append(norm(e_))
                    for x in ast.walk(e_):
                        if isinstance(x, ast.Name) and isinstance(x.ctx, ast.Load) and x.id not in seen_names:
                            seen_names.add(x.id)
                            work.extend(a.value for a in ast.walk(gf.node) if isinstance(a, ast.Assign) and any(isinstance(t_, ast.Name) and t_.id == x.id for t_ in a.targets))
                blob = " ".join(texts)
                ok_ = "fundamental_states" in blob or (("." + st.targets[0].attr.lstrip("_")) in blob and "self." + st.targets[0].attr.lstrip("_") not in blob)
                rep.check(ok_, "R16.13", gf.qualname, "`%s` not computed from the fundamental states" % st.targets[0].attr, fn_where(gf, st), "%s: `%s` expands fundamental_states" % (gname, norm_stmt(st)[:60]),
                          "%s stores `%s`: the state set is not computed from `fundamental_states` - a multistate cell (polymorphic `(01)`, or any state with member states) is reduced to its own index, which for symbol-less states is None, so with gaps treated as missing (the default) `((a,b),(c,d))` with a=(01), b=c=d=1 scores 1 instead of 0" % (gf.qualname, norm_stmt(st)[:70]))
        rep.floor("R16.13", "stores into the state-set caches", 3, n13)

    # ---- R16.14 the passes walk a tree of any depth
    with rep.section("R16.14"):
        rep.rule("R16.14", "the scoring passes walk a tree of any depth (C07 R07.11): Node.postorder_iter / preorder_iter, which fitch_down_pass and fitch_up_pass are fed from, contain no call of the same method on another node - a recursive generator makes a ladder tree of 1500 leaves unscorable (RecursionError) while the parsimony code itself is iterative")
        nb = borrow(index, rep, "C07", {"R07.11"}, "R16.14")
        rep.floor("R16.14", "borrowed obligations", 2, nb)

    # ---- R16.15 a compile pass decides the gap designation of EVERY state afresh
    with rep.section("R16.15"):
        rep.rule("R16.15", "a compile pass decides the gap designation of every state afresh: in StateAlphabet.compile_symbol_lookup_mappings the test that marks the gap state (`state.is_gap_state = True`, `gap_state_as_no_data_state = <no-data state>`) has a plain `else` that assigns BOTH fields their 'not the gap' values - a designation that was withdrawn or moved (`sa.gap_symbol = None`) must not survive on the former gap state, or two alphabets that are identical now score differently depending on their history")
        csl = index.function("dendropy.datamodel.charstatemodel.StateAlphabet.compile_symbol_lookup_mappings")
        marks = [i for i in ast.walk(csl.node) if isinstance(i, ast.If) and any(isinstance(a, ast.Assign) and isinstance(a.targets[0], ast.Attribute) and a.targets[0].attr == "is_gap_state" and isinstance(a.value, ast.Constant) and a.value.value is True for a in i.body)]
        if len(marks) != 1:
            raise AnalysisError("R16.15: the gap-marking test of compile_symbol_lookup_mappings not recognised")
        iff = marks[0]
        plain_else = bool(iff.orelse) and not (len(iff.orelse) == 1 and isinstance(iff.orelse[0], ast.If))
        reset = {a.targets[0].attr for a in iff.orelse if isinstance(a, ast.Assign) and isinstance(a.targets[0], ast.Attribute)} if plain_else else set()
        rep.check(plain_else and {"is_gap_state", "gap_state_as_no_data_state"} <= reset, "R16.15", csl.qualname, "a withdrawn gap designation is not reset", fn_where(csl, iff), "compile_symbol_lookup_mappings resets both gap fields for every state that is not the gap",
                  "StateAlphabet.compile_symbol_lookup_mappings does not unconditionally reset %s for a state that is not (or no longer) the gap: after `sa.gap_symbol = None` the former gap state keeps its flag and is still scored as missing data under gaps_as_missing=True (5 changes where the alphabet as it now stands gives 10)" % sorted({"is_gap_state", "gap_state_as_no_data_state"} - reset))
