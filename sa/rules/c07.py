"""C07 Re-rooting and re-orienting never change the underlying unrooted tree."""
import ast

from .common import *  # noqa

TM = "dendropy.datamodel.treemodel."
TREE = TM + "_tree.Tree"
NODE = TM + "_node.Node"
EDGE = TM + "_edge.Edge"
HARD = ["reroot_at_node", "reroot_at_edge", "reroot_at_midpoint"]
SOFT = ["reseed_at", "to_outgroup_position", "randomly_reorient", "randomly_rotate", "ladderize", "reorder"]


def rooting_writes(index, fi, depth=4, _seen=None):
    """(function, value text, node) for every store to is_rooted/_is_rooted
    reachable through self-resolved calls."""
    _seen = _seen if _seen is not None else set()
    if fi.qualname in _seen or depth < 0:
        return []
    _seen.add(fi.qualname)
    out = []
    for w in writes_in(fi.node):
        if w.attr in ("is_rooted", "_is_rooted", "is_unrooted") and isinstance(w.base, ast.Name) and w.base.id == "self":
            out.append((fi, w.attr, norm(w.value) if w.value is not None else "?", w.stmt))
    for c in calls_in(fi.node):
        grade, cands = index.resolve_call(c, fi)
        if grade == "self":
            for cand in cands:
                if isinstance(getattr(cand, "node", None), ast.FunctionDef):
                    out.extend(rooting_writes(index, cand, depth - 1, _seen))
    return out


def self_calls(index, fi, depth=4, _seen=None):
    _seen = _seen if _seen is not None else set()
    if fi.qualname in _seen or depth < 0:
        return set()
    _seen.add(fi.qualname)
    out = set()
    for c in calls_in(fi.node):
        grade, cands = index.resolve_call(c, fi)
        if grade == "self":
            for cand in cands:
                out.add(cand.name)
                if isinstance(getattr(cand, "node", None), ast.FunctionDef):
                    out |= self_calls(index, cand, depth - 1, _seen)
    return out


def run(index, rep, tier):
    rep.rule("R07.1", "hard operations (reroot_at_*): `self.is_rooted = True` (or a call to another hard operation) lies on every normal path")
    rep.rule("R07.2", "soft operations (reseed_at, to_outgroup_position, randomly_reorient, randomly_rotate, ladderize, reorder) never store True to the rooting flag and never call a hard operation; the only rooting write they can reach is the unrooted basal collapse")
    rep.rule("R07.3", "to_outgroup_position re-inserts the outgroup at index 0 of the node it reseeded at")
    rep.rule("R07.4", "every site that splices out a node with a single child merges that node's edge length into the child's (total length and path lengths are conserved)")
    rep.rule("R07.5", "reroot_at_edge wires length1 to the new root-side edge and length2 to the old head's edge")
    rep.rule("R07.6", "Edge.invert swaps the two edge lengths (a true swap), and the basal collapse adds the deleted edge's length to its sibling")

    # ---- R07.1
    with rep.section("R07.1"):
        for name in HARD:
            fi = index.function(TREE + "." + name)
            cfg = cfg_of(fi)

            def sets_rooted(n):
                if n.kind == "stmt" and isinstance(n.ast, ast.Assign) and norm(n.ast.targets[0]) in ("self.is_rooted", "self._is_rooted") and const_value(n.ast.value) is True:
                    return True
                return any(call_name(c) in HARD and norm(c.func.value) == "self" for c in node_calls(n) if isinstance(c.func, ast.Attribute))
            ok, w = cfg.must_pass(cfg.entry, sets_rooted)
            rep.check(ok, "R07.1", fi.qualname, "is_rooted = True on every path", fn_where(fi), "%s sets the tree rooted on every normal path" % name,
                      "%s can return without setting self.is_rooted = True: a hard re-rooting leaves the tree's rooting flag as it was" % fi.qualname)
            # the rooting flag is set before any re-encoding: the encoder reads it (an unrooted tree's basal bifurcation is collapsed)
            def encodes(n):
                for c in node_calls(n):
                    if not (isinstance(c.func, ast.Attribute) and norm(c.func.value) == "self"):
                        continue
                    if c.func.attr in ("update_bipartitions", "encode_bipartitions", "_update_bipartitions"):
                        return True
                    if c.func.attr in SOFT:
                        ub = get_kwarg(c, "update_bipartitions")
                        if ub is not None and const_value(ub, default=True) is not False:
                            return True
                return False
            for n in cfg.nodes:
                if encodes(n):
                    ok = cfg.dominated_by(n, sets_rooted, follow_exc=False)
                    rep.check(ok, "R07.1", fi.qualname, "re-encoding before the rooting flag is set", fn_where(fi, n.stmt), "%s: the bipartition update at line %d runs after is_rooted = True" % (name, n.lineno),
                              "%s re-encodes the bipartitions (`%s`) on a path where self.is_rooted has not yet been set True: the encoder sees the old (unrooted) flag, collapses the new basal bifurcation and caches unrooted bipartitions, so the result is not the requested rooted tree" % (fi.qualname, norm_stmt(n.stmt)[:70]))
            # and nothing resets it afterwards
            after = [n for n in cfg.nodes if n.kind == "stmt" and isinstance(n.ast, ast.Assign) and norm(n.ast.targets[0]) in ("self.is_rooted", "self._is_rooted")
                     and const_value(n.ast.value) is not True]
            rep.check(not after, "R07.1", fi.qualname, "no other rooting store", fn_where(fi, after[0].stmt if after else None), "%s stores nothing but True to the rooting flag" % name,
                      "%s stores `%s` to the rooting flag" % (fi.qualname, norm_stmt(after[0].stmt) if after else ""))

    # ---- R07.2
    with rep.section("R07.2"):
        for name in SOFT:
            fi = index.function(TREE + "." + name)
            ws = rooting_writes(index, fi)
            bad = [(f, a, v, st) for f, a, v, st in ws if not ((a in ("is_rooted", "_is_rooted") and v == "False" and f.name in ("collapse_basal_bifurcation", "polytomize_root"))
                                                              or f.name in ("_set_is_rooted", "_set_is_unrooted"))]
            for f, a, v, st in bad:
                rep.check(False, "R07.2", fi.qualname, "reaches `%s` in %s" % (norm_stmt(st), f.name), fn_where(f, st), "soft operation reaches a rooting write",
                          "the soft operation %s reaches `%s` (in %s): operations documented as soft must leave the rooting flag as it was" % (fi.qualname, norm_stmt(st), f.qualname))
            calls = self_calls(index, fi)
            hard_called = sorted(calls & set(HARD))
            rep.check(not hard_called and not bad, "R07.2", fi.qualname, "calls hard operation %s" % hard_called, fn_where(fi),
                      "%s: transitive self-calls %s contain no hard operation and no rooting store other than the unrooted basal collapse (%d rooting writes reached)" % (name, sorted(calls)[:6], len(ws)),
                      "the soft operation %s calls the hard operation(s) %s, which set the tree rooted" % (fi.qualname, hard_called))
        # the basal collapse is only reached under `not self._is_rooted`
        for name in ("reseed_at",):
            fi = index.function(TREE + "." + name)
            cfg = cfg_of(fi)
            for n in cfg.nodes:
                if any(call_name(c) == "collapse_basal_bifurcation" for c in node_calls(n)):
                    reach = cfg.reach([cfg.entry], follow_exc=False, edge_ok=lambda s, l, d: not (s.kind == "test" and norm(s.ast) == "self._is_rooted" and l == "f"))
                    rep.check(n not in reach, "R07.2", fi.qualname, "basal collapse only when not rooted", fn_where(fi, n.stmt), "reseed_at collapses the basal bifurcation only under `not self._is_rooted`",
                              "reseed_at can collapse the basal bifurcation (which marks the tree unrooted) of a ROOTED tree")

    # ---- R07.3
    with rep.section("R07.3"):
        fi = index.function(TREE + ".to_outgroup_position")
        og = [p for p in fi.params if p != "self"][0]
        rs = [c for c in calls_in(fi.node) if call_name(c) == "reseed_at"]
        ins = [c for c in calls_in(fi.node) if call_name(c) == "insert_child"]
        if len(rs) != 1:
            raise AnalysisError("R07.3: to_outgroup_position shape not recognised")
        # a child-list position looked up before the reseed is stale afterwards (reseed_at / the basal collapse splice children in)
        # ... unless this re-seeding cannot splice anything: both the unifurcation suppression and the basal collapse switched off by literal False
        _su, _cb = get_kwarg(rs[0], "suppress_unifurcations"), get_kwarg(rs[0], "collapse_unrooted_basal_bifurcation")
        reseed_splices = not (_su is not None and _cb is not None and const_value(_su, None) is False and const_value(_cb, None) is False)
        for n in walk_no_nested(fi.node):
            if not reseed_splices:
                break
            if isinstance(n, ast.Assign) and isinstance(n.targets[0], ast.Name) and isinstance(n.value, ast.Call) and call_name(n.value) == "index" and n.lineno < rs[0].lineno:
                uses = [u for u in walk_no_nested(fi.node) if isinstance(u, ast.Name) and u.id == n.targets[0].id and isinstance(u.ctx, ast.Load) and u.lineno > rs[0].lineno]
                rep.check(not uses, "R07.3", fi.qualname, "child position looked up before reseed_at and used after it", fn_where(fi, uses[0] if uses else n), "no stale child position",
                          "to_outgroup_position looks up a child-list position (`%s`) before reseed_at and uses it afterwards: re-seeding (and the basal collapse it may perform) splices children into that list, so the position can name a different child and the outgroup does not end up first" % norm_stmt(n))
        if not ins and not reseed_splices and [c for c in calls_in(fi.node) if call_name(c) == "insert" and c.args and const_value(c.args[0], -1) == 0 and c.lineno > rs[0].lineno and "_child_nodes" in norm(c.func.value)]:
            # the re-seeding cannot splice children in or out (both mechanisms off), so a position taken before it is still right and moving the outgroup to the front in place is the same operation
            rep.ob("R07.3", fn_where(fi), "to_outgroup_position moves the outgroup to index 0 of its parent's child list in place; the re-seeding before it cannot change positions", True)
            ins = None
        if ins is None:
            pass
        elif not ins:
            front = [c for c in calls_in(fi.node) if call_name(c) == "insert" and c.args and const_value(c.args[0], -1) == 0 and c.lineno > rs[0].lineno]
            direct = [c for c in front if len(c.args) > 1 and norm(c.args[1]) == og]
            rep.check(bool(direct), "R07.3", fi.qualname, "outgroup not re-inserted through insert_child(0, ...)", fn_where(fi, front[0] if front else rs[0]), "the outgroup node itself is inserted at index 0",
                      "to_outgroup_position no longer finishes with <reseed target>.insert_child(0, <outgroup>): after re-seeding, the outgroup's position among its parent's children is not what it was before, so only removing and re-inserting the node itself at index 0 guarantees that the outgroup is the first child of the root")
            raise AnalysisError("R07.3: to_outgroup_position does not use insert_child; the remaining R07.3 obligations were not evaluated")
        target = norm(rs[0].args[0]) if rs[0].args else norm(get_kwarg(rs[0], "new_seed_node"))
        if ins is None:
            ins = []
        last = ins[-1] if ins else None
        if last is not None:
            idx = last.args[0] if last.args else get_kwarg(last, "index")
            node = last.args[1] if len(last.args) > 1 else get_kwarg(last, "node")
            ok = norm(last.func.value) == target and const_value(idx, -1) == 0 and node is not None and norm(node) == og
            rep.check(ok, "R07.3", fi.qualname, norm(last), fn_where(fi, last), "outgroup re-inserted as %s.insert_child(0, %s)" % (target, og),
                      "to_outgroup_position finishes with `%s`: the outgroup must be inserted at index 0 of the node the tree was reseeded at (`%s`)" % (norm(last), target))
        pdef = [n for n in walk_no_nested(fi.node) if isinstance(n, ast.Assign) and norm(n.targets[0]) == target]
        ok = bool(pdef) and norm(pdef[0].value) in (og + "._parent_node", og + ".parent_node")
        rep.check(ok, "R07.3", fi.qualname, "reseed target = outgroup's parent", fn_where(fi), "the tree is reseeded at the outgroup's parent",
                  "to_outgroup_position reseeds at `%s`, not at the outgroup's parent" % (norm(pdef[0].value) if pdef else "?"))

    # ---- R07.4
    with rep.section("R07.4"):
        nsites = 0
        for modname in (TM + "_tree", TM + "_node"):
            for fi in index.functions_in_module(modname):
                for iff in walk_no_nested(fi.node):
                    if not isinstance(iff, ast.If):
                        continue
                    single = None
                    for t in ast.walk(iff.test):
                        cp = compare_parts(t) if isinstance(t, ast.Compare) else None
                        if cp and cp[1] == "Eq" and const_value(cp[2]) == 1 and isinstance(cp[0], ast.Call) and call_name(cp[0]) == "len":
                            single = norm(cp[0].args[0])
                        if isinstance(t, ast.Name) and t.id == "num_children":
                            pass
                    cp = compare_parts(iff.test.values[0]) if isinstance(iff.test, ast.BoolOp) else compare_parts(iff.test)
                    if single is None and cp and cp[1] == "Eq" and const_value(cp[2]) == 1 and isinstance(cp[0], ast.Name):
                        lend = [n for n in walk_no_nested(fi.node) if isinstance(n, ast.Assign) and norm(n.targets[0]) == cp[0].id and isinstance(n.value, ast.Call) and call_name(n.value) == "len"]
                        if lend:
                            single = cp[0].id
                    if single is None:
                        continue
                    body_calls = {call_name(c) for s in iff.body for c in calls_in(s)}
                    stores_memo = any(isinstance(n, ast.Assign) and isinstance(n.targets[0], ast.Subscript) and norm(n.targets[0].value) == "memo" for s in iff.body for n in ast.walk(s))
                    if not (body_calls & {"remove_child", "insert_child", "add_child"}) and not stores_memo:
                        continue
                    nsites += 1
                    merges = []
                    for s in iff.body:
                        for n in ast.walk(s):
                            if isinstance(n, (ast.Assign, ast.AugAssign)):
                                t = n.targets[0] if isinstance(n, ast.Assign) else n.target
                                if isinstance(t, ast.Attribute) and t.attr == "length" and ("length" in norm(n.value)):
                                    merges.append(n)
                    rep.check(bool(merges), "R07.4", fi.qualname, "splice-out of a node whose `%s` has one member, without length merge" % single, fn_where(fi, iff),
                              "%s: the single-child splice-out under `%s` merges edge lengths (%s)" % (fi.name, norm(iff.test), norm(merges[0])[:50] if merges else ""),
                              "%s splices out a node with a single child (under `%s`) and re-attaches the grandchildren without adding the removed node's edge length to theirs: total tree length and leaf-to-leaf path lengths change" % (fi.qualname, norm(iff.test)))
        rep.floor("R07.4", "single-child splice-out sites", 5, nsites)

    # ---- R07.4 merge semantics at the splice-out sites reached by re-seeding
    with rep.section("R07.4 merge semantics"):
        from . import c08
        for q in (TREE + ".suppress_unifurcations", TREE + ".encode_bipartitions", TREE + ".collapse_basal_bifurcation"):
            fi = index.function(q)
            res = c08.merge_semantics(fi)
            if res is None:
                raise AnalysisError("R07.4: %s: the edge-length merge at the single-child splice-out site was not recognised" % q)
            iff, removed, child, table = res
            want = {(False, False): "C+R", (False, True): "R", (True, False): "C", (True, True): "None"}
            bad = {k: v for k, v in table.items() if v != want[k]}
            rep.check(not bad, "R07.4", fi.qualname, "length merge at the splice-out site", fn_where(fi, iff), "%s: splicing out a single-child node conserves the path length in all four None-ness cases" % fi.name,
                      "%s splices out a node with one child and merges the edge lengths wrongly for (removed is None, child is None) -> child afterwards %s (expected %s): re-seeding / outgroup positioning with update_bipartitions (which suppresses the old root through this code) silently drops that edge's length, so the total tree length and every path across it shrink"
                      % (fi.qualname, {k: table[k] for k in sorted(bad)}, {k: want[k] for k in sorted(bad)}))

    # ---- R07.7
    with rep.section("R07.7"):
        rep.rule("R07.7", "a zero length is a length: in the tree model and the distance code an edge length is never tested by truthiness (only against None), so 0 / 0.0 are not mistaken for 'no length'")
        nlen = 0
        for m in (TM + "_tree", TM + "_node", TM + "_edge", "dendropy.calculate.phylogeneticdistance", "dendropy.calculate.treemeasure"):
            for fi in index.functions_in_module(m):
                if not any(isinstance(x, ast.Attribute) and x.attr in ("length", "edge_length") for x in ast.walk(fi.node)):
                    continue
                cfg = cfg_of(fi)
                for n in cfg.nodes:
                    if n.kind != "test":
                        continue
                    e = n.ast
                    islen = isinstance(e, ast.Attribute) and (e.attr == "edge_length" or (e.attr == "length" and isinstance(e.value, ast.Attribute) and e.value.attr in ("edge", "_edge")))
                    if islen:
                        nlen += 1
                        rep.check(False, "R07.7", fi.qualname, "edge length tested by truthiness: %s" % norm(e), fn_where(fi, n.stmt), "",
                                  "%s tests the edge length `%s` by truthiness: a length of 0 (zero-length terminal branches, ties) is then handled as a missing length, so distances from the root and the choice of the deeper of two most distant leaves in midpoint rooting go wrong exactly in the equal/zero-length cases the property names" % (fi.qualname, norm(e)))
                    cp = compare_parts(e) if isinstance(e, ast.Compare) else None
                    if cp and is_none(cp[2]) and isinstance(cp[0], ast.Attribute) and cp[0].attr in ("length", "edge_length"):
                        nlen += 1
                        rep.ob("R07.7", fn_where(fi, n.stmt), "%s: `%s` tests the length against None" % (fi.name, norm(e)[:50]), True)
        rep.floor("R07.7", "tests on edge lengths in the tree model", 20, nlen)
        numeric_truthiness_rule(index, rep, "R07.7", [TM + "_tree", TM + "_node", TM + "_edge"])

    # ---- R07.8
    with rep.section("R07.8"):
        rep.rule("R07.8", "the depth the midpoint search compares is one quantity for every node: in Node.distance_from_root every live return taken by a node that has a parent goes through the ancestor walk, whether or not the node has a length of its own (a comparison of a bound method with None is a dead test and its branch is ignored)")
        fi = index.function(TM + "_node.Node.distance_from_root")
        nk = index.klass(TM + "_node.Node")
        cfg = cfg_of(fi)

        def dead_label(t):
            # `X.method == None` / `is None` is always false, `!= None` / `is not None` always true
            e = t.ast
            if isinstance(e, ast.Compare) and len(e.ops) == 1 and is_none(e.comparators[0]) and isinstance(e.left, ast.Attribute):
                meth = None
                for k_ in index.mro(nk):
                    if e.left.attr in k_.methods and e.left.attr not in getattr(k_, "properties", {}):
                        meth = k_.methods[e.left.attr]
                        break
                if meth is not None and not any(norm(d).split(".")[-1] in ("property", "setter", "getter") for d in meth.node.decorator_list):
                    return "t" if isinstance(e.ops[0], (ast.Eq, ast.Is)) else "f"
            return None
        dead = {t.id: dead_label(t) for t in cfg.nodes if t.kind == "test" and dead_label(t)}

        def edge_ok(a, lab, b):
            return not (a.id in dead and dead[a.id] == lab) and lab != "e"
        walks = [n for n in cfg.nodes if n.kind in ("test", "loop", "join") and isinstance(n.stmt, ast.While) and any(isinstance(a, ast.Assign) and isinstance(a.value, ast.Attribute) and a.value.attr in ("_parent_node", "parent_node") and norm(a.targets[0]) == norm(a.value.value) for a in ast.walk(n.stmt))]
        if not walks:
            raise AnalysisError("R07.8: ancestor walk of Node.distance_from_root not recognised")
        walk_ids = {n.id for n in walks}

        def has_parent(a, lab, b):
            # the paths a node WITH a parent can take: the false edge of a test of its parent link is not one of them
            if a.kind == "test" and norm(a.ast) in ("self._parent_node", "self.parent_node") and lab == "f":
                return False
            if a.kind == "test" and isinstance(a.ast, ast.Compare) and len(a.ast.ops) == 1 and norm(a.ast.left) in ("self._parent_node", "self.parent_node") and is_none(a.ast.comparators[0]):
                if (isinstance(a.ast.ops[0], (ast.Is, ast.Eq)) and lab == "t") or (isinstance(a.ast.ops[0], (ast.IsNot, ast.NotEq)) and lab == "f"):
                    return False
            return edge_ok(a, lab, b)
        seen = cfg.reach([cfg.entry], avoid=lambda n: n.id in walk_ids, follow_exc=False, edge_ok=has_parent)
        live = cfg.reach([cfg.entry], follow_exc=False, edge_ok=has_parent)
        nret = 0
        for n in cfg.nodes:
            if isinstance(n.stmt, ast.Return) and n.kind == "stmt" and n in live:
                nret += 1
                short = any(x is n for x in seen)
                rep.check(not short, "R07.8", fi.qualname, "return `%s` skips the ancestor walk" % norm(n.stmt.value)[:40], fn_where(fi, n.stmt), "distance_from_root: `return %s` follows the ancestor walk" % norm(n.stmt.value)[:40],
                          "Node.distance_from_root returns `%s` for a node that has a parent without walking its ancestors, while other nodes get the sum over all ancestor edges including the root's own: the depths reroot_at_midpoint compares to decide which of the most distant leaves to climb from are then different quantities (a node without a length of its own is given its parent's length only, and float(None) is raised when that is missing too), so the climb can start from the wrong leaf" % norm(n.stmt.value)[:60])
        rep.floor("R07.8", "live returns of distance_from_root for a node with a parent", 1, nret)
        rep.note("R07.8 dead tests ignored: %s" % ", ".join("`%s` (never %s)" % (norm(t.ast), "true" if dead[t.id] == "t" else "false") for t in cfg.nodes if t.id in dead))

    # ---- R07.5
    with rep.section("R07.5"):
        fi = index.function(TREE + ".reroot_at_edge")
        nc = [c for c in calls_in(fi.node) if call_name(c) == "new_child"]
        ok1 = len(nc) == 1 and norm(get_kwarg(nc[0], "edge_length")) == "length1" if nc and get_kwarg(nc[0], "edge_length") is not None else False
        l2 = [n for n in walk_no_nested(fi.node) if isinstance(n, ast.Assign) and norm(n.value) == "length2"]
        ok2 = len(l2) == 1 and norm(l2[0].targets[0]).endswith(".edge.length")
        heads = [n for n in walk_no_nested(fi.node) if isinstance(n, ast.Assign) and norm(n.value) == "edge.head_node"]
        ok3 = bool(heads) and ok2 and norm(l2[0].targets[0]) == norm(heads[0].targets[0]) + ".edge.length"
        rep.check(ok1 and ok3, "R07.5", fi.qualname, "length wiring", fn_where(fi), "reroot_at_edge: new node's edge gets length1, the old head's edge gets length2",
                  "reroot_at_edge no longer gives the new root-side edge `length1` and the old head node's edge `length2`: the new root does not lie at the requested distances")
        tail = [n for n in walk_no_nested(fi.node) if isinstance(n, ast.Assign) and norm(n.value) == "edge.tail_node"]
        ok = bool(nc) and bool(tail) and norm(nc[0].func.value) == norm(tail[0].targets[0])
        rep.check(ok, "R07.5", fi.qualname, "new node hangs on the old tail", fn_where(fi), "the new root node is created as a child of the edge's tail node",
                  "reroot_at_edge creates the new node under `%s`, not under the edge's tail node" % (norm(nc[0].func.value) if nc else "?"))
        rr = [c for c in calls_in(fi.node) if call_name(c) == "reroot_at_node"]
        ok = len(rr) == 1 and nc and isinstance(pm_target(fi, nc[0]), str) and norm(rr[0].args[0]) == pm_target(fi, nc[0])
        rep.check(bool(ok), "R07.5", fi.qualname, "rerooted at the new node", fn_where(fi), "the tree is re-rooted at the inserted node",
                  "reroot_at_edge re-roots at `%s`, not at the node it inserted on the edge" % (norm(rr[0].args[0]) if rr and rr[0].args else "?"))

    # ---- R07.6
    with rep.section("R07.6"):
        fi = index.function(EDGE + ".invert")
        swaps = [n for n in walk_no_nested(fi.node) if isinstance(n, ast.Assign) and isinstance(n.targets[0], ast.Tuple) and isinstance(n.value, ast.Tuple)
                 and len(n.targets[0].elts) == 2 and all("length" in norm(e) for e in n.targets[0].elts)]
        ok = False
        if len(swaps) == 1:
            a, b = [norm(e).replace("edge_length", "edge.length") for e in swaps[0].targets[0].elts]
            c, d = [norm(e).replace("edge_length", "edge.length") for e in swaps[0].value.elts]
            ok = (a, b) == (d, c) and a != b
        rep.check(ok, "R07.6", fi.qualname, "edge length swap", fn_where(fi, swaps[0] if swaps else None), "Edge.invert swaps the lengths of the two edges",
                  "Edge.invert's length assignment is not a swap of the two edges' lengths: re-seeding changes path lengths")
        fi = index.function(TREE + ".collapse_basal_bifurcation")
        from . import c08 as _c08
        res = _c08.merge_semantics(fi)
        cfg = cfg_of(fi)
        col = [n for n in cfg.nodes if any(call_name(c) == "collapse" for c in node_calls(n))]
        ok = res is not None and bool(col)
        if ok:
            frag = res[0]
            fn_ = [n for n in cfg.nodes if n.stmt is frag or any(n.stmt is x for x in ast.walk(frag))]
            ids = {n.id for n in fn_}
            # the merge happens before the collapse on every path (the table of what it does is checked by R07.4)
            ok = bool(ids) and all(cfg.dominated_by(cn, lambda n: n.id in ids, follow_exc=False) for cn in col)
        rep.check(ok, "R07.6", fi.qualname, "sibling absorbs the deleted basal edge", fn_where(fi), "collapse_basal_bifurcation merges the deleted edge's length into the kept sibling before collapsing",
                  "collapse_basal_bifurcation no longer merges the deleted basal edge's length into its sibling before collapsing: path lengths across the old root change")

    # ---- R07.9 the midpoint's spanning pair is the maximum over every pair
    with rep.section("R07.9"):
        rep.rule("R07.9", "the pair of leaves midpoint rooting spans is the maximum over EVERY pair of mapped taxa: max_pairwise_distance_taxa scans the complete pair set (one loop over _all_distinct_mapped_taxa_pairs without break/early exit, or max() over it), compares the distance of the pair in hand - a search that prunes pairs (furthest-from-furthest sweeps) is exact only for non-negative lengths, and edge lengths may be negative")
        mp = index.function("dendropy.calculate.phylogeneticdistance.PhylogeneticDistanceMatrix.max_pairwise_distance_taxa")
        PAIRS = "_all_distinct_mapped_taxa_pairs"
        loops = [l for l in walk_no_nested(mp.node) if isinstance(l, ast.For) and any(isinstance(x, ast.Attribute) and x.attr == PAIRS for x in ast.walk(l.iter))]
        maxes = [c for c in calls_in(mp.node) if call_name(c) == "max" and any(isinstance(x, ast.Attribute) and x.attr == PAIRS for a in c.args for x in ast.walk(a))]
        allfors = [l for l in walk_no_nested(mp.node) if isinstance(l, (ast.For, ast.While))]
        if maxes and not allfors:
            rep.ob("R07.9", fn_where(mp), "max_pairwise_distance_taxa: max() over the complete pair set", True)
        else:
            ok = len(loops) == 1 and len(allfors) == 1
            why = "no single scan of the complete pair set (%d loops, %d over %s)" % (len(allfors), len(loops), PAIRS)
            if ok:
                l = loops[0]
                esc = [x for st in l.body for x in ast.walk(st) if isinstance(x, (ast.Break, ast.Return))]
                if esc:
                    ok, why = False, "the scan leaves the loop early (line %d)" % esc[0].lineno
                tn = {x.id for x in ast.walk(l.target) if isinstance(x, ast.Name)}
                # the distance compared is that of the pair in hand: a subscript of subscript by the loop's own names
                subs = [x for st in l.body for x in ast.walk(st) if isinstance(x, ast.Subscript) and isinstance(x.value, ast.Subscript)
                        and {y.id for y in ast.walk(x.slice) if isinstance(y, ast.Name)} | {y.id for y in ast.walk(x.value.slice) if isinstance(y, ast.Name)} == tn]
                if ok and (len(tn) != 2 or not subs):
                    ok, why = False, "the distance compared is not that of the pair in hand"
                # nested call to a helper that searches on its own
                helpers = [c for st in l.body for c in ast.walk(st) if isinstance(c, ast.Call) and isinstance(c.func, ast.Attribute) and norm(c.func.value) == "self"]
                if ok and helpers:
                    ok, why = False, "the scan defers to `%s`" % norm(helpers[0].func)
            rep.check(ok, "R07.9", mp.qualname, "pruned search for the most distant pair", fn_where(mp), "max_pairwise_distance_taxa scans every pair once",
                      "PhylogeneticDistanceMatrix.max_pairwise_distance_taxa: %s - reroot_at_midpoint takes the ends of the longest leaf-to-leaf path from here; a search that does not look at every pair is exact only when all edge lengths are non-negative, and with a negative internal edge (neighbour-joining trees) the root is placed half-way along a path that is not the longest" % why)

    # ---- R07.10 a midpoint that falls on a node is the node at the TOP of the edge just measured
    with rep.section("R07.10"):
        rep.rule("R07.10", "a midpoint that falls on a node is the node at the top of the edge just measured: in the climb of reroot_at_midpoint, when the remaining half-length equals the length of the climbing node's edge, the whole edge has been used up and the midpoint is that node's PARENT - the node recorded as the new root is `<climber>._parent_node`, never the climber itself (which sits a full edge below the midpoint, and may be a leaf)")
        mp_ = index.function(TREE + ".reroot_at_midpoint")
        loops = [l for l in walk_no_nested(mp_.node) if isinstance(l, ast.While)]
        sites = []
        for l in loops:
            climbers = {norm(t) for st in ast.walk(l) if isinstance(st, ast.Assign) for t in st.targets if isinstance(t, ast.Name) and isinstance(st.value, ast.Attribute) and st.value.attr in ("_parent_node", "parent_node") and norm(st.value.value) == norm(t)}
            if not climbers:
                continue
            for st in ast.walk(l):
                if isinstance(st, ast.Assign) and len(st.targets) == 1 and isinstance(st.targets[0], ast.Name) and st.targets[0].id not in climbers:
                    v = st.value
                    if isinstance(v, ast.Name) and v.id in climbers:
                        sites.append((st, v.id, False))
                    elif isinstance(v, ast.Attribute) and v.attr in ("_parent_node", "parent_node") and norm(v.value) in climbers:
                        sites.append((st, norm(v.value), True))
        if not sites:
            raise AnalysisError("R07.10: the climb of reroot_at_midpoint (a while loop that walks <node> = <node>._parent_node and records the node the midpoint falls on) was not recognised")
        for st, cl, ok in sites:
            rep.check(ok, "R07.10", mp_.qualname, "the climbing node itself recorded as the midpoint", fn_where(mp_, st), "reroot_at_midpoint: a midpoint on a node is recorded as the climber's parent",
                      "Tree.reroot_at_midpoint records `%s` when the remaining half-length equals the length of `%s`'s edge: the midpoint is then at the TOP of that edge, i.e. `%s._parent_node` - rooting at `%s` puts the root one full edge away from the midpoint (for ((A:1,B:1):1,(C:1,D:1):1) the root lands on (A,B): A at 1, C at 3), and when the climber is still the leaf itself the leaf becomes the root and its branch is lost" % (norm_stmt(st), cl, cl, cl))
        # the two ways of placing the root (on a node, inside an edge) re-seed with the same options
        rcs = [c for c in calls_in(mp_.node) if call_name(c) == "reseed_at"]
        if len(rcs) < 2:
            raise AnalysisError("R07.10: reroot_at_midpoint no longer re-seeds on both branches")
        kws = [{k.arg: norm(k.value) for k in c.keywords if k.arg} for c in rcs]
        for c, kw in zip(rcs, kws):
            v = kw.get("collapse_unrooted_basal_bifurcation")
            rep.check(v == "False", "R07.10", mp_.qualname, "re-seeding with the basal collapse left on", fn_where(mp_, c), "reroot_at_midpoint re-seeds with collapse_unrooted_basal_bifurcation=False",
                      "Tree.reroot_at_midpoint re-seeds with collapse_unrooted_basal_bifurcation=%s: the tree is about to be declared rooted, and when the midpoint is the degree-two root of an (until then) unrooted tree the collapse removes exactly the node the root has to sit on - the result is rooted one edge away from the midpoint" % v)

    # ---- R07.11 the traversals the re-rooting operations run on do not recurse on depth
    with rep.section("R07.11"):
        rep.rule("R07.11", "the traversals the re-rooting operations run on do not recurse on depth: Node.preorder_iter, postorder_iter, levelorder_iter and leaf_iter (what suppress_unifurcations, encode_bipartitions, ladderize and reorder walk the tree with) contain no call of the same method on another node - one generator frame per level makes every re-seeding of a tree a few thousand levels deep end in RecursionError, and the property quantifies over all tree shapes")
        nk = index.klass(NODE)
        n11 = 0
        for name in ("preorder_iter", "postorder_iter", "levelorder_iter", "leaf_iter"):
            f = nk.methods.get(name)
            if f is None:
                raise AnalysisError("R07.11: Node.%s vanished" % name)
            n11 += 1
            rec = [c for c in calls_in(f.node, nested=True) if call_name(c) == name and isinstance(c.func, ast.Attribute)]
            rep.check(not rec, "R07.11", f.qualname, "%s calls itself on another node" % name, fn_where(f, rec[0] if rec else None), "Node.%s walks with an explicit stack / queue" % name,
                      "Node.%s calls `%s`: the traversal nests one generator per level of the tree, so on a caterpillar a few thousand leaves long every operation that walks the tree - suppress_unifurcations inside reseed_at / reroot_at_node / to_outgroup_position, ladderize, encode_bipartitions - fails with RecursionError where the explicit-stack version handles 20000 levels" % (name, norm(rec[0])[:50] if rec else ""))
        rep.floor("R07.11", "basic traversals of Node", 4, n11)

    # ---- R07.12 the length of a tree is the sum over ALL its edges
    with rep.section("R07.12"):
        rep.rule("R07.12", "the length of a tree is the sum over all its edges: the loop of Tree.length over the edge iterator has no break / return inside, and the only thing that keeps an edge out of the sum is that its own length is None - an early exit makes the total depend on where in post-order the first length-less edge sits, so it changes under re-seeding although no length did")
        tl_ = index.function(TREE + ".length")
        loops = [l for l in walk_no_nested(tl_.node) if isinstance(l, ast.For) and any(isinstance(c, ast.Call) and call_name(c).endswith("edge_iter") for c in ast.walk(l.iter))]
        sums = [c for c in calls_in(tl_.node) if call_name(c) == "sum"]
        if not loops and not sums:
            raise AnalysisError("R07.12: Tree.length: summation over the edges not recognised")
        for l in loops:
            esc = [x for st in l.body for x in ast.walk(st) if isinstance(x, (ast.Break, ast.Return))]
            rep.check(not esc, "R07.12", tl_.qualname, "the summation leaves the loop early", fn_where(tl_, esc[0] if esc else l), "Tree.length visits every edge",
                      "Tree.length leaves its loop over the edges at `%s`: edges after the first one without a length are not counted, so the total is the sum of whatever precedes that edge in post-order - for ((A:1,B:2),(C:3,D:4):5,E:6) 3 instead of 21, and a different number after every re-seeding" % (norm_stmt(esc[0]) if esc else ""))
            tv = {x.id for x in ast.walk(l.target) if isinstance(x, ast.Name)}
            conds = [x.test for st in l.body for x in ast.walk(st) if isinstance(x, ast.If)]
            odd = [t for t in conds if not (isinstance(t, ast.Compare) and len(t.ops) == 1 and isinstance(t.ops[0], (ast.Is, ast.IsNot)) and is_none(t.comparators[0]) and norm(t.left).split(".")[0] in tv)]
            rep.check(not odd, "R07.12", tl_.qualname, "edges left out of the sum for another reason than a missing length", fn_where(tl_, odd[0] if odd else l), "Tree.length: only a None length keeps an edge out",
                      "Tree.length skips edges under `%s`: only a missing (None) length may keep an edge out of the total (a zero or negative length is a length)" % (norm(odd[0])[:50] if odd else ""))
        rep.ob("R07.12", fn_where(tl_), "Tree.length: %d summation loops examined" % len(loops), True)

    # ---- R07.13 describing a node never fails
    with rep.section("R07.13"):
        rep.rule("R07.13", "describing a node never fails: the re-rooting code looks nodes up with list.index() inside `try ... except ValueError`, and CPython builds that ValueError's message with repr(node) -> repr(taxon). So `__repr__` / `__str__` of Taxon, Node, Edge and Tree apply a string method to a label only behind an `is not None` test (or on `str(label)`): a taxon without a label - `Taxon()` - is legal, and an AttributeError raised while the message is built escapes the `except ValueError` half-way through to_outgroup_position, after the outgroup was detached")
        n13 = 0
        STRM = ("upper", "lower", "strip", "casefold", "startswith", "endswith", "split", "replace", "encode", "join", "title", "lstrip", "rstrip", "translate", "center", "ljust", "rjust", "zfill")
        for mod in ("dendropy.datamodel.taxonmodel", TM + "_node", TM + "_edge", TM + "_tree", TM + "_bipartition"):
            for fi in index.functions_in_module(mod):
                if fi.name not in ("__repr__", "__str__"):
                    continue
                n13 += 1
                g = None
                for c in calls_in(fi.node):
                    if isinstance(c.func, ast.Attribute) and c.func.attr in STRM and isinstance(c.func.value, ast.Attribute) and c.func.value.attr in ("label", "_label"):
                        x = norm(c.func.value)
                        g = g or cfg_of(fi)
                        nd = node_of_ast(g, c)

                        def unknown(s, l, d, x=x):
                            if s.kind == "test" and isinstance(s.ast, ast.Compare) and len(s.ast.ops) == 1 and norm(s.ast.left) == x and is_none(s.ast.comparators[0]):
                                if isinstance(s.ast.ops[0], ast.IsNot):
                                    return l != "t"
                                if isinstance(s.ast.ops[0], ast.Is):
                                    return l != "f"
                            return True
                        seen = g.reach([g.entry], follow_exc=False, edge_ok=unknown)
                        rep.check(nd is not None and nd not in seen, "R07.13", fi.qualname, "`%s` on a label that may be None" % norm(c)[:40], fn_where(fi, c), "%s: `%s` only for a label that is set" % (fi.qualname, norm(c)[:40]),
                                  "%s evaluates `%s` without having established `%s is not None`: a taxon without a label makes repr() raise AttributeError, and repr() is what CPython calls to build the ValueError of `list.index(node)` - in Node.insert_child / to_outgroup_position that error is expected and caught, the AttributeError is not, and the tree is left with the outgroup already detached (4 leaves and length 21 become 3 leaves and length 17)" % (fi.qualname, norm(c)[:50], x))
        rep.floor("R07.13", "__repr__ / __str__ methods of the tree and taxon model", 4, n13)


def pm_target(fi, call):
    pm = parent_map(fi.node)
    p = pm.get(call)
    if isinstance(p, ast.Assign):
        return norm(p.targets[0])
    return None
