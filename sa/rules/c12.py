"""C12 Copies are equal to their source and independent of it at the documented depth."""
import ast
import re

from .common import *  # noqa
from . import c08

DM = "dendropy.datamodel."
COPY_MODULES = [DM + "basemodel", DM + "taxonmodel", DM + "treemodel._tree", DM + "treemodel._node", DM + "treemodel._edge", DM + "treemodel._bipartition",
                DM + "treecollectionmodel", DM + "charmatrixmodel", DM + "charstatemodel", "dendropy.utility.container"]
COPY_NAMES = ("__deepcopy__", "_clone_from", "deep_copy_annotations_from")
COPY_BRANCH_INITS = (DM + "taxonmodel.TaxonNamespace.__init__", DM + "taxonmodel.Taxon.__init__")
DEEPCOPY_SELF_OK = {
    DM + "charstatemodel.StateAlphabet.__deepcopy__": "state alphabets are identity objects shared between matrices by design; the property's list of mutable parts (nodes, edges, taxa, namespace, annotations, sequences) does not include them",
    DM + "charstatemodel.StateIdentity.__deepcopy__": "state identities belong to their (shared) alphabet and compare by identity; sequences hold references to them by design",
}
SCOPED = [DM + "treemodel._tree.Tree", DM + "treecollectionmodel.TreeList", DM + "charmatrixmodel.CharacterMatrix"]


def _is_source_value(e):
    """self.X / self.__dict__[k] / getattr(self, k): a raw value of the source object"""
    if isinstance(e, ast.Subscript) and norm(e.value) == "self.__dict__":
        return True
    if isinstance(e, ast.Call) and call_name(e) == "getattr" and e.args and norm(e.args[0]) == "self":
        return True
    if isinstance(e, ast.Attribute) and norm(e.value) == "self" and not e.attr.startswith("__"):
        return True
    return False


SKIP_OK = {
    "*": {"_annotations": "copied afterwards by deep_copy_annotations_from, which re-targets bound attributes"},
    DM + "taxonmodel.TaxonNamespace.__init__": {"_taxa": "rebuilt taxon by taxon, in order, from the source list"},
    DM + "taxonmodel.TaxonNamespace.__deepcopy__": {"_taxa": "rebuilt taxon by taxon, in order, from the source list"},
}


def copy_skip_rule(index, rep, rid):
    """The attribute loop of a copy routine copies EVERY attribute except the ones listed (with the reason) in SKIP_OK:
    an attribute left out of the loop is re-created by the constructor instead of copied - e.g. the accession
    index tables of a namespace would restart at 0 and no longer agree with the source's bits."""
    n = 0
    for m in COPY_MODULES:
        for f in index.functions_in_module(m):
            if not (f.name in COPY_NAMES or f.qualname in COPY_BRANCH_INITS):
                continue
            for loop in walk_no_nested(f.node):
                if not (isinstance(loop, ast.For) and norm(loop.iter).endswith(".__dict__") and isinstance(loop.target, ast.Name)):
                    continue
                k = loop.target.id
                keys = set()
                for t in ast.walk(loop):
                    if isinstance(t, ast.Compare) and len(t.ops) == 1 and (norm(t.left) == k or norm(t.comparators[0]) == k):
                        other = t.comparators[0] if norm(t.left) == k else t.left
                        if isinstance(other, ast.Name):
                            defs = [a.value for a in walk_no_nested(f.node) if isinstance(a, ast.Assign) and norm(a.targets[0]) == other.id]
                            other = defs[0] if len(defs) == 1 else other
                        if isinstance(other, ast.Constant) and isinstance(other.value, str):
                            keys.add(other.value)
                        elif isinstance(other, (ast.Tuple, ast.List, ast.Set)) and all(isinstance(e, ast.Constant) for e in other.elts):
                            keys |= {e.value for e in other.elts}
                        elif isinstance(t.ops[0], (ast.In, ast.NotIn)) and (norm(other).endswith(".__dict__")):
                            continue        # `k in other.__dict__`: already set on the copy
                        else:
                            keys.add("<%s>" % norm(other)[:30])
                n += 1
                allowed = set(SKIP_OK["*"]) | set(SKIP_OK.get(f.qualname, {}))
                extra = sorted(keys - allowed)
                rep.check(not extra, rid, f.qualname, "attribute loop leaves out %s" % extra, fn_where(f, loop), "%s: the attribute loop leaves out only %s" % (f.qualname, sorted(keys) or "nothing"),
                          "%s skips the attribute(s) %s in its copy loop: they are then whatever the constructor / earlier statements produced instead of a copy of the source's (for a namespace: accession indices restarting at 0, so the copy's taxa no longer carry the bits of their originals once a taxon had been removed)" % (f.qualname, extra))
    return n


def shared_mutable_rule(index, rep, rid, modules):
    """no mutable default argument and no class-level mutable container mutated through instances"""
    ndef = 0
    for m in modules:
        mod = index.module(m)
        for f in index.functions_in_module(m):
            a = f.node.args
            for d in list(a.defaults) + [x for x in a.kw_defaults if x is not None]:
                ndef += 1
                mutable = isinstance(d, (ast.List, ast.Dict, ast.Set)) or (isinstance(d, ast.Call) and call_name(d) in ("list", "dict", "set", "OrderedDict", "defaultdict"))
                rep.check(not mutable, rid, f.qualname, "mutable default " + norm(d)[:40], fn_where(f, d), "default `%s` of %s is immutable" % (norm(d)[:20], f.name),
                          "%s has the mutable default argument `%s`: every object created with the default shares one container, so a change through one instance shows through all others" % (f.qualname, norm(d)[:40]))
        for ci in [c for c in index.classes.values() if c.module is mod]:
            for attr, val in ci.class_attrs.items():
                mutable = isinstance(val, (ast.List, ast.Dict, ast.Set)) or (isinstance(val, ast.Call) and call_name(val) in ("list", "dict", "set") and isinstance(val.func, ast.Name))
                if not mutable:
                    continue
                ndef += 1
                mutated = []
                for meth in ci.methods.values():
                    for w in writes_in(meth.node):
                        if w.attr == attr and isinstance(w.base, ast.Name) and w.base.id == "self" and w.kind in ("mutcall", "substore", "subdel", "augstore"):
                            mutated.append((meth, w))
                rebinds = any(w.attr == attr and w.kind == "store" for meth in ci.methods.values() if meth.name == "__init__" for w in writes_in(meth.node))
                rep.check(not mutated or rebinds, rid, ci.qualname, "class-level %s mutated via self" % attr, "%s:%d" % (mod.relpath, ci.node.lineno), "class attribute %s.%s is not mutated through instances" % (ci.name, attr),
                          "%s.%s is a class-level mutable container that %s mutates through `self` without an instance-level rebinding in __init__: all instances share it, so what one call (or one copy) stores is seen by the next" % (ci.qualname, attr, mutated[0][0].qualname if mutated else ""))
    return ndef


def canonical_locals(fi):
    """local name -> $n by order of first binding (source order)."""
    params = set(fi.all_params)
    binds = sorted(((n.lineno, n.col_offset, n.id) for n in ast.walk(fi.node) if isinstance(n, ast.Name) and isinstance(n.ctx, ast.Store) and n.id not in params))
    out = {}
    for _, _, nm in binds:
        out.setdefault(nm, "$%d" % (len(out) + 1))
    return out


def _memo_arg(call):
    if len(call.args) >= 2:
        return call.args[1]
    return get_kwarg(call, "memo")


def run(index, rep, tier):
    rep.rule("R12.1", "memo discipline: inside every copy-protocol function each copy.deepcopy passes the memo; the new object is registered under id(self) before the first recursive copy; _annotations is skipped in the attribute loop and copied afterwards by deep_copy_annotations_from with the memo")
    rep.rule("R12.2", "namespace-scoped copies pre-seed the memo: populate_memo maps the namespace and every taxon to itself and dominates __deepcopy__(memo=memo); _clone_from maps the namespace and every taxon before its deepcopy")
    rep.rule("R12.3", "thin clone whitelist: extract_subtree copies label, taxon, edge length/label and the back-reference only")
    rep.rule("R12.4", "no shared mutable defaults: no mutable default argument and no class-level mutable container mutated through instances in the data-model classes")

    # ---- R12.1
    with rep.section("R12.1"):
        funcs = []
        for m in COPY_MODULES:
            for f in index.functions_in_module(m):
                if f.name in COPY_NAMES or f.qualname in COPY_BRANCH_INITS:
                    funcs.append(f)
        ncalls = 0
        for f in funcs:
            dcs = [c for c in calls_in(f.node) if norm(c.func) == "copy.deepcopy"]
            for c in dcs:
                ncalls += 1
                m = _memo_arg(c)
                ok = m is not None and isinstance(m, ast.Name) and "memo" in m.id
                rep.check(ok, "R12.1", f.qualname, "deepcopy without memo: " + norm(c)[:70], fn_where(f, c), "%s: `%s` passes the memo" % (f.name, norm(c)[:50]),
                          "%s calls `%s` without the memo: substructure shared between attributes (a node reachable twice, a taxon referenced by several nodes) is duplicated instead of being copied once, and the copy's parts no longer refer to each other" % (f.qualname, norm(c)[:70]))
            # delegation to Annotable.__deepcopy__ passes memo
            for c in calls_in(f.node):
                if norm(c.func).endswith("Annotable.__deepcopy__"):
                    ncalls += 1
                    m = get_kwarg(c, "memo") or (c.args[1] if len(c.args) > 1 else None)
                    rep.check(m is not None and "memo" in norm(m), "R12.1", f.qualname, "delegation without memo: " + norm(c)[:60], fn_where(f, c), "%s delegates to Annotable.__deepcopy__ with its memo" % f.qualname,
                              "%s delegates to Annotable.__deepcopy__ without forwarding its memo: a namespace-scoped copy loses the pre-seeded namespace/taxa and deep-copies them" % f.qualname)
            if f.name == "__deepcopy__":
                news = [n for n in walk_no_nested(f.node) if isinstance(n, ast.Assign) and isinstance(n.value, ast.Call) and (call_name(n.value) == "__new__" or (isinstance(n.value.func, ast.Attribute) and norm(n.value.func) == "self.__class__"))]
                if news and dcs:
                    cfg = cfg_of(f)
                    newvar = norm(news[0].targets[0])

                    def registers(n, newvar=newvar):
                        return n.kind == "stmt" and isinstance(n.ast, ast.Assign) and norm(n.ast.targets[0]) == "memo[id(self)]" and norm(n.ast.value) == newvar

                    def obtained(n):
                        # `other = memo[id(self)]` succeeded: already registered by the caller
                        return n.kind == "stmt" and isinstance(n.ast, ast.Assign) and norm(n.ast.value) == "memo[id(self)]"
                    for c in dcs:
                        cn = node_of_ast(cfg, c)
                        # `other = memo[id(self)]` establishes registration only when it completes normally (not on its KeyError edge)
                        reach = cfg.reach([cfg.entry], avoid=lambda n: n is not cn and registers(n), follow_exc=True,
                                          edge_ok=lambda s_, l_, d_: not (obtained(s_) and l_ != "e"))
                        ok = cn is not None and all(x is not cn for x in reach)
                        rep.check(ok, "R12.1", f.qualname, "memo[id(self)] registered before " + norm(c)[:40], fn_where(f, c), "%s registers the new object in the memo before `%s`" % (f.qualname, norm(c)[:40]),
                                  "%s deep-copies an attribute (`%s`) before registering the new object under memo[id(self)]: a back-reference from the attribute to the object (node -> edge -> node) produces a second copy of the object" % (f.qualname, norm(c)[:50]))
            # _annotations skipped + copied after
            annotable = f.cls is not None and index.is_subclass(f.cls, DM + "basemodel.Annotable")
            loops = [l for l in walk_no_nested(f.node) if isinstance(l, ast.For) and norm(l.iter).endswith(".__dict__")] if annotable else []
            for l in loops:
                skip = any(isinstance(i, ast.If) and "'_annotations'" in norm(i.test) and any(isinstance(x, ast.Continue) for x in i.body) for i in l.body) or \
                    any(isinstance(i, ast.If) and "'_annotations'" in norm(i.test) and "!=" in norm(i.test) for i in l.body)
                after = [c for c in calls_in(f.node) if call_name(c) == "deep_copy_annotations_from" and c.lineno > l.lineno]
                okm = bool(after) and all((get_kwarg(c, "memo") is not None and "memo" in norm(get_kwarg(c, "memo"))) or (len(c.args) > 1 and "memo" in norm(c.args[1])) for c in after)
                rep.check(skip and okm, "R12.1", f.qualname, "_annotations handled separately", fn_where(f, l), "%s skips _annotations in the attribute loop and copies annotations afterwards with the memo" % f.qualname,
                          "%s does not skip `_annotations` in its attribute loop or does not call deep_copy_annotations_from(..., memo) afterwards: attribute-bound annotations of the copy keep pointing at the source object" % f.qualname)
        rep.floor("R12.1", "deepcopy call sites in copy-protocol functions", 15, ncalls)
        rep.floor("R12.1", "copy-protocol functions", 18, len(funcs))
        dca = index.function(DM + "basemodel.Annotable.deep_copy_annotations_from")
        retarget = [n for n in walk_no_nested(dca.node) if isinstance(n, ast.Assign) and norm(n.targets[0]).endswith("._value") and "self" in names_in(n.value)]
        rep.check(bool(retarget), "R12.1", dca.qualname, "bound attributes re-targeted", fn_where(dca), "attribute-bound annotations are re-targeted to the copy", "deep_copy_annotations_from no longer re-targets attribute-bound annotations to the copy")

    # ---- R12.2
    with rep.section("R12.2"):
        pop = index.function(DM + "taxonmodel.TaxonNamespace.populate_memo_for_taxon_namespace_scoped_copy")
        asg = {norm(n.targets[0]): norm(n.value) for n in walk_no_nested(pop.node) if isinstance(n, ast.Assign)}
        ploops = [l for l in walk_no_nested(pop.node) if isinstance(l, ast.For) and norm(l.iter) in ("self._taxa", "self")]
        lv = norm(ploops[0].target) if ploops else "?"
        ok = asg.get("memo[id(self)]") == "self" and asg.get("memo[id(%s)]" % lv) == lv and bool(ploops)
        rep.check(ok, "R12.2", pop.qualname, "maps %s" % asg, fn_where(pop), "populate_memo maps the namespace and every member taxon to itself", "populate_memo_for_taxon_namespace_scoped_copy no longer maps the namespace and each of its taxa to themselves: %s" % asg)
        for cq in SCOPED:
            f = index.function(cq + ".taxon_namespace_scoped_copy")
            cfg = cfg_of(f)
            def _m(c):
                a = get_kwarg(c, "memo") or (c.args[0] if c.args else None)
                return norm(a) if a is not None else None
            pops = [n for n in cfg.nodes if any(call_name(c) == "populate_memo_for_taxon_namespace_scoped_copy" and _m(c) for c in node_calls(n))]
            dcp = [n for n in cfg.nodes if any(call_name(c) == "__deepcopy__" and _m(c) for c in node_calls(n))]
            mset = {_m(c) for n in pops + dcp for c in node_calls(n) if call_name(c) in ("populate_memo_for_taxon_namespace_scoped_copy", "__deepcopy__")}
            if len(mset) != 1:
                pops = []
            ids = {n.id for n in pops}
            ok = bool(pops) and bool(dcp) and all(cfg.dominated_by(d, lambda n: n.id in ids) for d in dcp)
            rep.check(ok, "R12.2", f.qualname, "populate dominates __deepcopy__(memo=memo)", fn_where(f), "%s pre-seeds the memo with its namespace before deep-copying with that memo" % f.qualname,
                      "%s no longer pre-seeds the memo with the namespace and its taxa before `__deepcopy__(memo=memo)`: the 'namespace-scoped' copy gets its own copy of the namespace and taxa" % f.qualname)
            # ... and the memo it pre-seeds is a dictionary: with the default memo=None the helper has nothing to fill
            if pops and len(mset) == 1:
                mv_ = list(mset)[0]

                def _none_path(a_, lab, b_, mv_=mv_):
                    if a_.kind == "test" and isinstance(a_.ast, ast.Compare) and len(a_.ast.ops) == 1 and norm(a_.ast.left) == mv_ and is_none(a_.ast.comparators[0]):
                        if isinstance(a_.ast.ops[0], ast.Is):
                            return lab == "t"
                        if isinstance(a_.ast.ops[0], ast.IsNot):
                            return lab == "f"
                    return lab != "e"

                def _made_dict(n_, mv_=mv_):
                    return isinstance(n_.ast, ast.Assign) and norm(n_.ast.targets[0]) == mv_ and (isinstance(n_.ast.value, ast.Dict) or (isinstance(n_.ast.value, ast.Call) and call_name(n_.ast.value) == "dict"))
                defaults_none = mv_ in f.all_params
                seen_ = cfg.reach([cfg.entry], avoid=_made_dict, follow_exc=False, edge_ok=_none_path)
                rebinds = [n_ for n_ in cfg.nodes if isinstance(n_.ast, ast.Assign) and norm(n_.ast.targets[0]) == mv_ and not _made_dict(n_)]
                okm = not (defaults_none and any(p_ in seen_ for p_ in pops)) and not rebinds
                rep.check(okm, "R12.2", f.qualname, "the memo may be None when it is pre-seeded", fn_where(f, (rebinds[0].ast if rebinds else pops[0].ast)), "%s makes `%s` a dictionary before pre-seeding it" % (f.qualname, mv_),
                          "%s can hand `%s` = None to populate_memo_for_taxon_namespace_scoped_copy (which then fills nothing and returns None) or re-binds it from a helper's result: clone(1) / copy.copy() with the default memo become full deep copies - the 'namespace-scoped' copy has a namespace and taxa of its own, and comparing it with its source raises TaxonNamespaceIdentityError" % (f.qualname, mv_))
            g = index.function(cq + "._clone_from")
            cfg = cfg_of(g)
            dc = [n for n in cfg.nodes if any(norm(c.func) == "copy.deepcopy" and _memo_arg(c) is not None and isinstance(_memo_arg(c), ast.Name) for c in node_calls(n))]
            mv = [norm(_memo_arg(c)) for n in dc for c in node_calls(n) if norm(c.func) == "copy.deepcopy"]
            mv = mv[0] if mv else "memo"
            loops = [l for l in walk_no_nested(g.node) if isinstance(l, ast.For) and "taxon_namespace" in norm(l.iter)]
            lvars = {norm(l.target) for l in loops}
            nsmap = [n for n in cfg.nodes if n.kind == "stmt" and isinstance(n.ast, ast.Assign) and norm(n.ast.targets[0]).startswith(mv + "[id(") and "taxon_namespace" in norm(n.ast.targets[0])]
            txmap = [n for n in cfg.nodes if n.kind == "stmt" and isinstance(n.ast, ast.Assign) and any(norm(n.ast.targets[0]) == "%s[id(%s)]" % (mv, v) for v in lvars)]
            nid = {n.id for n in nsmap}
            tid = {n.id for n in txmap}
            ok = bool(dc) and bool(nsmap) and len(txmap) >= 2 and all(cfg.dominated_by(d, lambda n: n.id in nid) for d in dc)
            # both branches of the namespace comparison map every taxon (loop bodies)
            ok = ok and len(loops) >= 2 and all(any(isinstance(x, ast.Assign) and norm(x.targets[0]) == "%s[id(%s)]" % (mv, norm(l.target)) for x in ast.walk(l)) for l in loops)
            rep.check(ok, "R12.2", g.qualname, "namespace and taxa mapped before deepcopy", fn_where(g), "%s maps the namespace and every taxon in the memo before its deepcopy" % g.qualname,
                      "%s no longer maps the source namespace and each of its taxa in the memo before `copy.deepcopy(src, memo)`: the copy constructor duplicates (or mis-shares) the namespace and taxa" % g.qualname)
            kinds = []
            for l in loops:
                lv_ = norm(l.target)
                for x in ast.walk(l):
                    if isinstance(x, ast.Assign) and norm(x.targets[0]) == "%s[id(%s)]" % (mv, lv_):
                        if norm(x.value) == lv_:
                            kinds.append("itself")
                        else:
                            src = [d for d in ast.walk(l) if isinstance(d, ast.Assign) and norm(d.targets[0]) == norm(x.value)]
                            kinds.append("require_taxon(label)" if src and isinstance(src[0].value, ast.Call) and call_name(src[0].value) == "require_taxon" else "other:" + norm(x.value))
            rep.check(sorted(kinds) == ["itself", "require_taxon(label)"], "R12.2", g.qualname, "taxon mapping kinds %s" % sorted(kinds), fn_where(g), "same namespace: taxon -> itself; other namespace: taxon -> require_taxon(label)", "%s maps source taxa to %s" % (g.qualname, sorted(kinds)))

    # ---- R12.1 copy loops leave nothing out
    with rep.section("R12.1 copy loops"):
        rep.floor("R12.1", "attribute loops in copy routines", 5, copy_skip_rule(index, rep, "R12.1"))

    # ---- R12.5: the three copy constructors perform the same state updates
    with rep.section("R12.5: the three copy constructors perform the same state updates"):
        rep.rule("R12.5", "clone agreement: Tree/TreeList/CharacterMatrix._clone_from perform the same state updates on self and the memo (they are textual copies of one routine; a change to one that is not made to the others is a divergence)")
        sigs = {}
        for cq in SCOPED:
            g = index.function(cq + "._clone_from")
            src = g.params[1] if len(g.params) > 1 else None
            canon = canonical_locals(g)
            sig = set()
            # the memo is what goes into deepcopy(); other containers the routine makes for its own bookkeeping (a set of
            # taxa already seen, used to refuse a collision) are neither state of self nor of the memo
            memo_names = {a.id for c in calls_in(g.node) if call_name(c) == "deepcopy" for a in c.args[1:] if isinstance(a, ast.Name)} | {"memo"}
            scratch = {t.id for a in walk_no_nested(g.node) if isinstance(a, ast.Assign) for t in a.targets if isinstance(t, ast.Name) and t.id not in memo_names
                       and (isinstance(a.value, (ast.Dict, ast.List, ast.Set)) or (isinstance(a.value, ast.Call) and call_name(a.value) in ("set", "dict", "list", "OrderedDict")))}
            for w in writes_in(g.node):
                base = w.base_text
                if isinstance(w.base, ast.Name) and w.base.id in scratch:
                    continue
                txt = norm_stmt(w.stmt) if w.kind != "mutcall" else norm(w.call)
                for nm, c in canon.items():
                    txt = re.sub(r"\b%s\b" % re.escape(nm), c, txt)
                if src:
                    txt = re.sub(r"\b%s\b" % re.escape(src), "$src", txt)
                # the two ways of adopting the deep copy's state are one update: since the annotations are re-targeted
                # afterwards (R12.11) it no longer matters whether the instance dict is shared or filled
                m_ad = re.match(r"^self\.__dict__(?: = |\.update\()(\$?\w+)\.__dict__\)?$", txt)
                if m_ad:
                    sig.add(("adopt", "self adopts the state of %s" % ("$src" if m_ad.group(1) == "$src" else "the deep copy")))
                    continue
                sig.add((w.kind, txt[:120]))
            sigs[cq] = (g, sig)
        allsig = [v[1] for v in sigs.values()]
        for cq, (g, sig) in sigs.items():
            others = [v[1] for k, v in sigs.items() if k != cq]
            agree_elsewhere = all(o == others[0] for o in others)
            diff = sorted((sig - others[0]) | (others[0] - sig))
            ok = sig == others[0] or not agree_elsewhere
            rep.check(ok, "R12.5", g.qualname, "state updates differ from the sibling copy constructors: %s" % "; ".join(t for k, t in diff)[:100], fn_where(g),
                      "%s performs the same %d state updates as its siblings" % (g.qualname, len(sig)),
                      "%s differs from the other two copy constructors in its state updates (%s): the deep copy's state must be adopted by sharing the instance dict (`self.__dict__ = t.__dict__`) so that objects inside the copy that refer to the temporary (attribute-bound annotations) stay bound to the live attributes of the new object" % (g.qualname, "; ".join("%s `%s`" % d for d in diff)[:300]))
        if len({frozenset(x) for x in allsig}) == 3:
            rep.check(False, "R12.5", SCOPED[0] + "._clone_from", "all three copy constructors differ", fn_where(sigs[SCOPED[0]][0]), "", "the three _clone_from implementations all differ in their state updates")

    # ---- R12.6: no deep-copy hook hands out the receiver or its shallow state
    with rep.section("R12.6: no deep-copy hook hands out the receiver or its shallow state"):
        rep.rule("R12.6", "every __deepcopy__ in the data model returns a new object: no `return self`, and the instance dict is never taken over or shallow-copied from the receiver")
        nh = 0
        for m in COPY_MODULES[:-1] + [DM + "datasetmodel"]:
            for f in index.functions_in_module(m):
                if f.name != "__deepcopy__" or f.cls is None:
                    continue
                nh += 1
                if f.qualname in DEEPCOPY_SELF_OK:
                    rep.ob("R12.6", fn_where(f), "%s: exempt - %s" % (f.qualname, DEEPCOPY_SELF_OK[f.qualname]), True, nontrivial=False)
                    continue
                bad = []
                for n in walk_no_nested(f.node):
                    if isinstance(n, ast.Return) and isinstance(n.value, ast.Name) and n.value.id == "self":
                        bad.append((n, "returns the receiver itself"))
                    if isinstance(n, ast.Call) and isinstance(n.func, ast.Attribute) and n.func.attr == "update" and norm(n.func.value).endswith(".__dict__") and n.args and norm(n.args[0]) == "self.__dict__":
                        bad.append((n, "shallow-copies the receiver's instance dict"))
                    if isinstance(n, ast.Assign) and norm(n.targets[0]).endswith(".__dict__") and "self.__dict__" in norm(n.value):
                        bad.append((n, "takes over the receiver's instance dict"))
                    if isinstance(n, ast.Call) and norm(n.func) == "copy.copy" and n.args and norm(n.args[0]) == "self":
                        bad.append((n, "returns a shallow copy"))
                rep.check(not bad, "R12.6", f.qualname, "__deepcopy__ %s" % (bad[0][1] if bad else ""), fn_where(f, bad[0][0] if bad else None), "%s builds a new object from deep-copied state" % f.qualname,
                          "%s %s (`%s`): a deep copy of a tree / matrix then shares this object (or the mutable objects it refers to) with the original, so mutating one is visible in the other" % (f.qualname, bad[0][1] if bad else "", norm(bad[0][0])[:60] if bad else ""))
        rep.floor("R12.6", "__deepcopy__ hooks in the data model", 12, nh)

    # ---- R12.7: values carried over to the copy undeepcopied
    with rep.section("R12.7"):
        rep.rule("R12.7", "inside __deepcopy__ a value of the source is stored on the copy only after copy.deepcopy / reconstruction; carrying a value over as it is is allowed only under an isinstance test against atomic immutable types (a tuple or frozenset can hold mutable members)")
        ATOMIC = {"type(None)", "bool", "int", "float", "complex", "str", "bytes", "NoneType"}
        ncarry = nstate = 0
        for m in COPY_MODULES[:-1] + [DM + "datasetmodel"]:
            for f in index.functions_in_module(m):
                if f.name != "__deepcopy__" or f.cls is None or f.qualname in DEEPCOPY_SELF_OK:
                    continue
                # names holding a raw value of the source
                raw = set()
                for a in walk_no_nested(f.node):
                    if isinstance(a, ast.Assign) and isinstance(a.targets[0], ast.Name) and _is_source_value(a.value):
                        raw.add(a.targets[0].id)
                    if isinstance(a, ast.For):
                        it = norm(a.iter)
                        if it in ("self.__dict__.items()",) and isinstance(a.target, ast.Tuple) and len(a.target.elts) == 2 and isinstance(a.target.elts[1], ast.Name):
                            raw.add(a.target.elts[1].id)
                newobj = {norm(a.targets[0]) for a in walk_no_nested(f.node) if isinstance(a, ast.Assign) and isinstance(a.value, ast.Call)
                          and (call_name(a.value) == "__new__" or norm(a.value.func) == "self.__class__")} | \
                         {norm(a.targets[0]) for a in walk_no_nested(f.node) if isinstance(a, ast.Assign) and norm(a.value) == "memo[id(self)]"}
                cfg = None
                for a in walk_no_nested(f.node):
                    tgt = val = None
                    if isinstance(a, ast.Assign):
                        t = a.targets[0]
                        root = t
                        while isinstance(root, (ast.Subscript, ast.Attribute)):
                            root = root.value
                        if isinstance(root, ast.Name) and root.id in newobj and not isinstance(t, ast.Name):
                            tgt, val = t, a.value
                    elif isinstance(a, ast.Expr) and isinstance(a.value, ast.Call) and call_name(a.value) == "setattr" and len(a.value.args) == 3 and norm(a.value.args[0]) in newobj:
                        tgt, val = a.value.args[0], a.value.args[2]
                    if isinstance(a, ast.Expr) and isinstance(a.value, ast.Call) and isinstance(a.value.func, ast.Attribute) and a.value.func.attr == "update" and norm(a.value.func.value) in {n_ + ".__dict__" for n_ in newobj} | {"vars(%s)" % n_ for n_ in newobj}:
                        nstate += 1
                        deep = any(isinstance(c, ast.Call) and norm(c.func) == "copy.deepcopy" for c in ast.walk(a.value))
                        from_self = any(isinstance(x, ast.Attribute) and norm(x) == "self.__dict__" for x in ast.walk(a.value)) or any(isinstance(x, ast.Call) and norm(x) == "vars(self)" for x in ast.walk(a.value))
                        rep.check(deep or not from_self, "R12.7", f.qualname, "attributes of the source copied in bulk without deepcopy", fn_where(f, a), "%s: bulk attribute copy goes through copy.deepcopy" % f.qualname,
                                  "%s fills the copy's __dict__ from the source's in one shallow update (`%s`): every mutable attribute - a comments list, anything a user hung on the object - is then one object shared by the source and its deep copy" % (f.qualname, norm_stmt(a)[:70]))
                        continue
                    if tgt is None:
                        continue
                    carried = (isinstance(val, ast.Name) and val.id in raw) or _is_source_value(val)
                    nstate += 1
                    if not carried:
                        if any(norm(c.func) == "copy.deepcopy" for c in ast.walk(val) if isinstance(c, ast.Call)):
                            rep.ob("R12.7", fn_where(f, a), "%s: `%s` stores a deep copy" % (f.qualname, norm_stmt(a)[:60]), True)
                        elif isinstance(tgt, ast.Attribute) and isinstance(tgt.value, ast.Name) and tgt.value.id in newobj:
                            # a named attribute of the copy set explicitly: an empty container filled with deep copies, or nothing else
                            empty = (isinstance(val, (ast.List, ast.Dict, ast.Set)) and not getattr(val, "elts", getattr(val, "keys", None))) or \
                                (isinstance(val, ast.Call) and isinstance(val.func, ast.Name) and val.func.id in ("list", "dict", "set") and not val.args)
                            filled = any(isinstance(c, ast.Call) and isinstance(c.func, ast.Attribute) and c.func.attr in ("append", "add", "extend", "update", "__setitem__") and norm(c.func.value) == norm(tgt)
                                         and any(isinstance(x, ast.Call) and norm(x.func) == "copy.deepcopy" for x in ast.walk(c)) for c in calls_in(f.node))
                            rep.check(empty and filled, "R12.7", f.qualname, "attribute of the copy rebuilt instead of copied: %s" % norm_stmt(a)[:60], fn_where(f, a),
                                      "%s: `%s` is an empty container that is then filled with deep copies" % (f.qualname, norm_stmt(a)[:50]),
                                      "%s sets `%s` on the copy to something that is not a deep copy of the source's attribute (nor an empty container filled with deep copies): the copy's state is rebuilt or dropped rather than copied - e.g. accession indices renumbered from 0, so after a removal the copy's taxa no longer carry the bits of their originals and bipartition bitmasks copied with a tree name other taxa" % (f.qualname, norm_stmt(a)[:70]))
                        continue
                    ncarry += 1
                    cfg = cfg or cfg_of(f)
                    an = stmt_nodes(cfg, a)
                    vtxt = norm(val)
                    tests = [t for t in cfg.nodes if t.kind == "test" and isinstance(t.ast, ast.Call) and call_name(t.ast) == "isinstance" and len(t.ast.args) == 2 and norm(t.ast.args[0]) == vtxt]
                    ok = False
                    why = "no isinstance guard"
                    if tests and an:
                        blocked = {(t.id, "t") for t in tests}
                        reach = cfg.reach([cfg.entry], follow_exc=False, edge_ok=lambda s_, l, d: (s_.id, l) not in blocked)
                        guarded = all(r is not an[0] for r in reach)
                        types = set()
                        for t in tests:
                            te = t.ast.args[1]
                            if isinstance(te, ast.Name):
                                te = f.module.assigns.get(te.id, te)
                            types |= {norm(e) for e in (te.elts if isinstance(te, (ast.Tuple, ast.List)) else [te])}
                        ok = guarded and types <= ATOMIC
                        why = "the guard admits %s" % sorted(types - ATOMIC) if guarded else "the store is reachable without the guard"
                    rep.check(ok, "R12.7", f.qualname, "source value stored on the copy without deepcopy: %s" % norm_stmt(a)[:60], fn_where(f, a),
                              "%s: `%s` carries over atomic immutable values only" % (f.qualname, norm_stmt(a)[:50]),
                              "%s stores a value of the source object on the copy as it is (`%s`; %s): a tuple / frozenset / arbitrary object can hold mutable members (a list inside a tuple, the (owner, attribute) pair of a bound annotation), which the copy then shares with its source - a later change to one is visible through the other" % (f.qualname, norm_stmt(a)[:70], why))
        rep.note("R12.7: %d stores into the new object examined, %d of them carry a source value over" % (nstate, ncarry))
        rep.floor("R12.7", "stores into the new object inside __deepcopy__ hooks", 4, nstate)

    # ---- R12.3 rooting carried over
    with rep.section("R12.3 rooting"):
        et = index.function(DM + "treemodel._tree.Tree.extract_tree")
        cfg = cfg_of(et)
        news = [a for a in walk_no_nested(et.node) if isinstance(a, ast.Assign) and isinstance(a.targets[0], ast.Name) and isinstance(a.value, ast.Call) and (norm(a.value.func) in ("self.__class__", "tree_factory"))]
        if not news:
            raise AnalysisError("R12.3: creation of the extracted tree not recognised")
        ov = news[0].targets[0].id
        def sets_rooting(x, ov=ov):
            if x.kind == "stmt" and isinstance(x.ast, ast.Assign) and norm(x.ast.targets[0]) in (ov + "._is_rooted", ov + ".is_rooted") and "is_rooted" in norm(x.ast.value):
                return True
            return any(get_kwarg(c, "is_rooted") is not None and "is_rooted" in norm(get_kwarg(c, "is_rooted")) for c in node_calls(x) if norm(c.func) in ("self.__class__", "tree_factory"))
        ok, w = cfg.must_pass(cfg.entry, sets_rooting)
        rep.check(ok, "R12.3", et.qualname, "extracted tree can be returned without the source's rooting", fn_where(et), "extract_tree gives the new tree the source's rooting state on every path",
                  "Tree.extract_tree has a path (e.g. the tree_factory branch) on which the new tree never receives the source's rooting state: an extracted tree copies structure, lengths, labels and taxa - and the rooting that tells how to read that structure - but comes back with is_rooted=None")

    # ---- R12.3
    with rep.section("R12.3"):
        c08.thin_clone_rule(index, rep, "R12.3")

    # ---- R12.4
    with rep.section("R12.4"):
        ndef = shared_mutable_rule(index, rep, "R12.4", COPY_MODULES[:-1] + [DM + "datasetmodel"])
        rep.floor("R12.4", "defaults and class-level containers examined", 200, ndef)

    # ---- R12.8 a copy constructor keeps what it copied
    with rep.section("R12.8"):
        rep.rule("R12.8", "a copy constructor keeps what it copied: in a subclass of a class whose __init__ can adopt a deep copy of another object (_clone_from replaces self.__dict__), no statement after the base-class __init__ unconditionally overwrites an attribute with a freshly made value - on the copy-construction route that throws the copied state away")
        cloners = {k.qualname for k in index.classes.values() if "__init__" in k.methods and any(call_name(c) == "_clone_from" for c in calls_in(k.methods["__init__"].node))}
        rep.floor("R12.8", "classes whose constructor can clone", 3, len(cloners))
        nsub = 0
        for k in sorted(index.classes.values(), key=lambda c: c.qualname):
            if k.module.name not in COPY_MODULES or k.qualname in cloners or "__init__" not in k.methods:
                continue
            if not any(b.qualname in cloners for b in index.mro(k) if b.qualname != k.qualname):
                continue
            init = k.methods["__init__"]
            g = cfg_of(init)
            params = set(init.all_params) - {"self"}
            nsub += 1
            base_calls = [nd for nd in g.nodes if any(call_name(c) == "__init__" for c in node_calls(nd))]
            for bc in base_calls:
                for nd in g.reach([t for lab, t in bc.succ if lab != "e"], follow_exc=False):
                    if not (nd.kind == "stmt" and isinstance(nd.ast, ast.Assign) and isinstance(nd.ast.targets[0], ast.Attribute) and norm(nd.ast.targets[0].value) == "self"):
                        continue
                    # unconditional: every path from the base call to the exit passes it
                    ok_uncond, _w = g.must_pass(bc, lambda x, nd=nd: x is nd)
                    if not ok_uncond:
                        # `if v is not None: self.x = v` depends on nothing but the value itself: as good as unconditional
                        pm_ = parent_map(init.node)
                        par_ = pm_.get(nd.stmt)
                        vn = nd.ast.value.id if isinstance(nd.ast.value, ast.Name) else None
                        if not (isinstance(par_, ast.If) and vn and {x.id for x in ast.walk(par_.test) if isinstance(x, ast.Name)} == {vn} and pm_.get(par_) is init.node):
                            # a fresh default installed when the object's own state says 'nothing there yet' must need
                            # ALL of those tests: `if self.a is None or not self.b:` installs it although b was taken over
                            if isinstance(par_, ast.If) and nd.stmt in par_.body and isinstance(par_.test, ast.BoolOp) and isinstance(par_.test.op, ast.Or) \
                                    and sum(1 for v_ in par_.test.values if any(isinstance(x, ast.Name) and x.id == "self" for x in ast.walk(v_))) >= 2:
                                rep.check(False, "R12.8", init.qualname, "fresh default installed when only one of several state tests holds: %s" % norm(par_.test)[:60], fn_where(init, nd.stmt), "",
                                          "%s runs `%s` under `%s`: each operand asks whether a piece of state is still missing, and with `or` ONE missing piece is enough - on the copy-construction route (%s(other)) the base constructor has already taken the other piece over from the source, so the copy gets an extra, fresh default next to the copied state (a second state alphabet that becomes the default: cells are no longer states of the matrix's default alphabet)" % (init.qualname, norm_stmt(nd.stmt)[:60], norm(par_.test)[:70], k.name))
                            continue

                    def fresh(e, depth=0):
                        if isinstance(e, ast.Constant) or (isinstance(e, (ast.List, ast.Dict, ast.Set, ast.Tuple)) and not any(True for _ in ast.iter_child_nodes(e) if not isinstance(_, ast.expr_context))):
                            return True
                        if isinstance(e, ast.Name) and e.id not in params and depth < 2:
                            ds = [a.value for a in walk_no_nested(init.node) if isinstance(a, ast.Assign) and isinstance(a.targets[0], ast.Name) and a.targets[0].id == e.id]
                            return bool(ds) and any(fresh(d, depth + 1) for d in ds)
                        if isinstance(e, ast.Call) and not any(isinstance(x, ast.Name) and (x.id in params or x.id == "self") for x in ast.walk(e)):
                            return True
                        return False
                    v = nd.ast.value
                    rep.check(not fresh(v), "R12.8", init.qualname, "copied attribute overwritten after the base constructor: %s" % norm_stmt(nd.stmt)[:60], fn_where(init, nd.stmt), "%s: `%s` does not overwrite copied state with a fresh value" % (k.name, norm_stmt(nd.stmt)[:50]),
                              "%s runs `%s` unconditionally after the base-class constructor: when the object is built as a copy of another one (%s(other), clone, export_character_indices ...) the base constructor has already adopted the copied attributes, and this statement replaces them by a fresh value - a standard matrix over the alphabet a/b/c comes out of a copy with the default 0-9 alphabet while its cells still hold a/b/c states" % (init.qualname, norm_stmt(nd.stmt)[:60], k.name))
        rep.floor("R12.8", "subclass constructors of cloning classes", 2, nsub)

    # ---- R12.9 the caseless dictionary is read through its own interface
    with rep.section("R12.9"):
        rep.rule("R12.9", "the caseless dictionary is read through its own interface: the dict layer under OrderedCaselessDict holds the FOLDED keys (the original spelling lives in _ordered_keys), so its methods reach that layer only for single-key accesses with a folded key - never for a bulk read (super().items / keys / values / __iter__ / copy, dict.items(self) ...), whose keys are the folded ones; a copy made from such a read has lost the spelling of every key")
        OCD = "dendropy.utility.container.OrderedCaselessDict"
        oc = index.klass(OCD)
        BULK = {"items", "keys", "values", "__iter__", "iteritems", "iterkeys", "itervalues", "copy", "popitem", "__reversed__"}
        POINT = {"__getitem__", "__setitem__", "__delitem__", "__contains__", "get", "setdefault", "pop"}
        n9 = 0
        for f in oc.methods.values():
            for c in calls_in(f.node, nested=True):
                if not isinstance(c.func, ast.Attribute):
                    continue
                recv = c.func.value
                raw = (isinstance(recv, ast.Call) and call_name(recv) == "super") or (isinstance(recv, ast.Name) and recv.id == "dict" and c.args and norm(c.args[0]) == "self")
                if not raw:
                    continue
                n9 += 1
                m_ = c.func.attr
                if m_ in BULK:
                    rep.check(False, "R12.9", f.qualname, "bulk read of the folded layer: `%s`" % norm(c)[:60], fn_where(f, c), "",
                              "OrderedCaselessDict.%s reads the underlying dict in bulk (`%s`): that layer is keyed by the lower-cased keys, so whatever is built from it (a deep copy, a list of items) has every key in lower case and no longer returns the spelling the caller stored" % (f.name, norm(c)[:70]))
                elif m_ in POINT:
                    args = c.args[1:] if isinstance(recv, ast.Name) else c.args
                    k = args[0] if args else None
                    folded = k is not None and isinstance(k, ast.Call) and call_name(k) in ("lower", "casefold", "normalize_key")
                    rep.check(folded, "R12.9", f.qualname, "raw access with an unfolded key: `%s`" % norm(c)[:60], fn_where(f, c), "%s: %s with a folded key" % (f.name, m_),
                              "OrderedCaselessDict.%s accesses the underlying dict with `%s`: the key is not folded, so an entry stored under another spelling is missed (or a second entry is created beside it)" % (f.name, norm(k) if k is not None else "?"))
                else:
                    rep.ob("R12.9", fn_where(f, c), "%s: super().%s" % (f.name, m_), True)
        rep.floor("R12.9", "accesses to the folded layer", 10, n9)

    # ---- R12.10 annotations are copied INTO the copy
    with rep.section("R12.10"):
        rep.rule("R12.10", "annotations are copied into the copy: inside a copy hook or copy helper (__copy__, __deepcopy__, clone, _clone_from, taxon_namespace_scoped_copy) a call `<a>.copy_annotations_from(<b>)` / `deep_copy_annotations_from` has the receiver `self` as its argument and the new object as its target - with the two swapped the source gains copies of the (empty) copy's annotations and the copy gets none")
        n10 = 0
        for m in PROP_MODULES["C12"]:
            for fi in index.functions_in_module(m):
                if fi.name not in ("__copy__", "__deepcopy__", "clone", "taxon_namespace_scoped_copy"):
                    continue
                for c in calls_in(fi.node):
                    if call_name(c) in ("copy_annotations_from", "deep_copy_annotations_from") and isinstance(c.func, ast.Attribute) and c.args:
                        n10 += 1
                        ok = norm(c.args[0]) == "self" and norm(c.func.value) != "self"
                        rep.check(ok, "R12.10", fi.qualname, "annotations copied from the copy into the source", fn_where(fi, c), "%s: %s" % (fi.name, norm(c)[:60]),
                                  "%s calls `%s`: in a copy hook the receiver `self` is the SOURCE, so this copies the new object's (still empty) annotations into the source and leaves the copy without the source's annotations" % (fi.qualname, norm(c)[:70]))
        rep.floor("R12.10", "annotation copies in copy hooks", 4, n10)

    # ---- R12.11 a copy that takes over another object's state takes over its annotations too
    with rep.section("R12.11"):
        rep.rule("R12.11", "a copy that takes over another object's state takes over its annotations: after `self.__dict__ = t.__dict__` (the copy constructors build a deep copy `t` and adopt its state) every normal path re-targets the annotation set to self - `self.annotations = ...`, whose setter re-points the set and every attribute-bound annotation - otherwise the annotations stay bound to the hidden alias `t`: bound annotations do not follow the copy's attributes, and deep-copying the copy fails; and the setter itself re-points bound annotations by rewriting their `_value`")
        n11 = 0
        for m in PROP_MODULES["C12"]:
            for fi in index.functions_in_module(m):
                g = None
                for st in walk_no_nested(fi.node):
                    adopt_assign = isinstance(st, ast.Assign) and norm(st.targets[0]) == "self.__dict__" and isinstance(st.value, ast.Attribute) and st.value.attr == "__dict__"
                    adopt_update = isinstance(st, ast.Expr) and isinstance(st.value, ast.Call) and norm(st.value.func) == "self.__dict__.update" and st.value.args and isinstance(st.value.args[0], ast.Attribute) \
                        and st.value.args[0].attr == "__dict__" and norm(st.value.args[0].value) != "self" and fi.name == "_clone_from"
                    if adopt_assign or adopt_update:
                        n11 += 1
                        g = g or cfg_of(fi)
                        nd = node_of_ast(g, st)

                        def retargets(n):
                            a = n.ast
                            if isinstance(a, ast.Assign) and any(norm(t) == "self.annotations" for t in a.targets):
                                return True
                            return isinstance(a, ast.Assign) and any(norm(t) in ("self._annotations.target",) for t in a.targets)
                        ok, w = g.must_pass(nd, retargets) if nd is not None else (False, None)
                        # the re-targeting may be guarded only by the presence of annotations
                        if not ok:
                            def no_annotations(a_, lab, b_):
                                if a_.kind == "test" and "_annotations" in norm(a_.ast) and lab == "f":
                                    return False
                                return lab != "e"
                            ok = nd is not None and g.can_reach(nd, lambda n: n is g.exit, avoid=retargets, follow_exc=False, edge_ok=no_annotations) is None
                        rep.check(ok, "R12.11", fi.qualname, "state adopted without re-targeting the annotations", fn_where(fi, st), "%s re-targets the annotations it adopted" % fi.qualname,
                                  "%s adopts the state of a deep copy with `%s` and can return without pointing the annotation set at self: the set's target, and every attribute-bound annotation, still refer to the temporary copy - a bound annotation on the result keeps reporting the attribute as it was at copy time, and copy.deepcopy() of the result raises AttributeError: 'Annotation' object has no attribute 'is_attribute'" % (fi.qualname, norm_stmt(st)))
        rep.floor("R12.11", "state take-overs in the copy constructors", 3, n11)
        sa_ = index.function(DM + "basemodel.Annotable._set_annotations")
        writes_value = any(isinstance(a, ast.Assign) and any(isinstance(t, ast.Attribute) and t.attr == "_value" for t in a.targets) for a in ast.walk(sa_.node))
        stray = [a for a in ast.walk(sa_.node) if isinstance(a, ast.Assign) and any(isinstance(t, ast.Attribute) and t.attr == "target" and isinstance(t.value, ast.Name) and t.value.id != "self" for t in a.targets)]
        rep.check(writes_value and not stray, "R12.11", sa_.qualname, "bound annotations not re-pointed through `_value`", fn_where(sa_, stray[0] if stray else None), "the annotations setter rewrites `_value` of bound annotations",
                  "Annotable._set_annotations re-points attribute-bound annotations with `%s`: an Annotation keeps its owner in `_value` (owner, attribute name) - assigning a `target` attribute changes nothing, so the annotation goes on reading the attribute of the previous owner" % (norm_stmt(stray[0]) if stray else "nothing"))

    # ---- R12.12 a shallow copy has containers of its own
    with rep.section("R12.12"):
        rep.rule("R12.12", "a shallow copy has containers of its own: a `__copy__` hook of the data model never assigns one of the receiver's container attributes (an attribute that some method of the class binds to a list / dict / set / OrderedDict ...) to the copy as it is - `other._trees = self._trees` makes source and copy two views of ONE list, so an append, delete or reverse on either shows through the other; the elements may be shared, the container is rebuilt (`list(...)`, `dict(...)`, a loop)")
        FRESH = ("list", "dict", "set", "OrderedDict", "OrderedSet", "defaultdict", "deque")
        n12 = 0
        for q, k in sorted(index.classes.items()):
            hook = k.methods.get("__copy__")
            if hook is None or not any(q.startswith(m_) for m_ in PROP_MODULES["C12"]):
                continue
            containers = set()
            for c_ in index.mro(k):
                for mf in c_.methods.values():
                    for a in ast.walk(mf.node):
                        if isinstance(a, ast.Assign) and (isinstance(a.value, (ast.List, ast.Dict, ast.Set, ast.ListComp, ast.DictComp, ast.SetComp)) or (isinstance(a.value, ast.Call) and call_name(a.value) in FRESH)):
                            for t in a.targets:
                                if isinstance(t, ast.Attribute) and norm(t.value) == "self":
                                    containers.add(t.attr)
            for a in ast.walk(hook.node):
                if isinstance(a, ast.Assign) and len(a.targets) == 1 and isinstance(a.targets[0], ast.Attribute) and isinstance(a.targets[0].value, ast.Name) and a.targets[0].value.id != "self":
                    n12 += 1
                    v = a.value
                    shared = isinstance(v, ast.Attribute) and norm(v.value) == "self" and v.attr in containers
                    rep.check(not shared, "R12.12", hook.qualname, "the copy is given the receiver's own `%s`" % (v.attr if shared else ""), fn_where(hook, a), "%s: `%s`" % (hook.qualname, norm_stmt(a)[:60]),
                              "%s assigns `%s`: `%s` is a container of the receiver, so the 'copy' and the source are two views of one %s - appending a tree to the copy appends it to the source, and growing the copy of an empty list fills the source" % (hook.qualname, norm_stmt(a)[:60], v.attr if shared else "", "container"))
        rep.floor("R12.12", "attribute assignments to the copy in __copy__ hooks", 1, n12)

    # ---- R12.13 every annotation is looked at when the set changes owner
    with rep.section("R12.13"):
        rep.rule("R12.13", "every annotation is looked at when the set changes owner: the loop of Annotable._set_annotations that re-targets attribute-bound annotations runs over the WHOLE set - it contains no `break` and no `return`; leaving at the first ordinary annotation keeps the bound ones after it on the temporary object of the copy constructor (R12.11), and a copy of that copy fails")
        sa_ = index.function("dendropy.datamodel.basemodel.Annotable._set_annotations")
        loops13 = [l for l in walk_no_nested(sa_.node) if isinstance(l, ast.For)]
        if not loops13:
            raise AnalysisError("R12.13: the re-targeting loop of Annotable._set_annotations not recognised")
        early = [x for l in loops13 for x in ast.walk(l) if isinstance(x, (ast.Break, ast.Return))]
        rep.check(not early, "R12.13", sa_.qualname, "the re-targeting loop can stop early", fn_where(sa_, early[0] if early else None), "_set_annotations examines every annotation of the set",
                  "Annotable._set_annotations leaves its re-targeting loop early (`%s`): annotations after that point keep the old owner - with an ordinary annotation before a bound one, `Tree(tree)` returns a copy whose bound annotation still points at the constructor's temporary object, and deepcopy / clone of that copy raises AttributeError" % ("break" if early and isinstance(early[0], ast.Break) else "return"))
