"""C05 Split frequencies, consensus trees and support annotations are exact."""
import ast

from .common import *  # noqa

TCM = "dendropy.datamodel.treecollectionmodel"
SD = TCM + ".SplitDistribution"
TA = TCM + ".TreeArray"
TL = TCM + ".TreeList"
SOURCE_FIELDS = ("split_counts", "split_edge_lengths", "split_node_ages", "sum_of_tree_weights", "total_trees_counted")
DERIVED = {
    "_split_freqs": ("_trees_counted_for_freqs", "_get_split_frequencies", "calc_freqs"),
    "_split_edge_length_summaries": ("_trees_counted_for_summaries", "_get_split_edge_length_summaries", "calc_split_edge_length_summaries"),
    "_split_node_age_summaries": ("_trees_counted_for_summaries", "_get_split_node_age_summaries", "calc_split_node_age_summaries"),
}
SOURCE_WRITERS = {"__init__", "count_splits_on_tree", "update", "add_split_count"}


def _defs_of(fn_node, name):
    return [n for n in walk_no_nested(fn_node) if isinstance(n, ast.Assign)
            and any(isinstance(t, ast.Name) and t.id == name for t in n.targets)]


def order_preserved_rule(index, rep, rid):
    """Tree.from_split_bitmasks adds the splits greedily IN THE ORDER GIVEN (decreasing frequency): between the
    parameter and the adding loop the sequence is only filtered / mapped element by element, never passed through a
    set, a dict or a sort."""
    f = index.function("dendropy.datamodel.treemodel._tree.Tree.from_split_bitmasks")
    derived = {"split_bitmasks"}
    changed = True
    while changed:
        changed = False
        for n in walk_no_nested(f.node):
            if isinstance(n, ast.For) and names_in(n.iter) & derived:
                for t in ast.walk(n.target):
                    if isinstance(t, ast.Name) and t.id not in derived:
                        derived.add(t.id)
                        changed = True
            if isinstance(n, ast.Assign) and isinstance(n.targets[0], ast.Name) and names_in(n.value) & derived and n.targets[0].id not in derived:
                derived.add(n.targets[0].id)
                changed = True
            if isinstance(n, ast.Expr) and isinstance(n.value, ast.Call) and isinstance(n.value.func, ast.Attribute) and n.value.func.attr in ("append", "extend") \
                    and isinstance(n.value.func.value, ast.Name) and any(names_in(a) & derived for a in n.value.args) and n.value.func.value.id not in derived:
                derived.add(n.value.func.value.id)
                changed = True
    loops = [l for l in walk_no_nested(f.node) if isinstance(l, ast.For) and isinstance(l.iter, ast.Name) and l.iter.id in derived
             and any(isinstance(c, ast.Call) and call_name(c) in ("node_factory", "new_node", "Node") for c in ast.walk(l))]
    if len(loops) != 1:
        raise AnalysisError("%s: the greedy adding loop of from_split_bitmasks was not recognised" % rid)
    bad = []
    for n in walk_no_nested(f.node):
        if isinstance(n, ast.Call) and ((isinstance(n.func, ast.Name) and n.func.id in ("set", "frozenset", "sorted", "dict", "reversed")) or (isinstance(n.func, ast.Attribute) and n.func.attr in ("sort", "reverse", "fromkeys", "shuffle"))):
            args = list(n.args) + ([n.func.value] if isinstance(n.func, ast.Attribute) else [])
            if any(isinstance(a, ast.Name) and a.id in derived - {"split_bitmasks"} | ({"split_bitmasks"} if isinstance(a, ast.Name) and a.id == "split_bitmasks" else set()) for a in args) and n.lineno < loops[0].lineno:
                # building the set of leaves / masks for membership tests is fine; only a value that flows on into the loop's sequence matters
                pm = parent_map(f.node)
                st = enclosing_stmt(n, pm)
                flows = isinstance(st, ast.Assign) and isinstance(st.targets[0], ast.Name) and (st.targets[0].id == loops[0].iter.id or st.targets[0].id in _flows_into(f, loops[0].iter.id))
                inplace = isinstance(n.func, ast.Attribute) and isinstance(n.func.value, ast.Name) and (n.func.value.id == loops[0].iter.id or n.func.value.id in _flows_into(f, loops[0].iter.id))
                if flows or inplace:
                    bad.append(n)
    rep.check(not bad, rid, f.qualname, "order of the splits lost before the greedy loop: %s" % (norm(bad[0])[:50] if bad else ""), fn_where(f, bad[0] if bad else loops[0]),
              "from_split_bitmasks adds the splits in the order it was given them (`for %s in %s`)" % (norm(loops[0].target), norm(loops[0].iter)),
              "Tree.from_split_bitmasks passes the splits through `%s` before its greedy loop: the caller's decreasing-frequency order is lost, so for thresholds of one half or less a less frequent split can be added first and displace a more frequent conflicting one" % (norm(bad[0])[:60] if bad else ""))


def _flows_into(f, target):
    """names whose value flows (by assignment / append / comprehension) into `target`"""
    out = set()
    changed = True
    while changed:
        changed = False
        for n in walk_no_nested(f.node):
            if isinstance(n, ast.Assign) and isinstance(n.targets[0], ast.Name) and (n.targets[0].id == target or n.targets[0].id in out):
                for nm in names_in(n.value):
                    if nm not in out:
                        out.add(nm)
                        changed = True
            if isinstance(n, ast.Expr) and isinstance(n.value, ast.Call) and isinstance(n.value.func, ast.Attribute) and n.value.func.attr in ("append", "extend") \
                    and isinstance(n.value.func.value, ast.Name) and (n.value.func.value.id == target or n.value.func.value.id in out):
                cur = n
                # the loop variables feeding the append
                for nm in set().union(*[names_in(a) for a in n.value.args]) if n.value.args else set():
                    if nm not in out:
                        out.add(nm)
                        changed = True
            if isinstance(n, ast.For) and any(isinstance(t, ast.Name) and t.id in out for t in ast.walk(n.target)):
                for nm in names_in(n.iter):
                    if nm not in out:
                        out.add(nm)
                        changed = True
    return out


def rule_sort_order(index, rep, rid):
    order_preserved_rule(index, rep, rid)
    _rule_sort_order(index, rep, rid)
    _rule_sort_order(index, rep, rid, "dendropy.calculate.treesum.TreeSummarizer.tree_from_splits")


def _rule_sort_order(index, rep, rid, qual=None):
    """The list handed to from_split_bitmasks by SplitDistribution.consensus_tree
    is sorted descending by (frequency, split): a total order that does not
    depend on dict insertion (= arrival) order."""
    fi = index.function(qual or (SD + ".consensus_tree"))
    call = [c for c in calls_in(fi.node) if call_name(c) == "from_split_bitmasks"]
    if len(call) != 1:
        raise AnalysisError("%s: consensus_tree no longer calls from_split_bitmasks exactly once" % rid)
    arg = get_kwarg(call[0], "split_bitmasks") or (call[0].args[0] if call[0].args else None)
    if not isinstance(arg, ast.Name):
        raise AnalysisError("%s: split_bitmasks argument is not a local name" % rid)
    # follow: arg <- comprehension over L ; L sorted in place or via sorted()
    src = arg.id
    chain = [src]
    sort_call = None
    elem_tuple = None
    for _ in range(4):
        defs = _defs_of(fi.node, src)
        nxt = None
        for d in defs:
            v = d.value
            if isinstance(v, ast.ListComp) and len(v.generators) == 1 and isinstance(v.generators[0].iter, ast.Name):
                nxt = v.generators[0].iter.id
            elif isinstance(v, ast.Call) and call_name(v) == "sorted" and v.args:
                sort_call = v
                if isinstance(v.args[0], ast.Name):
                    nxt = v.args[0].id
            elif isinstance(v, ast.Name):
                nxt = v.id
        for c in calls_in(fi.node):
            if isinstance(c.func, ast.Attribute) and c.func.attr == "sort" and isinstance(c.func.value, ast.Name) and c.func.value.id == src:
                sort_call = c
            if isinstance(c.func, ast.Attribute) and c.func.attr == "append" and isinstance(c.func.value, ast.Name) and c.func.value.id == src and c.args:
                if isinstance(c.args[0], ast.Tuple):
                    elem_tuple = c.args[0]
        if nxt is None or nxt == src:
            break
        src = nxt
        chain.append(src)
    where = fn_where(fi, sort_call if sort_call is not None else call[0])
    if sort_call is None:
        others = [c for c in calls_in(fi.node) if call_name(c) in ("nlargest", "nsmallest", "heapify", "sort_values", "argsort")]
        if others:
            raise AnalysisError("%s: ordering idiom %s not recognised" % (rid, norm(others[0].func)))
        rep.check(False, rid, fi.qualname, "no sort before from_split_bitmasks", where,
                  "consensus_tree: candidate splits are sorted before greedy insertion",
                  "the splits handed to from_split_bitmasks (%s) are never sorted: insertion order is the dict order of the frequency table, i.e. the order in which trees arrived" % " <- ".join(chain))
        return
    rev = get_kwarg(sort_call, "reverse")
    key = get_kwarg(sort_call, "key")
    descending = isinstance(rev, ast.Constant) and rev.value is True
    key_has_split = True
    if key is not None:
        if isinstance(key, ast.Lambda):
            body = key.body
            p = key.args.args[0].arg
            comps = body.elts if isinstance(body, ast.Tuple) else [body]
            neg = any(isinstance(c, ast.UnaryOp) and isinstance(c.op, ast.USub) for c in comps[:1])
            if neg and rev is None:
                descending = True
            # does the key include the split component (element [1]) or the whole element?
            key_has_split = any(norm(c) in (p, "%s[1]" % p) or norm(c).endswith("[1]") for c in comps) or len(comps) == 1 and norm(comps[0]) == p
        else:
            txt = norm(key)
            key_has_split = "itemgetter(0, 1)" in txt or "itemgetter(0,1)" in txt
    else:
        # natural tuple order: element must be a tuple that contains the split after the frequency
        if elem_tuple is None or len(elem_tuple.elts) < 2:
            key_has_split = False
        else:
            # ... and the frequency comes FIRST: the leading component must not be the variable that walks the table's keys (the split)
            pm_ = parent_map(fi.node)
            lv = set()
            q_ = pm_.get(elem_tuple)
            while q_ is not None and q_ is not fi.node:
                if isinstance(q_, ast.For):
                    lv |= {x.id for x in ast.walk(q_.target) if isinstance(x, ast.Name)} if not isinstance(q_.target, ast.Tuple) else set()
                q_ = pm_.get(q_)
            first = elem_tuple.elts[0]
            rep.check(not (isinstance(first, ast.Name) and first.id in lv), rid, fi.qualname, "candidates ordered by split value, not by frequency: %s" % norm(elem_tuple), where,
                      "%s: the sort tuples lead with the frequency (%s)" % (fi.name, norm(elem_tuple)),
                      "%s sorts tuples `%s` whose first component is the split itself: candidates are tried in order of their bitmask value instead of decreasing frequency, so below a threshold of one half a less frequent split can displace a more frequent one it conflicts with" % (fi.qualname, norm(elem_tuple)))
    rep.check(descending, rid, fi.qualname, "sort direction: " + norm(sort_call)[:80], where,
              "consensus_tree: candidates sorted in DEcreasing frequency (%s)" % norm(sort_call)[:60],
              "candidate splits are not sorted in decreasing order of frequency (`%s`): low-frequency splits are inserted first and can exclude better-supported ones" % norm(sort_call)[:80])
    rep.check(key_has_split, rid, fi.qualname, "sort tie-break: " + norm(sort_call)[:80], where,
              "consensus_tree: sort key includes the split itself as tie-break (element %s)" % (norm(elem_tuple) if elem_tuple is not None else "?"),
              "the sort key orders by frequency only: equal-frequency, mutually incompatible splits are tried in dict (arrival) order, so the consensus depends on the order in which trees or partial results arrived")


def run(index, rep, tier):
    rep.rule("R05.1", "SplitDistribution cache/stamp discipline: source fields written only by the counting/merging functions, each of which advances total_trees_counted or clears the caches; derived tables are read only through getters that test `is None or stamp != total_trees_counted`; stamps are assigned only 0 or the current total, the latter only where the cache was rebuilt")
    rep.rule("R05.2", "one weight, two places: the same local feeds sum_of_tree_weights and split_counts; frequencies divide by calc_normalization_weight(); TreeArray.add_tree derives the tree weight exactly as count_splits_on_tree does")
    rep.rule("R05.3", "consensus_tree keeps splits with freq >= min_freq, sorts them descending with the split as tie-break; collapse uses freq < min_freq")
    rep.rule("R05.4", "the rooting state is propagated to from_split_bitmasks by consensus_tree / restore_tree / topologies")
    rep.rule("R05.5", "maximum_*_support_tree restores the tree at the index returned by the matching calculate_* and annotates it with scores[that index]; calculate_* tracks the maximum of the very value it appends")
    rep.rule("R05.7", "summary-statistic field names used by the summarizer are keys produced by statistics.summarize")
    sd = index.klass(SD)

    # ---------------- R05.1 (a) who writes the source fields
    with rep.section("R05.1 (a) who writes the source fields"):
        nwr = 0
        for fi in list(index.functions.values()):
            for w in writes_in(fi.node):
                if w.attr not in SOURCE_FIELDS:
                    continue
                base_self = isinstance(w.base, ast.Name) and w.base.id == "self"
                if base_self and fi.cls is not None and not index.is_subclass(fi.cls, SD):
                    # a different class with a same-named field of its own
                    own = any(w2.attr == w.attr and w2.kind == "store" for m in fi.cls.methods.values() if m.name == "__init__" for w2 in writes_in(m.node))
                    if own:
                        continue
                nwr += 1
                ok = base_self and fi.cls is not None and index.is_subclass(fi.cls, SD) and fi.name in SOURCE_WRITERS
                rep.check(ok, "R05.1", fi.qualname, "write to %s.%s" % (w.base_text, w.attr), fn_where(fi, w.stmt),
                          "%s writes %s.%s" % (fi.qualname, w.base_text, w.attr),
                          "%s modifies the split distribution's source field `%s` outside the counting/merging functions %s; the frequency/summary caches cannot know about it"
                          % (fi.qualname, w.attr, sorted(SOURCE_WRITERS)))
        rep.floor("R05.1", "writes to SplitDistribution source fields", 12, nwr)
        # (b) each writer advances the stamp source or clears the derived fields
        for name in ("count_splits_on_tree", "update"):
            fi = index.function(SD + "." + name)
            adv = [n for n in walk_no_nested(fi.node) if isinstance(n, ast.AugAssign) and isinstance(n.op, ast.Add)
                   and is_self_attr(n.target, "total_trees_counted")]
            cfg = cfg_of(fi)
            ok = False
            if adv:
                advn = [x for a in adv for x in stmt_nodes(cfg, a)]
                ids = {x.id for x in advn}
                # every normal path passes the increment
                ok, _ = cfg.must_pass(cfg.entry, lambda n: n.id in ids)
            rep.check(ok, "R05.1", fi.qualname, "total_trees_counted advanced", fn_where(fi),
                      "%s advances total_trees_counted on every path (invalidates the stamped caches)" % name,
                      "%s changes the split counts without advancing total_trees_counted on every path: cached frequencies stay stale" % fi.qualname)
        # (c) getters
        for field, (stamp, getter, calc) in DERIVED.items():
            g = index.function(SD + "." + getter)
            cfg = cfg_of(g)
            rets = [n for n in cfg.nodes if n.kind == "stmt" and isinstance(n.ast, ast.Return)]
            is_calc = lambda n: any(call_name(c) == calc for c in node_calls(n))

            def is_stamp_test(n, stamp=stamp):
                if n.kind != "test":
                    return False
                cp = compare_parts(n.ast)
                if not cp or cp[1] not in ("NotEq", "Lt", "Eq"):
                    return False
                txt = {norm(cp[0]), norm(cp[2])}
                return txt == {"self." + stamp, "self.total_trees_counted"}

            def is_none_test(n, field=field):
                if n.kind != "test":
                    return False
                cp = compare_parts(n.ast)
                return bool(cp) and cp[1] in ("Is", "Eq") and norm(cp[0]) == "self." + field and is_none(cp[2])
            reach = cfg.reach([cfg.entry], avoid=lambda n: is_calc(n) or is_stamp_test(n), follow_exc=False)
            ok1 = not any(r in reach for r in rets)
            reach = cfg.reach([cfg.entry], avoid=lambda n: is_calc(n) or is_none_test(n), follow_exc=False)
            ok2 = not any(r in reach for r in rets)
            # stamp test polarity: calc must be on the '!=' true edge
            ok3 = True
            for n in cfg.nodes:
                if is_stamp_test(n):
                    cp = compare_parts(n.ast)
                    lab = "t" if cp[1] in ("NotEq", "Lt") else "f"
                    tgt = [t for l, t in n.succ if l == lab]
                    ok3 = ok3 and any(is_calc(x) for x in cfg.reach(tgt, avoid=lambda m: m.kind == "stmt" and isinstance(m.ast, ast.Return), follow_exc=False))
            rep.check(ok1 and ok2 and ok3, "R05.1", g.qualname, "freshness test before returning self." + field, fn_where(g),
                      "%s returns self.%s only after `is None or %s != total_trees_counted` -> %s()" % (getter, field, stamp, calc),
                      "%s can return the cached %s without both the None test and the stamp test (or recalculates on the wrong branch): frequencies/summaries computed before more trees were counted are served" % (g.qualname, field))
            # direct reads elsewhere
            allowed = {getter, calc, "__init__", "update", "calc_freqs"}
            for fi in index.functions.values():
                if fi.name in allowed and fi.cls is not None and index.is_subclass(fi.cls, SD):
                    continue
                for a, base, node in attr_reads(fi.node):
                    if a == field:
                        rep.check(False, "R05.1", fi.qualname, "direct read of " + field, fn_where(fi, node),
                                  "%s reads %s directly" % (fi.qualname, field),
                                  "%s reads the cached table `%s` directly instead of through %s(): it can be None or stale" % (fi.qualname, field, getter))
        # (d) stamp assignments
        nst = 0
        for fi in index.methods_of(SD):
            for w in writes_in(fi.node):
                if w.attr in ("_trees_counted_for_freqs", "_trees_counted_for_summaries") and w.kind in ("store", "augstore"):
                    nst += 1
                    v = w.value
                    zero = isinstance(v, ast.Constant) and v.value == 0
                    cur = v is not None and norm(v) == "self.total_trees_counted"
                    rebuilt = False
                    if cur:
                        # a stamp shared by several tables may only be advanced where ALL of them are rebuilt
                        fld = [f for f, (s, g, c) in DERIVED.items() if s == w.attr]
                        rebuilt = all(any(w2.attr == f_ and w2.kind == "store" and not is_none(w2.value) for w2 in writes_in(fi.node)) for f_ in fld)
                    ok = zero or (cur and rebuilt)
                    rep.check(ok, "R05.1", fi.qualname, norm_stmt(w.stmt), fn_where(fi, w.stmt),
                              "stamp %s assigned %s in %s" % (w.attr, norm(v) if v is not None else "?", fi.name),
                              "stamp %s is set to `%s` in %s, which did not rebuild the table it stamps: the cache is marked fresh without being recomputed" % (w.attr, norm(v) if v is not None else "?", fi.qualname))
        rep.floor("R05.1", "stamp assignments", 4, nst)

    # ---------------- R05.2
    with rep.section("R05.2"):
        fi = index.function(SD + ".count_splits_on_tree")
        sw = [n for n in walk_no_nested(fi.node) if isinstance(n, ast.AugAssign) and is_self_attr(n.target, "sum_of_tree_weights")]
        sc = [n for n in walk_no_nested(fi.node) if isinstance(n, ast.AugAssign) and isinstance(n.target, ast.Subscript)
              and is_self_attr(n.target.value, "split_counts")]
        if len(sw) != 1 or len(sc) != 1:
            raise AnalysisError("R05.2: count_splits_on_tree accumulation statements not found (sum_of_tree_weights: %d, split_counts: %d)" % (len(sw), len(sc)))
        same = isinstance(sw[0].value, ast.Name) and isinstance(sc[0].value, ast.Name) and sw[0].value.id == sc[0].value.id \
            and isinstance(sw[0].op, ast.Add) and isinstance(sc[0].op, ast.Add)
        rep.check(same, "R05.2", fi.qualname, "weights: %s / %s" % (norm_stmt(sw[0]), norm_stmt(sc[0])), fn_where(fi, sc[0]),
                  "count_splits_on_tree adds the same local `%s` to sum_of_tree_weights and to split_counts[split]" % norm(sw[0].value),
                  "the per-tree amount added to split_counts (`%s`) is not the amount added to sum_of_tree_weights (`%s`): frequencies are no longer count/normaliser" % (norm(sc[0].value), norm(sw[0].value)))
        if same:
            wname = sw[0].value.id
            cfg = cfg_of(fi)
            swn = stmt_nodes(cfg, sw[0])[0]
            redef = cfg.can_reach(swn, lambda n: n.kind == "stmt" and isinstance(n.ast, (ast.Assign, ast.AugAssign)) and any(
                isinstance(t, ast.Name) and t.id == wname for t in ast.walk(n.ast) if isinstance(t, ast.Name) and isinstance(t.ctx, ast.Store)))
            rep.check(redef is None, "R05.2", fi.qualname, "weight local re-assigned between the two uses", fn_where(fi, sw[0]),
                      "`%s` is not re-assigned after it was added to sum_of_tree_weights" % wname,
                      "`%s` is re-assigned after being added to sum_of_tree_weights, so split_counts receives a different amount" % wname)
            wdef_sd = _weight_rule_text(fi, wname)
            fa = index.function(TA + ".add_tree")
            tw = [c for c in calls_in(fa.node) if isinstance(c.func, ast.Attribute) and c.func.attr in ("append", "insert")
                  and is_self_attr(c.func.value, "_tree_weights")]
            if not tw:
                raise AnalysisError("R05.2: TreeArray.add_tree no longer appends to _tree_weights")
            wn2 = tw[0].args[-1]
            wdef_ta = _weight_rule_text(fa, wn2.id) if isinstance(wn2, ast.Name) else None
            rep.check(wdef_sd is not None and wdef_sd == wdef_ta, "R05.2", fa.qualname, "tree-weight derivation (clone of count_splits_on_tree)", fn_where(fa, tw[0]),
                      "TreeArray.add_tree derives the per-tree weight exactly as count_splits_on_tree: %s" % wdef_sd,
                      "TreeArray.add_tree computes the stored tree weight (%s) differently from SplitDistribution.count_splits_on_tree (%s): topology frequencies and split frequencies are normalised inconsistently" % (wdef_ta, wdef_sd))
        cf = index.function(SD + ".calc_freqs")
        divs = [n for n in walk_no_nested(cf.node) if isinstance(n, ast.BinOp) and isinstance(n.op, ast.Div)]
        ok = False
        for d in divs:
            if "self.split_counts[" in norm(d.left) and isinstance(d.right, ast.Name):
                defs = _defs_of(cf.node, d.right.id)
                ok = any(isinstance(x.value, ast.Call) and norm(x.value.func) == "self.calc_normalization_weight" for x in defs)
        rep.check(ok, "R05.2", cf.qualname, "frequency = split_counts[s] / calc_normalization_weight()", fn_where(cf),
                  "calc_freqs divides each count by self.calc_normalization_weight()",
                  "calc_freqs no longer divides split_counts[s] by calc_normalization_weight(): frequencies are not weighted fractions of trees")
        cn = index.function(SD + ".calc_normalization_weight")
        rets = [norm(n.value) for n in walk_no_nested(cn.node) if isinstance(n, ast.Return) and n.value is not None]
        ok = any("self.sum_of_tree_weights" in r for r in rets) and all(("sum_of_tree_weights" in r or "total_trees_counted" in r) for r in rets)
        rep.check(ok, "R05.2", cn.qualname, "normaliser returns", fn_where(cn),
                  "calc_normalization_weight returns sum_of_tree_weights (or total_trees_counted when that is zero): %s" % rets,
                  "calc_normalization_weight returns %s: not the sum of the weights that were added to the counts" % rets)

    # ---------------- R05.2 merges add like to like
    with rep.section("R05.2 like to like"):
        from . import c06
        rep.floor("R05.2", "field-to-field merges in SplitDistribution.update", 3, c06.like_to_like_rule(index, rep, "R05.2", [SD + ".update"]))

    # ---------------- R05.11
    with rep.section("R05.11"):
        rep.rule("R05.11", "order statistics are read from the sorted sample: in the statistics module a function that sorts its sample into a copy never indexes the unsorted original afterwards (median, quantiles and HPD bounds must not depend on the order in which trees arrived)")
        nsort = 0
        for f in index.functions_in_module("dendropy.calculate.statistics"):
            for a in walk_no_nested(f.node):
                if not (isinstance(a, ast.Assign) and isinstance(a.value, ast.Call) and isinstance(a.value.func, ast.Name) and a.value.func.id == "sorted" and a.value.args and isinstance(a.value.args[0], ast.Name) and isinstance(a.targets[0], ast.Name)):
                    continue
                src, dst = a.value.args[0].id, a.targets[0].id
                if src == dst or src not in f.params:
                    continue
                nsort += 1
                g = cfg_of(f)
                after = set()
                for nd in g.nodes_of_stmt(a):
                    after |= {x.id for x in g.reach([nd], follow_exc=False)}
                bad = [x for nd in g.nodes if nd.id in after and nd.stmt is not a for e in node_exprs(nd) for x in ast.walk(e)
                       if isinstance(x, ast.Subscript) and isinstance(x.value, ast.Name) and x.value.id == src and isinstance(x.ctx, ast.Load)]
                rep.check(not bad, "R05.11", f.qualname, "indexes the unsorted sample after sorting it into a copy", fn_where(f, bad[0] if bad else a), "%s reads positions from `%s`, the sorted copy of `%s`" % (f.name, dst, src),
                          "%s sorts `%s` into `%s` and then reads `%s`: a position in the unsorted sample is whatever tree happened to arrive at that place, so the statistic (the median edge length or node age a summary tree is given) changes with the order and partitioning of the input although the multiset of values is the same" % (f.qualname, src, dst, norm(bad[0])[:40] if bad else ""))
        rep.floor("R05.11", "sorted copies of a sample parameter in the statistics module", 1, nsort)

    # ---------------- R05.12
    with rep.section("R05.12"):
        rep.rule("R05.12", "a standard deviation is a real number: in the statistics and summarisation modules a square root is taken with math.sqrt (ValueError on a negative argument, which the callers handle) or of a value clamped at 0 - never by `** 0.5`, which turns the slightly negative variance that the one-pass formula gives for identical values into a complex number")
        nroot = 0
        for m in ("dendropy.calculate.statistics", "dendropy.datamodel.treecollectionmodel", "dendropy.calculate.treesum"):
            for f in index.functions_in_module(m):
                for x in walk_no_nested(f.node):
                    if isinstance(x, ast.Call) and norm(x.func) in ("math.sqrt", "sqrt"):
                        nroot += 1
                        rep.ob("R05.12", fn_where(f, x), "%s: `%s` raises ValueError for a negative argument" % (f.qualname, norm(x)[:40]), True)
                    if isinstance(x, ast.BinOp) and isinstance(x.op, ast.Pow) and ((isinstance(x.right, ast.Constant) and x.right.value == 0.5) or norm(x.right) in ("1 / 2", "1.0 / 2", "1 / 2.0")):
                        nroot += 1
                        b = x.left
                        clamped = isinstance(b, ast.Call) and ((isinstance(b.func, ast.Name) and b.func.id == "abs") or (isinstance(b.func, ast.Name) and b.func.id == "max" and any(isinstance(a, ast.Constant) and a.value in (0, 0.0) for a in b.args)))
                        rep.check(clamped, "R05.12", f.qualname, "square root by `** 0.5` of an unclamped value", fn_where(f, x), "%s: the base of `%s` is clamped at 0" % (f.qualname, norm(x)[:40]),
                                  "%s takes `%s`: for a negative base Python returns a COMPLEX number instead of raising, and the one-pass variance (ss - mean*s)/n is slightly negative for samples of identical values (0.1, 0.1, 0.1) - the `except ValueError` meant for that case never fires, so the sd of a split whose length is the same in all trees comes out as (8e-26+1.3e-09j)" % (f.qualname, norm(x)[:50]))
        rep.floor("R05.12", "square roots in the summary statistics", 1, nroot)

    # ---------------- R05.10
    with rep.section("R05.10"):
        rep.rule("R05.10", "summaries fail independently: in statistics.summarize each try-block computes one statistic (one statistics function per block), so a sample too small for the quantiles cannot blank the median; percent scaling of support values is applied once (a value already multiplied by 100 is not handed to the label composer, which scales itself)")
        sm = index.function("dendropy.calculate.statistics.summarize")
        stat_fns = {f.name for f in index.functions_in_module("dendropy.calculate.statistics", include_methods=False)}
        ntry = 0
        for tr in sm.node.body:
            if not isinstance(tr, ast.Try):
                continue
            ntry += 1
            called = sorted({call_name(c) for st in tr.body for c in ast.walk(st) if isinstance(c, ast.Call) and isinstance(c.func, ast.Name) and c.func.id in stat_fns})
            rep.check(len(called) <= 1, "R05.10", sm.qualname, "one try-block computes %s" % called, fn_where(sm, tr), "summarize: block at line %d computes %s only" % (tr.lineno, called or "a built-in statistic"),
                      "statistics.summarize computes %s in one try-block: when one of them refuses the sample (quantile_5_95 raises for 11-29 values) the handler also blanks the others, so e.g. the median of a split's edge lengths is reported as None although it is perfectly defined" % called)
        rep.floor("R05.10", "try-blocks in statistics.summarize", 4, ntry)
        ts = "dendropy.calculate.treesum.TreeSummarizer"
        mp = index.function(ts + ".map_split_support_to_node")
        scaled = set()
        for iff in walk_no_nested(mp.node):
            if isinstance(iff, ast.If) and "support_as_percentages" in norm(iff.test):
                t_, tb_, fb_ = pos_if(iff)
                for a in [x for st in tb_ for x in ast.walk(st)]:
                    if isinstance(a, ast.Assign) and isinstance(a.targets[0], ast.Name) and isinstance(a.value, ast.BinOp) and isinstance(a.value.op, ast.Mult) and 100 in (const_value(a.value.left), const_value(a.value.right)):
                        scaled.add(a.targets[0].id)
        scalers = {m.name for m in index.methods_of(ts) if any(isinstance(b, ast.BinOp) and isinstance(b.op, ast.Mult) and 100 in (const_value(b.left), const_value(b.right)) and (names_in(b) & set(m.params)) for b in ast.walk(m.node))
                   and m.name != "map_split_support_to_node"}
        if not scaled or not scalers:
            raise AnalysisError("R05.10: percent scaling in TreeSummarizer not recognised (scaled=%s scalers=%s)" % (scaled, scalers))
        for c in calls_in(mp.node):
            if call_name(c) in scalers:
                bad = [a for a in list(c.args) + [k.value for k in c.keywords] if isinstance(a, ast.Name) and a.id in scaled]
                rep.check(not bad, "R05.10", mp.qualname, "already-scaled `%s` handed to %s" % (bad[0].id if bad else "", call_name(c)), fn_where(mp, c), "%s receives the raw frequency" % call_name(c),
                          "map_split_support_to_node passes `%s` - already multiplied by 100 under support_as_percentages - to %s, which multiplies by 100 itself under the same option: with labels and percentages both on, a split of frequency 6/7 is labelled 8571.4" % (bad[0].id if bad else "", call_name(c)))

    # ---------------- R05.9
    with rep.section("R05.9"):
        rep.rule("R05.9", "edge lengths are read off the right edges: count_splits_on_tree pairs each split with its edge through tree.bipartition_edge_map, which every re-encode must drop unconditionally (C01 R01.5)")
        rep.floor("R05.9", "borrowed obligations", 2, borrow(index, rep, "C01", {"R01.5", "R01.1", "R01.4", "R01.8", "R01.12"}, "R05.9"))

    # ---------------- R05.3
    with rep.section("R05.3"):
        fi = index.function(SD + ".consensus_tree")
        gte = None
        for n in walk_no_nested(fi.node):
            cp = compare_parts(n) if isinstance(n, ast.Compare) else None
            if cp and isinstance(cp[2], ast.Name) and cp[2].id == "min_freq" and isinstance(cp[0], ast.Name):
                gte = (n, cp)
            elif cp and isinstance(cp[0], ast.Name) and cp[0].id == "min_freq" and isinstance(cp[2], ast.Name):
                flipped = {"Lt": "Gt", "LtE": "GtE", "Gt": "Lt", "GtE": "LtE"}.get(cp[1], cp[1])
                gte = (n, (cp[2], flipped, cp[0]))
        if gte is None:
            # the threshold may have been rescaled: thr = min_freq * <normaliser>, compared with the raw counts
            scaled = {}
            for n in walk_no_nested(fi.node):
                if isinstance(n, ast.Assign) and isinstance(n.targets[0], ast.Name) and isinstance(n.value, ast.BinOp) and isinstance(n.value.op, ast.Mult) \
                        and any(isinstance(x, ast.Name) and x.id == "min_freq" for x in (n.value.left, n.value.right)):
                    scaled[n.targets[0].id] = n.value.right if norm(n.value.left) == "min_freq" else n.value.left
            for n in walk_no_nested(fi.node):
                cp = compare_parts(n) if isinstance(n, ast.Compare) else None
                if not cp:
                    continue
                for thr, other, op in ((cp[2], cp[0], cp[1]), (cp[0], cp[2], {"Lt": "Gt", "LtE": "GtE", "Gt": "Lt", "GtE": "LtE"}.get(cp[1], cp[1]))):
                    factor = scaled.get(thr.id) if isinstance(thr, ast.Name) else None
                    if factor is None and isinstance(thr, ast.BinOp) and isinstance(thr.op, ast.Mult) and "min_freq" in (norm(thr.left), norm(thr.right)):
                        factor = thr.right if norm(thr.left) == "min_freq" else thr.left
                    if factor is None:
                        continue
                    okf = norm(factor) in ("self.calc_normalization_weight()", "self.sum_of_tree_weights")
                    rep.check(okf and op == "GtE" and "split_counts" in norm(other), "R05.3", fi.qualname, "threshold rescaled by %s: %s" % (norm(factor), norm(n)), fn_where(fi, n),
                              "consensus_tree compares the weighted count with min_freq times the normalisation weight",
                              "consensus_tree admits a split when `%s`, i.e. it compares the WEIGHTED count of a split with min_freq times `%s`: frequencies are counts divided by the sum of tree weights (calc_normalization_weight), so under tree weights whose sum differs from the number of trees the majority-rule tree loses splits that reach the threshold or gains splits that do not" % (norm(n), norm(factor)))
                    gte = "rescaled"
        if gte is None:
            raise AnalysisError("R05.3: threshold comparison against min_freq not found in consensus_tree")
        if gte == "rescaled":
            gte = None
        if gte is not None:
            rep.check(gte[1][1] == "GtE", "R05.3", fi.qualname, "threshold comparison: " + norm(gte[0]), fn_where(fi, gte[0]),
                      "consensus_tree admits a split when `%s`" % norm(gte[0]),
                      "consensus_tree admits splits with `%s`; the property requires every split whose frequency REACHES the threshold (>=)" % norm(gte[0]))
        rule_sort_order(index, rep, "R05.3")
        fc = index.function(SD + ".collapse_edges_with_less_than_minimum_support")
        cmpn = [n for n in walk_no_nested(fc.node) if isinstance(n, ast.Compare) and any(isinstance(x, ast.Name) and x.id == "min_freq" for x in ast.walk(n))]
        if not cmpn:
            raise AnalysisError("R05.3: min_freq comparison not found in collapse_edges_with_less_than_minimum_support")
        for n in cmpn:
            cp = compare_parts(n)
            ok = bool(cp) and ((cp[1] == "Lt" and norm(cp[2]) == "min_freq") or (cp[1] == "Gt" and norm(cp[0]) == "min_freq"))
            rep.check(ok, "R05.3", fc.qualname, "collapse comparison: " + norm(n), fn_where(fc, n),
                      "collapse removes an edge when `%s`" % norm(n),
                      "edges are collapsed when `%s`; only edges whose split frequency is strictly BELOW the threshold may go" % norm(n))

    # ---------------- R05.4
    with rep.section("R05.4"):
        sites = [
            (SD + ".consensus_tree", "from_split_bitmasks", "is_rooted", {"is_rooted"}),
            (TA + ".consensus_tree", "consensus_tree", "is_rooted", {"self.is_rooted_trees", "self._is_rooted_trees"}),
            (TA + ".restore_tree", "from_split_bitmasks", "is_rooted", {"self._is_rooted_trees", "self.is_rooted_trees"}),
            (TA + ".topologies", "from_split_bitmasks", "is_rooted", {"self._is_rooted_trees", "self.is_rooted_trees"}),
        ]
        for q, callee, kw, accepted in sites:
            fi = index.function(q)
            cs = [c for c in calls_in(fi.node) if call_name(c) == callee]
            if not cs:
                raise AnalysisError("R05.4: %s no longer calls %s" % (q, callee))
            for c in cs:
                v = get_kwarg(c, kw)
                ok = v is not None and norm(v) in accepted
                rep.check(ok, "R05.4", fi.qualname, "%s(%s=%s)" % (callee, kw, norm(v) if v is not None else "<missing>"), fn_where(fi, c),
                          "%s passes %s=%s to %s" % (fi.name, kw, norm(v) if v is not None else "<missing>", callee),
                          "%s calls %s without forwarding the collection's rooting state (%s=%s): the summary tree does not get the rooting state of the input trees"
                          % (fi.qualname, callee, kw, norm(v) if v is not None else "<missing>"))
        # is_rooted defaulting in SD.consensus_tree: only under `is_rooted is None`
        fi = index.function(SD + ".consensus_tree")
        for w in walk_no_nested(fi.node):
            if isinstance(w, ast.Assign) and any(isinstance(t, ast.Name) and t.id == "is_rooted" for t in w.targets):
                cfg = cfg_of(fi)
                wn = stmt_nodes(cfg, w)[0]

                def none_test(n):
                    cp = compare_parts(n.ast) if n.kind == "test" else None
                    return bool(cp) and norm(cp[0]) == "is_rooted" and is_none(cp[2]) and cp[1] in ("Is", "Eq")
                ok = cfg.dominated_by(wn, none_test)
                rep.check(ok, "R05.4", fi.qualname, norm_stmt(w), fn_where(fi, w), "is_rooted is only defaulted when the caller passed None",
                          "consensus_tree overrides the caller's is_rooted (`%s`) outside an `is_rooted is None` test" % norm_stmt(w))

    # ---------------- R05.5
    with rep.section("R05.5"):
        pairs = [
            (TA + ".maximum_product_of_split_support_tree", "calculate_log_product_of_split_supports"),
            (TA + ".maximum_sum_of_split_support_tree", "calculate_sum_of_split_supports"),
            (TL + ".maximum_product_of_split_support_tree", "calculate_log_product_of_split_supports"),
            (TL + ".maximum_sum_of_split_support_tree", "calculate_sum_of_split_supports"),
        ]
        for q, calc in pairs:
            fi = index.function(q)
            asg = [n for n in walk_no_nested(fi.node) if isinstance(n, ast.Assign) and isinstance(n.value, ast.Call)
                   and call_name(n.value) and call_name(n.value).startswith("calculate_")]
            ok = len(asg) == 1 and call_name(asg[0].value) == calc and isinstance(asg[0].targets[0], ast.Tuple) and len(asg[0].targets[0].elts) == 2
            rep.check(ok, "R05.5", fi.qualname, "score source", fn_where(fi), "%s scores with %s" % (fi.name, calc),
                      "%s does not take (scores, index) from %s" % (fi.qualname, calc))
            if not ok:
                continue
            sname, iname = [norm(e) for e in asg[0].targets[0].elts]
            picks = []
            for n in walk_no_nested(fi.node):
                if isinstance(n, ast.Call) and call_name(n) == "restore_tree":
                    v = get_kwarg(n, "index") or (n.args[0] if n.args else None)
                    picks.append(norm(v) if v is not None else None)
                elif isinstance(n, ast.Subscript) and norm(n.value) == "self":
                    picks.append(norm(n.slice))
            ok = picks == [iname]
            rep.check(ok, "R05.5", fi.qualname, "tree picked at %s" % picks, fn_where(fi), "%s returns the tree at the maximising index `%s`" % (fi.name, iname),
                      "%s picks the tree with %s, not with the index `%s` that %s reported" % (fi.qualname, picks, iname, calc))
            scs = [norm(n.slice) for n in walk_no_nested(fi.node) if isinstance(n, ast.Subscript) and norm(n.value) == sname]
            ok = bool(scs) and all(s == iname for s in scs)
            rep.check(ok, "R05.5", fi.qualname, "score annotation %s[%s]" % (sname, scs), fn_where(fi), "%s annotates the tree with %s[%s]" % (fi.name, sname, iname),
                      "%s annotates the tree with %s%s rather than the score at the maximising index" % (fi.qualname, sname, scs))
        for calc in ("calculate_log_product_of_split_supports", "calculate_sum_of_split_supports"):
            fi = index.function(TA + "." + calc)
            ret = [n for n in walk_no_nested(fi.node) if isinstance(n, ast.Return)]
            svar = norm(ret[0].value.elts[0]) if ret and isinstance(ret[0].value, ast.Tuple) and ret[0].value.elts else "scores"
            apps = [c for c in calls_in(fi.node) if isinstance(c.func, ast.Attribute) and c.func.attr == "append" and norm(c.func.value) == svar]
            if len(apps) != 1 or not ret:
                raise AnalysisError("R05.5: %s shape not recognised" % calc)
            val = norm(apps[0].args[0])
            cmps = [n for n in walk_no_nested(fi.node) if isinstance(n, ast.Compare) and val in (norm(n.left), norm(n.comparators[0])) and len(n.ops) == 1
                    and not is_none(n.comparators[0])]
            ok = False
            msg = "no comparison of the appended score with the running maximum"
            for n in cmps:
                l, op, r = norm(n.left), type(n.ops[0]).__name__, norm(n.comparators[0])
                if (r == val and op in ("Lt",)) or (l == val and op in ("Gt",)):
                    other = l if r == val else r
                    ass = [a for a in walk_no_nested(fi.node) if isinstance(a, ast.Assign) and norm(a.targets[0]) == other and norm(a.value) == val]
                    ok = bool(ass)
                    msg = "running maximum `%s` is not updated with the compared score" % other
                else:
                    msg = "comparison `%s` does not select the MAXIMUM score (first maximum on ties)" % norm(n)
            rep.check(ok, "R05.5", fi.qualname, "maximum tracking", fn_where(fi, cmps[0] if cmps else None),
                      "%s tracks the first maximum of the score it appends (`%s`)" % (calc, val), "%s: %s" % (fi.qualname, msg))
            zips = [c for c in calls_in(fi.node) if call_name(c) == "zip"]
            ok = any({norm(a) for a in z.args} == {"self._tree_leafset_bitmasks", "self._tree_split_bitmasks"} for z in zips)
            rep.check(ok, "R05.5", fi.qualname, "per-tree iteration", fn_where(fi), "%s walks the per-tree leafset and split lists in step" % calc,
                      "%s no longer iterates zip(_tree_leafset_bitmasks, _tree_split_bitmasks)" % fi.qualname)
            sf = [n for n in walk_no_nested(fi.node) if isinstance(n, ast.Assign) and "split_frequencies" in norm(n.value) and isinstance(n.targets[0], ast.Name)]
            ok = bool(sf) and norm(sf[0].value) in ("self._split_distribution.split_frequencies", "self.split_distribution.split_frequencies",
                                                    "self._split_distribution._get_split_frequencies()")
            rep.check(ok, "R05.5", fi.qualname, "frequency table source", fn_where(fi), "%s reads the collection's own (fresh) frequency table" % calc,
                      "%s takes split frequencies from `%s`, not from its own distribution's freshness-checked getter" % (fi.qualname, norm(sf[0].value) if sf else None))

    # ---------------- R05.6 / R05.8
    with rep.section("R05.6 / R05.8"):
        rep.rule("R05.6", "counting/summarising functions re-encode the tree before reading its bipartitions unless told not to (freshness, shared engine with R04.1)")
        from . import c04
        nf = c04.freshness_everywhere(index, rep, "R05.6", [TCM, "dendropy.calculate.treesum"])
        rep.floor("R05.6", "functions using the freshness flag in the tree-collection modules", 15, nf)
        rep.rule("R05.8", "each split of a tree is counted once: the encode call of the counting functions keeps unifurcation suppression on (two edges around an out-degree-one node carry the same split)")
        nenc = 0
        for q in (SD + ".count_splits_on_tree", SD + ".split_support_iter", TCM + ".SplitDistributionSummarizer.summarize_splits_on_tree", SD + ".collapse_edges_with_less_than_minimum_support"):
            fi = index.function(q)
            for c in calls_in(fi.node):
                if call_name(c) in ("encode_bipartitions", "update_bipartitions"):
                    nenc += 1
                    v = get_kwarg(c, "suppress_unifurcations")
                    ok = v is None or (isinstance(v, ast.Constant) and v.value is True)
                    rep.check(ok, "R05.8", fi.qualname, "encode with suppress_unifurcations=%s" % (norm(v) if v is not None else "default"), fn_where(fi, c), "%s encodes with unifurcation suppression on" % fi.name,
                              "%s encodes the tree with suppress_unifurcations=%s: both edges around an out-degree-one node stay in the encoding with the same split, so that split is counted twice for one tree and its frequency exceeds the fraction of trees containing it" % (fi.qualname, norm(v)))
        rep.floor("R05.8", "encode calls in the counting functions", 4, nenc)

    # ---------------- R05.7
    with rep.section("R05.7"):
        st = index.function("dendropy.calculate.statistics.summarize")
        produced = set()
        srets = [norm(n.value) for n in walk_no_nested(st.node) if isinstance(n, ast.Return) and n.value is not None]
        svar = srets[-1] if srets else "summary"
        for n in walk_no_nested(st.node):
            if isinstance(n, ast.Subscript) and isinstance(n.ctx, ast.Store) and norm(n.value) == svar and isinstance(n.slice, ast.Constant):
                produced.add(n.slice.value)
        rep.floor("R05.7", "keys produced by statistics.summarize", 5, len(produced))
        names = sd.class_attrs.get("SUMMARY_STATS_FIELDNAMES")
        if names is None or not isinstance(names, (ast.Tuple, ast.List)):
            raise AnalysisError("R05.7: SplitDistribution.SUMMARY_STATS_FIELDNAMES not a literal tuple")
        used = [(e.value, sd.node) for e in names.elts if isinstance(e, ast.Constant)]
        summ = index.function(TCM + ".SplitDistributionSummarizer.summarize_splits_on_tree")
        for n in walk_no_nested(summ.node):
            if isinstance(n, ast.Subscript) and isinstance(n.slice, ast.Constant) and isinstance(n.slice.value, str) and "summaries" in norm(n.value):
                used.append((n.slice.value, n))
        for k, node in used:
            rep.check(k in produced, "R05.7", summ.qualname, "summary key %r" % k, fn_where(summ, node if hasattr(node, "lineno") else None),
                      "summary field %r is produced by statistics.summarize" % k,
                      "the summarizer looks up summary field %r, which statistics.summarize never produces (it produces %s): that summary silently falls back to the no-data value" % (k, sorted(produced)))

    # ---- R05.13 the counts contain only trees that were accepted
    with rep.section("R05.13"):
        rep.rule("R05.13", "the frequencies are over the trees that were accepted: a tree is validated before anything of it is counted (C06 R06.11)")
        rep.floor("R05.13", "borrowed obligations", 3, borrow(index, rep, "C06", {"R06.11"}, "R05.13"))

    # ---- R05.14 a component kept between calls is configured by every call
    with rep.section("R05.14"):
        rep.rule("R05.14", "a component kept between calls is configured by every call: where a method that takes per-call options (`**kwargs`) uses a helper object it creates on demand and keeps on self (`if self.x is None: self.x = K()`), every path to the use passes `self.x.configure(**kwargs)` (or the creation from those kwargs) - configure() resets every option it is not given, so skipping it when no option is passed leaves the previous call's settings in force (support as percentages, node labels) for a caller who asked for the defaults")
        n14 = 0
        for fi in index.functions_in_module(TCM):
            if fi.cls is None or fi.node.args.kwarg is None:
                continue
            kw = fi.node.args.kwarg.arg
            lazy = {}
            for st in walk_no_nested(fi.node):
                if isinstance(st, ast.If):
                    cp = compare_parts(st.test)
                    if cp and cp[1] == "Is" and is_none(cp[2]) and isinstance(cp[0], ast.Attribute) and norm(cp[0].value) == "self":
                        a = cp[0].attr
                        if any(isinstance(x, ast.Assign) and norm(x.targets[0]) == "self." + a for x in ast.walk(st)):
                            lazy[a] = st
            if not lazy:
                continue
            g = cfg_of(fi)
            for a in lazy:
                def passes_options(n, a=a):
                    for c in node_calls(n):
                        star = any(k.arg is None and norm(k.value) == kw for k in c.keywords)
                        if star and isinstance(c.func, ast.Attribute) and c.func.attr == "configure" and norm(c.func.value) == "self." + a:
                            return True
                    x = n.ast
                    if isinstance(x, ast.Assign) and norm(x.targets[0]) == "self." + a and isinstance(x.value, ast.Call) and any(k.arg is None and norm(k.value) == kw for k in x.value.keywords):
                        return True
                    return False
                uses = [n for n in g.nodes if any(isinstance(c.func, ast.Attribute) and norm(c.func.value) == "self." + a and c.func.attr != "configure" for c in node_calls(n))]
                for u in uses:
                    n14 += 1
                    ok = g.dominated_by(u, passes_options, follow_exc=False)
                    rep.check(ok, "R05.14", fi.qualname, "`self.%s` used without this call's options" % a, fn_where(fi, u.ast), "%s: self.%s is configured with **%s before it is used" % (fi.name, a, kw),
                              "%s keeps `self.%s` between calls and can reach `%s` without having handed it this call's `**%s`: configure() sets every option it is not given back to its default, so skipping it (for instance when no option is passed) leaves the settings of the PREVIOUS call in force - after a consensus tree was asked for with support as percentages, a plain summarize_splits_on_tree(tree) labels the nodes with 75.0 instead of 0.75" % (fi.qualname, a, norm(node_calls(u)[0])[:50] if node_calls(u) else "", kw))
        rep.floor("R05.14", "uses of components kept between calls in methods taking per-call options", 1, n14)

    # ---- R05.15 an order statistic is read at an index inside the sample
    with rep.section("R05.15"):
        rep.rule("R05.15", "an order statistic is read at an index inside the sample: in calculate.statistics a subscript whose index has the form `int(round(n * q)) - 1` with a constant fraction q below one half is dominated by a test that refuses the negative case (`idx < 0`, `idx >= 0` ...) - a negative index does not fail, it wraps around, and the 5% quantile of a small sample comes out as its MAXIMUM")
        n15 = 0
        for fi in index.functions_in_module("dendropy.calculate.statistics"):
            subs_idx = {}
            for st in walk_no_nested(fi.node):
                if isinstance(st, ast.Assign) and len(st.targets) == 1 and isinstance(st.targets[0], ast.Name) and isinstance(st.value, ast.BinOp) and isinstance(st.value.op, ast.Sub) and const_value(st.value.right, None) == 1 \
                        and any(isinstance(x, ast.Call) and call_name(x) in ("int", "round", "floor") for x in ast.walk(st.value.left)):
                    # only the form whose value is decidable here: a count times a constant fraction below one half rounds to 0 for a small count
                    fr = [x for x in ast.walk(st.value.left) if isinstance(x, ast.BinOp) and isinstance(x.op, ast.Mult) and any(isinstance(o, ast.Constant) and isinstance(o.value, float) and 0 < o.value < 0.5 for o in (x.left, x.right))]
                    if fr:
                        subs_idx[st.targets[0].id] = st
            if not subs_idx:
                continue
            g = cfg_of(fi)
            for x in ast.walk(fi.node):
                if isinstance(x, ast.Subscript) and isinstance(x.slice, ast.Name) and x.slice.id in subs_idx and isinstance(x.ctx, ast.Load):
                    nm = x.slice.id
                    nd = node_of_ast(g, x)
                    if nd is None:
                        continue
                    n15 += 1

                    def nonneg_edge(a_, lab, b_, nm=nm):
                        # follow only edges on which the index may still be negative
                        if a_.kind == "test" and isinstance(a_.ast, ast.Compare) and len(a_.ast.ops) == 1 and norm(a_.ast.left) == nm and isinstance(a_.ast.comparators[0], ast.Constant) and isinstance(a_.ast.comparators[0].value, (int, float)):
                            c_ = a_.ast.comparators[0].value
                            op = type(a_.ast.ops[0])
                            sat = {ast.Lt: -1 < c_, ast.LtE: -1 <= c_, ast.Gt: -1 > c_, ast.GtE: -1 >= c_, ast.Eq: -1 == c_, ast.NotEq: -1 != c_}.get(op)
                            if sat is not None:
                                return sat if lab == "t" else (not sat) if lab == "f" else True
                        return lab != "e"
                    seen = g.reach([g.entry], follow_exc=False, edge_ok=nonneg_edge)
                    # the smallest index the formula can give for a non-empty sample is -1 (n * q rounds to 0)
                    rep.check(nd not in seen, "R05.15", fi.qualname, "`%s` can be read at index -1" % norm(x), fn_where(fi, x), "%s: `%s` only with a non-negative index" % (fi.name, norm(x)),
                              "%s reads `%s` where `%s = %s` can be -1 (the product rounds to 0 for a small sample) and no test on the way refuses that: Python wraps a negative index around, so the lower quantile of fewer than ten values is their largest value - the summary of a split seen in a handful of trees reports a 5%% bound above its 95%% bound" % (fi.qualname, norm(x), nm, norm(subs_idx[nm].value)[:40]))
        rep.floor("R05.15", "order statistics read at a computed index", 1, n15)

    # ---- R05.16 what a merge takes from the other collection, it copies
    with rep.section("R05.16"):
        rep.rule("R05.16", "what a merge takes from the other collection it copies: SplitDistribution.update / TreeArray merges never store the other operand's own list objects in the receiver (C06 R06.6) - the receiver would append its later trees into them, and the summaries of the FIRST operand (means, medians, ranges of its edge lengths and node ages) would change although none of its trees did")
        nb = borrow(index, rep, "C06", {"R06.6"}, "R05.16")
        rep.floor("R05.16", "borrowed obligations", 2, nb)

    # ---- R05.17 the median is read at the middle of the sorted sample
    with rep.section("R05.17"):
        rep.rule("R05.17", "the median is read at the middle of the sorted sample: in calculate.statistics.median the index expressions are pure integer arithmetic on the sample size, so they are folded here for sizes 1..9 along the parity branch the function takes: an odd size 2m+1 reads exactly position m, an even size 2m exactly positions m-1 and m (the summaries `length_median` / `age_median` and the `median-length` / `median-age` consensus settings are this function)")
        mf = index.function("dendropy.calculate.statistics.median")

        def fold(e, env):
            if isinstance(e, ast.Constant) and isinstance(e.value, (int, float)):
                return e.value
            if isinstance(e, ast.Name) and e.id in env:
                return env[e.id]
            if isinstance(e, ast.BinOp):
                a, b = fold(e.left, env), fold(e.right, env)
                ops = {ast.Add: lambda: a + b, ast.Sub: lambda: a - b, ast.Mult: lambda: a * b, ast.Div: lambda: a / b, ast.FloorDiv: lambda: a // b, ast.Mod: lambda: a % b}
                if type(e.op) in ops:
                    return ops[type(e.op)]()
            if isinstance(e, ast.UnaryOp) and isinstance(e.op, ast.USub):
                return -fold(e.operand, env)
            if isinstance(e, ast.Call) and isinstance(e.func, ast.Name) and e.func.id in ("int", "round", "abs") and len(e.args) == 1:
                return {"int": int, "round": round, "abs": abs}[e.func.id](fold(e.args[0], env))
            if isinstance(e, ast.Compare) and len(e.ops) == 1:
                a, b = fold(e.left, env), fold(e.comparators[0], env)
                cm = {ast.Eq: a == b, ast.NotEq: a != b, ast.Lt: a < b, ast.LtE: a <= b, ast.Gt: a > b, ast.GtE: a >= b}
                return cm[type(e.ops[0])]
            if isinstance(e, ast.UnaryOp) and isinstance(e.op, ast.Not):
                return not fold(e.operand, env)
            raise AnalysisError("R05.17: `%s` in statistics.median is not integer arithmetic on the sample size" % norm(e)[:50])

        size_names = {t.id for a in walk_no_nested(mf.node) if isinstance(a, ast.Assign) and isinstance(a.value, ast.Call) and call_name(a.value) == "len" for t in a.targets if isinstance(t, ast.Name)}
        sorted_names = {t.id for a in walk_no_nested(mf.node) if isinstance(a, ast.Assign) and isinstance(a.value, ast.Call) and call_name(a.value) == "sorted" for t in a.targets if isinstance(t, ast.Name)}
        if not size_names or not sorted_names:
            raise AnalysisError("R05.17: statistics.median: the sorted copy / its size not recognised")
        bad17 = None
        for n_ in range(1, 10):
            env = {s_: n_ for s_ in size_names}
            read = set()

            def run17(stmts):
                for st in stmts:
                    if isinstance(st, ast.Assign) and len(st.targets) == 1 and isinstance(st.targets[0], ast.Name) and st.targets[0].id not in size_names and st.targets[0].id not in sorted_names:
                        env[st.targets[0].id] = fold(st.value, env)
                    elif isinstance(st, ast.If):
                        if run17(st.body if fold(st.test, env) else st.orelse):
                            return True
                    elif isinstance(st, ast.Return):
                        for x in ast.walk(st.value):
                            if isinstance(x, ast.Subscript) and isinstance(x.value, ast.Name) and x.value.id in sorted_names:
                                read.add(fold(x.slice, env))
                        return True
                return False
            run17([s_ for s_ in mf.node.body if not (isinstance(s_, ast.Expr) and isinstance(s_.value, ast.Constant))])
            want = {n_ // 2} if n_ % 2 else {n_ // 2 - 1, n_ // 2}
            if read != want and bad17 is None:
                bad17 = (n_, sorted(read), sorted(want))
        rep.check(bad17 is None, "R05.17", mf.qualname, "median read beside the middle", fn_where(mf), "statistics.median reads position m of 2m+1 values and positions m-1, m of 2m values (folded for sizes 1..9)",
                  "statistics.median reads the sorted sample at %s for a sample of %s values, where the median lies at %s: every `length_median` / `age_median` summary and every consensus tree built with set_edge_lengths='median-length' / 'median-age' from an even number (four or more) of trees is off by one order statistic" % (bad17[1] if bad17 else "", bad17[0] if bad17 else "", bad17[2] if bad17 else ""))


def _weight_rule_text(fi, name):
    """Normalised text of the if/else that defines the per-tree weight."""
    for n in walk_no_nested(fi.node):
        if isinstance(n, ast.If) and len(n.body) == 1 and len(n.orelse) == 1:
            b, o = n.body[0], n.orelse[0]
            if all(isinstance(x, ast.Assign) and norm(x.targets[0]) == name for x in (b, o)):
                return "if %s: %s else: %s" % (norm(n.test), norm(b.value), norm(o.value))
    return None
